#!/venv/bin/python
"""C10 under PYTHON LANGUAGE TRAPS, COOPERATING SITES, EXCEPTION PATHS, RE-ENTRANCY, NUMERIC FORMS (sixth-round stream).

    PYTHONPATH=/verif JAQALPAQ_RUN_EMULATOR=1 /venv/bin/python /verif/harness/agents/c10_traps.py [--seed 0] [--n 350] [--thorough]

`n` = number of generated programs (recommended: 350 quick ≈ 14 s, 2000 thorough ≈ 130 s; the thorough tier also runs a
fourth history and all eight flag combinations per program).  Oracles only.  Every program is generated
from a small structured SPEC (format of `c10_scale`: its printer `spec_text`, its independent reference `ref_meaning`
— let = its value or the override in force, alias = the qubits it selects, macro call = its body with the arguments
bound, subcircuit blocks spelled `prepare_all … measure_all` iff expand_subcircuits is in the history — and its reader of
library OBJECTS `obj_meaning`, which uses no library pass, are imported, not copied).  On top of both meanings this
script removes what has no meaning at all (an empty `{ }` / `< >`, a loop over nothing) — never a subcircuit block,
which prepares and measures even when its body is empty — so that the oracle does not demand that no-ops are kept.

What the programs contain that the other C10 streams never generate
  falsy statements     empty `{ }`, `< >`, `loop k { }`, `subcircuit { }`, `subcircuit k { }` at top level, in sequential
                       blocks, in loops, in macro bodies; macros with an empty body, called in every position
  names                substrings / prefixes of one another across roles (`q q0 qq`, `a ab abc`, `n n0 nn`, `m mm m0`,
                       `x x0 xx`, and across roles: parameter `xq` / `rx` vs register `q` / `r`, let `nq` vs `n` and `q`), declared in ascending, DESCENDING or shuffled order
  cooperating macros   a macro without any alias in its body that calls (in a loop, a parallel block, a subcircuit with
                       a count) a macro that does use an alias / a let index; macros calling macros defined before them;
                       lets as qubit indices inside macro bodies and as macro arguments; zero-valued lets as index / count
  the same statement   written several times (the builder memoizes gate statements: the same object ends up in several scopes)
  entry                the text through parse_jaqal_string, or the S-expression through circuitbuilder.build with the SAME
                       Python list / tuple object at every position where the subtree is equal, identifiers created at
                       run time ("".join: never interned), integral floats / numpy floats for sizes, indices and slice bounds
  gate table           harness.gates.GATES, or the `native_gates` of the RESULT of a pass on another circuit (re-use)
  override values      every let overridden as int / integral float / np.int64 / np.int32 / np.float64 / bool (0, 1) /
                       negative zero (a Constant OBJECT as an override value is left out: fill_in_let writes the object in,
                       and the generated text then names a let that is not declared — not a number, not quantified over)

oracle
  meaning_after_history    after EVERY prefix of a history (two orders of one multiset of passes, one history with
                           repetitions and trips through text; thorough: a fourth) the meaning read off the result ==
                           the reference meaning of the spec (so all orders agree: commutation up to meaning)
  idempotent               P(P(x)) == P(x) (`==` both ways, equal structure)
  legal_after_pass         generate_jaqal_program succeeds on every result, the text parses, same meaning
  flags_equal_passes       parse_jaqal_string with flags / override_dict vs the passes by hand on the plain parse
  input_not_modified       the plain parse has the same structure and meaning after everything as before
  valid_after_failed_call  calls that raise JaqalError half-way (an override that drives an index out of range or makes a
                           count fractional, fill_in_map on a body indexing a parameter, a parse of the text with TWO
                           defects appended) followed by a VALID history on the same circuit: the input is unchanged and
                           every step equals (==, structure, reference meaning) the step on a freshly parsed circuit
  applicable               a pass refuses (JaqalError) one of these programs — valid under the overrides by construction —
                           only where the check's assumptions allow (fill_in_map while a macro body indexes a parameter)
  only_jaqal_errors        nothing but JaqalError is raised
The three observations of a step (meaning, second application, text) are made in a random order (ACCESS ORDER).
Side condition for fill_in_map as everywhere in C10: an order in which fill_in_map precedes the first fill_in_let only
overrides lets that occur in no index / bound / size.
"""
import argparse
import json
import random
import sys
from collections import Counter

DEFAULT_DRIVER = "/verif/lean/.lake/build/bin/jaqal-model"
MENU = [("X", "q"), ("Y", "q"), ("SX", "q"), ("CX", "qq"), ("CZ", "qq"), ("P", "qi"), ("PF", "fq"), ("CCX", "qqq")]
POOLS = {
    "reg": ["q", "q0", "qq", "r", "r1", "rq", "qr"],
    "alias": ["a", "ab", "abc", "b", "ba", "a0", "q1", "qa", "aq", "bb", "an", "ar"],
    "let": ["n", "n0", "nn", "k", "kn", "k2", "f", "fn", "z", "nk", "zz", "f0", "nq", "kr"],
    "macro": ["m", "mm", "m0", "ma", "am", "g", "gg", "mg", "m1", "gm", "mx", "mq"],
    "param": ["x", "x0", "xx", "y", "xy", "i", "ii", "j", "yx", "ij", "xq", "rx", "xn", "ax"],
}
FLOATS = [0.5, -0.0, 2.0, 0.25, -1.5, 0.0, 1e-3, 3.0]
ORACLES = ("meaning_after_history", "idempotent", "legal_after_pass", "flags_equal_passes", "input_not_modified",
           "valid_after_failed_call", "applicable", "only_jaqal_errors")
FLAG_COMBOS = [(em, el, elm) for em in (False, True) for el in (False, True) for elm in (False, True)]


def _imports():
    global S, np, GATES, build, Constant, fill_in_let, fill_in_map, expand_macros, expand_subcircuits
    global generate_jaqal_program, parse_jaqal_string
    import numpy as np
    from harness.agents import c10_scale as S
    S._imports()
    from harness.gates import GATES
    from jaqalpaq.core.circuitbuilder import build
    from jaqalpaq.core.constant import Constant
    from jaqalpaq.core.algorithm import expand_macros, fill_in_let, expand_subcircuits
    from jaqalpaq.core.algorithm.fill_in_map import fill_in_map
    from jaqalpaq.generator import generate_jaqal_program
    from jaqalpaq.parser import parse_jaqal_string


# ------------------------------------------------------------------------------------------------ generator

class Gen:
    def __init__(self, rng, thorough):
        self.rng = rng
        self.big = thorough
        self.order = rng.choice(["asc", "desc", "desc", "shuffled"])
        self.pools = {}
        for role, pool in POOLS.items():
            p = sorted(pool)
            if self.order == "desc":
                p.reverse()
            elif self.order == "shuffled":
                rng.shuffle(p)
            else:
                # ascending, but start somewhere in the pool
                pass
            self.pools[role] = p
        self.used = {r: 0 for r in POOLS}
        self.lets = {}              # name -> declared value
        self.idx_lets, self.count_lets, self.float_lets, self.sub_count_lets = [], [], [], set()
        self.used_idx = set()
        self.arrays = {}            # name -> length under the declared values
        self.singles = []
        self.header = []
        self.macros = []            # (name, params [(name, type)], has_sub, uses_alias)
        self.regparam = False

    def name(self, role):
        # a subset of the pool in pool order: the declaration order follows the style
        p = self.pools[role]
        i = self.used[role]
        if i < len(p) - 1 and self.rng.random() < 0.3:
            i += 1
        self.used[role] = i + 1
        return p[i % len(p)] + ("" if i < len(p) else str(i))

    def make_header(self):
        rng = self.rng
        lets = []
        for _ in range(rng.choice([1, 2, 2])):
            n = self.name("let")
            v = rng.choice([0, 0, 1, 1, 2])
            lets.append(["let", n, v])
            self.idx_lets.append(n)
        for _ in range(rng.choice([1, 1, 2])):
            n = self.name("let")
            v = rng.choice([0, 1, 2, 2, 3])
            lets.append(["let", n, v])
            self.count_lets.append(n)
        for _ in range(rng.choice([0, 1, 2])):
            n = self.name("let")
            lets.append(["let", n, rng.choice(FLOATS)])
            self.float_lets.append(n)
        size_let = None
        if rng.random() < 0.3:
            size_let = self.name("let")
            lets.append(["let", size_let, rng.choice([3, 4])])
        # the lets were NAMED in the style's order; half of the time they are also declared in another order
        if rng.random() < 0.5:
            rng.shuffle(lets)
        for l in lets:
            self.lets[l[1]] = l[2]
        self.header += lets
        regs = []
        for k in range(1):        # (a circuit has ONE fundamental register)
            n = self.name("reg")
            if k == 0 and size_let is not None:
                regs.append(["reg", n, size_let])
                self.arrays[n] = self.lets[size_let]
                self.used_idx.add(size_let)
            else:
                s = rng.choice([3, 4, 5, 6])
                regs.append(["reg", n, s])
                self.arrays[n] = s
        self.header += regs
        for _ in range(rng.choice([0, 1, 2, 3, 4])):
            n = self.name("alias")
            src = rng.choice(sorted(self.arrays))
            ln = self.arrays[src]
            c = rng.random()
            if ln < 3 and 0.4 <= c < 0.8:
                c = 0.9
            if c < 0.4:
                self.header.append(["map", n, src, ["i", self.index(src)]])
                self.singles.append(n)
            elif c < 0.8:
                start = rng.randrange(0, ln - 1)
                stop = rng.randrange(start + 2, ln + 1) if start + 2 <= ln else ln
                step = rng.choice([1, 1, 2])
                cnt = len(range(start, stop, step))
                if cnt < 1:
                    continue
                st = start
                cands = [l for l in self.idx_lets if self.lets[l] == start]
                if cands and rng.random() < 0.4:
                    st = rng.choice(cands)
                    self.used_idx.add(st)
                self.header.append(["map", n, src, ["s", st, stop, step]])
                self.arrays[n] = cnt
            else:
                self.header.append(["map", n, src, None])
                self.arrays[n] = ln

    def index(self, arr):
        """an index into `arr`: a literal or an index let whose declared value is in range"""
        ln = self.arrays[arr]
        cands = [l for l in self.idx_lets if self.lets[l] < ln]
        if cands and self.rng.random() < 0.4:
            l = self.rng.choice(cands)
            self.used_idx.add(l)
            return l
        return self.rng.randrange(ln)

    def qarg(self, ctx):
        rng = self.rng
        qp = [p for p, t in ctx["params"] if t == "q"]
        ip = [p for p, t in ctx["params"] if t == "i"]
        c = rng.random()
        if qp and c < 0.45:
            return ["n", rng.choice(qp)]
        aliases_ok = ctx.get("alias_ok", True)
        if self.singles and aliases_ok and c < 0.6:
            ctx["uses_alias"] = True
            return ["n", rng.choice(self.singles)]
        arrs = sorted(self.arrays)
        if not aliases_ok:
            arrs = [a for a in arrs if any(h[0] == "reg" and h[1] == a for h in self.header)]
        arr = rng.choice(arrs)
        if not any(h[0] == "reg" and h[1] == arr for h in self.header):
            ctx["uses_alias"] = True
        if ip and ctx.get("regparam_ok") and rng.random() < 0.25:
            self.regparam = True
            return ["q", arr, rng.choice(ip)]
        return ["q", arr, self.index(arr)]

    def narg(self, ctx, t):
        rng = self.rng
        ps = [p for p, tt in ctx["params"] if tt == t]
        c = rng.random()
        if ps and c < 0.4:
            return ["n", rng.choice(ps)]
        if t == "i":
            if c < 0.7:
                return ["n", rng.choice(self.count_lets + self.idx_lets)]
            return ["v", rng.choice([0, 1, 2, 3, -1])]
        if self.float_lets and c < 0.7:
            return ["n", rng.choice(self.float_lets)]
        if c < 0.8:
            return ["n", rng.choice(self.count_lets)]
        return ["v", rng.choice(FLOATS + [1, 0, -2])]

    def gate(self, ctx):
        name, slots = self.rng.choice(MENU)
        return ["g", name, [self.qarg(ctx) if s == "q" else self.narg(ctx, s) for s in slots]]

    def call(self, ctx):
        ms = [m for m in self.macros if not (m[2] and not ctx["can_sub"])]
        if not ms:
            return self.gate(ctx)
        m = self.rng.choice(ms)
        if m[2]:
            ctx["has_sub"] = True
        args = []
        for p, t in m[1]:
            if t == "q":
                # the argument of a call is never indexed by a parameter (kept out of the regparam class)
                sub = dict(ctx, regparam_ok=False)
                args.append(self.qarg(sub))
                self.merge(ctx, sub)
            elif t == "i" and self.rng.random() < 0.5:
                # an index parameter gets an index that is valid for every array: 0, or a let whose value is 0 … 2
                small = [l for l in self.idx_lets if self.lets[l] < min(self.arrays.values())]
                if small and self.rng.random() < 0.6:
                    l = self.rng.choice(small)
                    self.used_idx.add(l)
                    args.append(["n", l])
                else:
                    args.append(["v", self.rng.randrange(min(self.arrays.values()))])
            elif t == "i":
                ips = [q for q, tt in ctx["params"] if tt == "i"]
                args.append(["n", self.rng.choice(ips)] if ips and self.rng.random() < 0.5 else ["v", self.rng.randrange(min(self.arrays.values()))])
            else:
                args.append(self.narg(ctx, "f"))
        return ["g", m[0], args]

    def count(self, for_sub):
        rng = self.rng
        if rng.random() < 0.45:
            cands = [l for l in self.count_lets if (not for_sub) or self.lets[l] >= 1]
            if cands:
                l = rng.choice(cands)
                if for_sub:
                    self.sub_count_lets.add(l)
                return l
        return rng.choice([1, 2, 3, 100] if for_sub else [0, 1, 2, 3])

    def n_items(self, depth):
        return self.rng.choice([0, 0, 1, 1, 2, 3] if depth else [1, 2, 2, 3, 4])

    def simple(self, ctx):
        return self.call(ctx) if self.rng.random() < 0.4 else self.gate(ctx)

    def par(self, ctx):
        sub = dict(ctx, can_sub=False)
        items = []
        for _ in range(self.rng.choice([0, 1, 2, 2, 3])):
            if self.rng.random() < 0.25:
                items.append(["seq", [self.simple(sub) for _ in range(self.rng.choice([0, 1, 2]))]])
            else:
                items.append(self.simple(sub))
        self.merge(ctx, sub)
        return ["par", items]

    @staticmethod
    def merge(ctx, sub):
        for k in ("uses_alias", "has_sub"):
            if sub.get(k):
                ctx[k] = True

    def seq_items(self, ctx, depth, n=None):
        """the statements of a sequential block / loop body / subcircuit body / macro body"""
        rng = self.rng
        out = []
        for _ in range(self.n_items(depth) if n is None else n):
            c = rng.random()
            if c < 0.4 or depth >= 3:
                out.append(self.simple(ctx))
            elif c < 0.52:
                out.append(self.par(ctx))
            elif c < 0.7:
                out.append(["loop", self.count(False), ["seq", self.seq_items(ctx, depth + 1)]])
            elif c < 0.9 and ctx["can_sub"]:
                sub = dict(ctx, can_sub=False)
                items = [] if rng.random() < 0.35 else self.seq_items(sub, depth + 1)
                self.merge(ctx, sub)
                ctx["has_sub"] = True
                out.append(["sub", None if rng.random() < 0.4 else self.count(True), items])
            else:
                out.append(self.simple(ctx))
        # the same statement written twice (memoized by the builder: one object in two places)
        if out and rng.random() < 0.2:
            g = [s for s in out if s[0] == "g"]
            if g:
                out.insert(rng.randrange(len(out) + 1), json.loads(json.dumps(rng.choice(g))))
        return out

    def make_macros(self):
        rng = self.rng
        for _ in range(rng.choice([1, 2, 3, 3, 4])):
            name = self.name("macro")
            nparams = rng.choice([0, 1, 1, 2, 3])
            params = []
            pnames = set()
            for _ in range(nparams):
                p = rng.choice(self.pools["param"])
                if p in pnames:
                    continue
                pnames.add(p)
                params.append((p, rng.choice(["q", "q", "q", "i", "f"])))
            ctx = {"params": params, "can_sub": True, "alias_ok": rng.random() < 0.5, "regparam_ok": rng.random() < 0.15}
            if rng.random() < 0.15:
                body = []
            else:
                body = self.seq_items(ctx, 1, n=rng.choice([1, 2, 2, 3]))
            self.macros.append((name, params, bool(ctx.get("has_sub")), bool(ctx.get("uses_alias"))))
            self.body.append(["macro", name, [p for p, _ in params], ["seq", body]])

    def make(self):
        rng = self.rng
        self.body = []
        self.make_header()
        self.make_macros()
        ctx = {"params": [], "can_sub": True}
        for _ in range(rng.choice([2, 3, 4, 5])):
            c = rng.random()
            if c < 0.2:
                self.body.append(["seq", self.seq_items(ctx, 1)])
            else:
                self.body += self.seq_items(ctx, 0, n=1)
        # (sequential blocks directly at top level are legal; inside another sequential block they are not)
        return {"header": self.header, "body": self.body}

    def info(self):
        return {"idx": sorted(self.used_idx | set(self.idx_lets)), "count": sorted(self.count_lets),
                "subcount": sorted(self.sub_count_lets), "float": sorted(self.float_lets), "lets": dict(self.lets),
                "regparam": self.regparam, "order": self.order}


def build_spec(gp):
    rng = random.Random("c10_traps:spec:%s" % gp["gseed"])
    g = Gen(rng, False)
    spec = g.make()
    return spec, g.info()


# ------------------------------------------------------------------------------------------------ meaning without no-ops

def prune(items):
    """drop what means nothing: an empty non-subcircuit block, a loop over nothing (a subcircuit block always stays)"""
    out = []
    for x in items:
        if x[0] == "g":
            out.append(x)
        elif x[0] == "loop":
            body = x[2]
            if body[0] == "sub":
                out.append(["loop", x[1], ["sub", body[1], prune(body[2])]])
            else:
                b = prune(body[1])
                if b:
                    out.append(["loop", x[1], [body[0], b]])
        elif x[0] == "sub":
            out.append(["sub", x[1], prune(x[2])])
        else:
            b = prune(x[1])
            if b:
                out.append([x[0], b])
    return out


def meaning(c):
    try:
        return ("ok", prune(S.obj_meaning(c)))
    except (S.ObjError, S.RefError) as e:
        return ("bad", f"{type(e).__name__}: {e}")


# ------------------------------------------------------------------------------------------------ overrides and passes

def dec_value(kind, v):
    if kind == "int":
        return int(v)
    if kind == "float":
        return float(v)
    if kind == "np.int64":
        return np.int64(v)
    if kind == "np.int32":
        return np.int32(v)
    if kind == "np.float64":
        return np.float64(v)
    if kind == "bool":
        return bool(v)
    if kind == "const":
        return Constant("w", v)
    if kind == "negzero":
        return -0.0
    raise KeyError(kind)


def dec_ov(ov):
    return {"".join(list(n)): dec_value(k, v) for n, k, v in ov}        # keys are run-time strings


def ov_plain(ov):
    out = {}
    for n, k, v in ov:
        if k in ("int", "np.int64", "np.int32", "bool"):
            out[n] = int(v)
        elif k == "negzero":
            out[n] = 0
        elif k == "const":
            out[n] = v
        else:
            out[n] = float(v)
    return out


def int_kind(rng, v):
    kinds = ["int", "int", "float", "np.int64", "np.int32", "np.float64"]
    if v in (0, 1):
        kinds += ["bool", "bool"]
    if v == 0:
        kinds += ["negzero", "negzero"]
    return rng.choice(kinds)


def gen_ov(rng, info, spec):
    """(overrides of the lets in no index / bound / size, overrides of the others under which the program stays valid)"""
    free, idx = [], []
    lets = info["lets"]
    for n in sorted(lets):
        v = lets[n]
        if n in info["idx"]:
            if rng.random() < 0.6:
                nv = v + rng.choice([1, -1, 1, 0])
                idx.append([n, int_kind(rng, nv), nv])
        elif n in info["count"]:
            if rng.random() < 0.6:
                nv = rng.choice([0, 1, 2, 3, 5, v])
                if n in info["subcount"] and nv < 1:
                    nv = v + 1
                free.append([n, int_kind(rng, nv), nv])
        elif rng.random() < 0.6:
            nv = rng.choice([v * 2, v + 0.5, 0.25, -v, 0.0, -0.0, 7.0])
            free.append([n, rng.choice(["float", "float", "np.float64"]), nv])

    def valid(cand):
        try:
            S.ref_meaning(spec, ov_plain(free + cand), False)
            return True
        except S.RefError:
            return False
    if idx and not valid(idx):
        idx = [o for o in idx if valid([o])][:1]
    return free, idx


def parse(text, gates, **kw):
    return parse_jaqal_string(text, inject_pulses=gates, autoload_pulses=False, **kw)


def apply_pass(p, c, gates):
    if p[0] == "let" and p[2] in ("kw", "pos"):
        return fill_in_let(c, dec_ov(p[1])) if p[2] == "pos" else fill_in_let(c, override_dict=dec_ov(p[1]))
    if p[0] == "text":
        return parse(generate_jaqal_program(c), gates)
    return S.apply_pass(p, c, "gates")


def hist_label(h):
    return "+".join(p[0] for p in h)


# ------------------------------------------------------------------------------------------------ entries

def spec_sexpr(spec, rng):
    """the S-expression of the program with traps: equal subtrees are ONE Python object, identifiers are made at run time,
    sizes / indices / bounds are sometimes integral floats"""
    memo = {}

    def ident(s):
        return "".join(list(s))

    def num(v):
        if isinstance(v, str):
            return ident(v)
        if isinstance(v, int) and not isinstance(v, bool) and rng.random() < 0.3:
            return rng.choice([float(v), np.float64(v)])
        return v

    def cnt(v):
        # (the builder refuses an integral float as a literal loop / subcircuit count: counts stay ints)
        return ident(v) if isinstance(v, str) else v

    def shared(node, make):
        key = json.dumps(node)
        if key not in memo:
            memo[key] = make()
        return memo[key]

    def arg(a):
        if a[0] == "q":
            return shared(a, lambda: ("array_item", ident(a[1]), num(a[2])))
        if a[0] == "n":
            return ident(a[1])
        return a[1]

    def stmt(s):
        if s[0] == "g":
            return shared(s, lambda: (list if rng.random() < 0.5 else tuple)(["gate", ident(s[1])] + [arg(a) for a in s[2]]))
        if s[0] == "loop":
            return shared(s, lambda: ["loop", cnt(s[1]), stmt(s[2])])
        if s[0] == "sub":
            return shared(s, lambda: ["subcircuit_block", "" if s[1] is None else cnt(s[1])] + [stmt(x) for x in s[2]])
        return shared(s, lambda: ["sequential_block" if s[0] == "seq" else "parallel_block"] + [stmt(x) for x in s[1]])

    out = ["circuit"]
    for h in spec["header"]:
        if h[0] == "let":
            out.append(["let", ident(h[1]), h[2]])
        elif h[0] == "reg":
            out.append(["register", ident(h[1]), num(h[2])])
        elif h[3] is None:
            out.append(["map", ident(h[1]), ident(h[2])])
        elif h[3][0] == "i":
            out.append(["map", ident(h[1]), ident(h[2]), num(h[3][1])])
        else:
            out.append(["map", ident(h[1]), ident(h[2])] + [num(x) for x in h[3][1:]])
    for s in spec["body"]:
        if s[0] == "macro":
            out.append(["macro", ident(s[1])] + [ident(p) for p in s[2]] + [stmt(s[3])])
        else:
            out.append(stmt(s))
    return out


HELPER = "register hq[2]\nmacro hm hx { X hx }\nsubcircuit { hm hq[0] }\n"


def gate_table(gp):
    """the gate set of a case: the injected one, or the native_gates of a pass RESULT on another circuit"""
    if gp["gates"] == "injected":
        return GATES
    if gp["gates"] == "none":
        return None
    c = parse(HELPER, GATES)
    r = {"reused:macros": expand_macros, "reused:subs": expand_subcircuits, "reused:let": fill_in_let,
         "reused:map": fill_in_map}[gp["gates"]](c)
    return r.native_gates


# ------------------------------------------------------------------------------------------------ one case

class Acc:
    def __init__(self):
        self.oracle = {k: {"cases": 0, "failures": []} for k in ORACLES}
        self.dist = Counter()
        self.samples = []
        self.nontrivial = set()

    def check(self, name, ok, case, detail):
        self.oracle[name]["cases"] += 1
        if not ok:
            if len(self.oracle[name]["failures"]) < 20:
                self.oracle[name]["failures"].append({"case": case, "detail": detail[:3000]})
            else:
                self.oracle[name]["more_failures"] = self.oracle[name].get("more_failures", 0) + 1


def make_case(gp, text, oracle, **what):
    return {"gen": gp, "oracle": oracle, "what": what, "text": text}


def features(spec):
    f = Counter()

    def st(s, where, inmacro):
        if s[0] == "g":
            return
        if s[0] == "loop":
            if not s[2][1]:
                f["empty loop body"] += 1
            st(s[2], "loop", inmacro)
            return
        items = s[-1]
        if not items:
            f["empty %s in %s%s" % (s[0], where, " (macro)" if inmacro else "")] += 1
        for x in items:
            st(x, s[0], inmacro)
    for s in spec["body"]:
        if s[0] == "macro":
            if not s[3][1]:
                f["macro with an empty body"] += 1
            st(s[3], "macro body", True)
        elif s[0] == "g":
            pass
        else:
            st(s, "top", False)
    return f


def process(acc, gp, thorough):
    spec, info = build_spec(gp)
    text = S.spec_text(spec)
    rng = random.Random("c10_traps:hist:%s" % gp["gseed"])
    free, idx = gen_ov(rng, info, spec)
    histories = S.gen_histories(rng, free, idx, thorough)
    gates = S._guard(lambda: gate_table(gp))
    if gates[0] != "ok":
        acc.check("only_jaqal_errors", False, make_case(gp, text, "only_jaqal_errors", step="gate table"), f"{gates[1]}: {gates[2]}")
        return
    gates = gates[1]
    refs = {}

    def ref(ov, subs):
        key = (json.dumps(ov, sort_keys=True, default=str), subs)
        if key not in refs:
            try:
                refs[key] = ("ok", prune(S.ref_meaning(spec, ov_plain(ov), subs)))
            except S.RefError as e:
                refs[key] = ("bad", str(e))
        return refs[key]

    def entry():
        if gp["entry"] == "sexpr":
            return build(spec_sexpr(spec, random.Random("c10_traps:sx:%s" % gp["gseed"])), inject_pulses=gates)
        return parse(text, gates)

    r = S._guard(entry)
    acc.dist["entry:" + gp["entry"]] += 1
    acc.dist["gates:" + gp["gates"]] += 1
    acc.dist["declaration order:" + info["order"]] += 1
    if r[0] != "ok":
        acc.dist["entry refused:%s:%s" % (gp["entry"], r[1])] += 1
        if gp["entry"] == "text":
            acc.check("only_jaqal_errors", r[1] == "JaqalError", make_case(gp, text, "only_jaqal_errors", step="plain parse"),
                      f"the plain parse raises {r[1]}: {r[2]}")
        return
    c = r[1]
    m0 = meaning(c)
    want0 = ref([], False)
    if want0[0] != "ok" or m0 != want0:
        # generator and parser / builder disagree on the plain program: not this property's business
        acc.dist["entry does not have the reference meaning (case skipped):" + gp["entry"]] += 1
        return
    sig0 = S.obj_sig(c)
    acc.nontrivial.add(text)
    for k, v in features(spec).items():
        acc.dist["feature:" + k] += v
    if info["regparam"]:
        acc.dist["feature:macro body indexes by a parameter"] += 1
    if len(acc.samples) < 4:
        acc.samples.append(make_case(gp, text, None, histories=histories[:2]))

    def run_history(h, start, label, fresh=None):
        """one history from `start`; with `fresh` (another circuit of the same program) every step is also compared
        with the step from there (oracle valid_after_failed_call)"""
        cur, cur2 = start, fresh
        ov_in_force, subs, let_seen, table_kept = [], False, False, True
        for i, p in enumerate(h):
            prefix = h[: i + 1]
            rr = S._guard(lambda: apply_pass(p, cur, gates))
            acc.dist["pass:%s:%s" % (p[0], "ok" if rr[0] == "ok" else rr[1])] += 1
            if rr[0] != "ok":
                if p[0] == "text":
                    break
                acc.check("only_jaqal_errors", rr[1] == "JaqalError", make_case(gp, text, "only_jaqal_errors", prefix=prefix, stream=label),
                          f"{p[0]} raises {rr[1]}: {rr[2]}")
                if rr[1] == "JaqalError":
                    idx_names = {o[0] for o in idx}
                    if any(o[0] in idx_names for o in (p[1] if p[0] == "let" else ov_in_force)):
                        acc.dist["refused under overrides of index lets (not judged)"] += 1
                        break
                    expected = p[0] == "map" and info["regparam"] and table_kept
                    acc.check("applicable", expected, make_case(gp, text, "applicable", prefix=prefix, stream=label),
                              f"{p[0]} refuses the result of {hist_label(h[:i]) or 'the entry'}: {rr[2]}")
                break
            acc.oracle["applicable"]["cases"] += 1
            acc.oracle["only_jaqal_errors"]["cases"] += 1
            if p[0] == "macros" and not p[1]:
                table_kept = False
            nxt = rr[1]
            if p[0] == "let" and not let_seen:
                let_seen = True
                ov_in_force = p[1]
            if p[0] == "subs":
                subs = True
            want = ref(ov_in_force, subs)
            obs = ["meaning", "twice", "text"]
            rng.shuffle(obs)              # ACCESS ORDER
            got = None
            for o in obs:
                if o == "meaning" or (o == "text" and got is None):
                    if got is None:
                        got = meaning(nxt)
                        if want[0] == "ok":
                            ok = got == want
                            acc.check("meaning_after_history", ok, make_case(gp, text, "meaning_after_history", prefix=prefix, stream=label),
                                      "" if ok else (f"the result of {hist_label(prefix)} has no meaning: {got[1]}" if got[0] != "ok" else
                                                     f"the result of {hist_label(prefix)} differs from the reference at {S.first_diff(got[1], want[1])} (result vs reference)"))
                if o == "twice" and p[0] != "text":
                    r2 = S._guard(lambda: apply_pass(p, nxt, gates))
                    case = make_case(gp, text, "idempotent", prefix=prefix, stream=label)
                    if r2[0] != "ok":
                        acc.check("idempotent", False, case, f"the second application of {p[0]} raises {r2[1]}: {r2[2]}")
                    else:
                        again = r2[1]
                        eq = bool(again == nxt) and bool(nxt == again)
                        same = S.obj_sig(again) == S.obj_sig(nxt)
                        acc.check("idempotent", eq and same, case, f"{p[0]} twice vs once: ==: {eq}, same structure: {same}")
                if o == "text" and p[0] != "text":
                    case = make_case(gp, text, "legal_after_pass", prefix=prefix, stream=label)
                    rt = S._guard(lambda: generate_jaqal_program(nxt))
                    if rt[0] != "ok":
                        acc.check("legal_after_pass", False, case, f"the generator raises {rt[1]}: {rt[2]}")
                    else:
                        rp = S._guard(lambda: parse(rt[1], gates))
                        if rp[0] != "ok":
                            acc.check("legal_after_pass", False, case,
                                      f"the text generated from the result of {hist_label(prefix)} is rejected: {rp[1]}: {rp[2]}; text: {rt[1][:1500]!r}")
                        else:
                            back = meaning(rp[1])
                            ok = got[0] == "ok" and back == got
                            acc.check("legal_after_pass", ok, case,
                                      "" if ok else f"re-parsed meaning differs at {S.first_diff(back[1], got[1]) if back[0] == got[0] == 'ok' else (back, got)}; text: {rt[1][:1500]!r}")
            if cur2 is not None:
                r3 = S._guard(lambda: apply_pass(p, cur2, gates))
                case = make_case(gp, text, "valid_after_failed_call", prefix=prefix, stream=label)
                if r3[0] != "ok":
                    acc.check("valid_after_failed_call", False, case,
                              f"{p[0]} succeeds on the circuit that saw the failed calls and raises {r3[1]} on a fresh one: {r3[2]}")
                    cur2 = None
                else:
                    eq = bool(r3[1] == nxt) and bool(nxt == r3[1])
                    same = S.obj_sig(r3[1]) == S.obj_sig(nxt)
                    okm = want[0] != "ok" or got == want
                    acc.check("valid_after_failed_call", eq and same and okm, case,
                              f"after the failed calls vs fresh: ==: {eq}, same structure: {same}, reference meaning: {okm}")
                    cur2 = r3[1]
            cur = nxt

    for h in histories:
        acc.dist["history:" + hist_label(h)] += 1
        run_history(h, c, "history")

    # ---- flags
    combos = FLAG_COMBOS if thorough else rng.sample(FLAG_COMBOS, 3)
    for em, el, elm in combos:
        ovk = rng.choice(["absent", "none", "empty", "given", "given", "given"])
        ov = (list(free) + list(idx)) if ovk == "given" else []
        check_flags(acc, gp, text, gates, c, {"expand_macro": em, "expand_let": el, "expand_let_map": elm, "override": ovk, "ov": ov}, ref, info)

    # ---- failed calls, then a valid history on the same circuit
    failed_calls(acc, gp, text, gates, c, sig0, info, rng, run_history, histories, entry)

    sig1 = S.obj_sig(c)
    m1 = meaning(c)
    acc.check("input_not_modified", sig1 == sig0 and m1 == m0, make_case(gp, text, "input_not_modified"),
              f"the entry circuit changed under the passes: same structure {sig1 == sig0}, same meaning {m1 == m0}")


def failed_calls(acc, gp, text, gates, c, sig0, info, rng, run_history, histories, entry):
    bad = []
    lets = info["lets"]
    il = [n for n in info["idx"] if n in lets]
    cl = info["count"]
    if il:
        n = rng.choice(il)
        bad.append(("fill_in_let: index let out of range", lambda: fill_in_let(c, {n: 99})))
        bad.append(("fill_in_let: fractional index let", lambda: fill_in_let(c, {n: 0.5})))
    if cl:
        k = rng.choice(cl)
        bad.append(("fill_in_let: fractional count let", lambda: fill_in_let(c, {k: 2.5})))
        if il:
            bad.append(("fill_in_let: two defects", lambda: fill_in_let(c, {k: 0.5, il[0]: -7})))
    if info["regparam"]:
        bad.append(("fill_in_map: body indexes a parameter", lambda: fill_in_map(c)))
    first_reg = next(h[1] for h in info_header(text))
    bad.append(("parse: two defects", lambda: parse(text + "X %s[99]\nloop 0.5 { Y zz_undeclared }\n" % first_reg, gates)))
    bad.append(("parse+flags: two defects", lambda: parse(text + "map %s %s[0:99]\nzz_nomacro 1 2 <\n" % ("zz_m", first_reg), gates,
                                                             expand_macro=True, expand_let=True, expand_let_map=True)))
    bad.append(("passes on a broken override, in sequence",
                lambda: fill_in_map(expand_macros(fill_in_let(c, {(il or cl or ["zz"])[0]: 1.5})))))
    rng.shuffle(bad)
    raised = 0
    for label, f in bad[:3]:
        r = S._guard(f)
        acc.dist["failed call:%s:%s" % (label, "no error" if r[0] == "ok" else r[1])] += 1
        if r[0] != "ok":
            raised += 1
            ok = r[1] in ("JaqalError", "JaqalParseError")
            acc.check("only_jaqal_errors", ok, make_case(gp, text, "only_jaqal_errors", failed_call=label), f"{label}: raises {r[1]}: {r[2]}")
        sig = S.obj_sig(c)
        acc.check("valid_after_failed_call", sig == sig0, make_case(gp, text, "valid_after_failed_call", failed_call=label),
                  f"the input of the failed call ({label}) changed")
    if not raised:
        return
    fr = S._guard(entry)
    if fr[0] != "ok":
        acc.check("valid_after_failed_call", False, make_case(gp, text, "valid_after_failed_call", step="entry again"),
                  f"the entry that succeeded before the failed calls now raises {fr[1]}: {fr[2]}")
        return
    fresh = fr[1]
    eq = bool(fresh == c) and bool(c == fresh) and S.obj_sig(fresh) == sig0
    acc.check("valid_after_failed_call", eq, make_case(gp, text, "valid_after_failed_call", step="entry again"),
              "the same entry gives a different circuit after the failed calls")
    run_history(histories[rng.randrange(len(histories))], c, "after failed calls", fresh=fresh)


def info_header(text):
    for line in text.split("\n"):
        w = line.split()
        if len(w) == 2 and w[0] == "register":
            yield ["reg", w[1].split("[")[0]]


def check_flags(acc, gp, text, gates, c, fc, ref, info):
    kw = {k: True for k in ("expand_macro", "expand_let", "expand_let_map") if fc[k]}
    ov = fc["ov"]
    if fc["override"] == "none":
        kw["override_dict"] = None
    elif fc["override"] == "empty":
        kw["override_dict"] = {}
    elif fc["override"] == "given":
        kw["override_dict"] = dec_ov(ov)
    case = make_case(gp, text, "flags_equal_passes", flags=fc)
    a = S._guard(lambda: parse(text, gates, **kw))
    hand = []
    if fc["expand_macro"]:
        hand.append(["macros", True, "kw"])
    if fc["expand_let_map"]:
        hand += [["let", ov, "kw"], ["map"]]
    elif fc["expand_let"]:
        hand.append(["let", ov, "kw"])

    def by_hand():
        x = c
        for p in hand:
            x = apply_pass(p, x, gates)
        return x
    b = S._guard(by_hand)
    acc.dist["flags:%s%s%s:override %s" % ("M" if fc["expand_macro"] else "-", "L" if fc["expand_let"] else "-",
                                           "A" if fc["expand_let_map"] else "-", fc["override"])] += 1
    if a[0] != "ok" or b[0] != "ok":
        ea = None if a[0] == "ok" else a[1]
        eb = None if b[0] == "ok" else b[1]
        acc.dist["flags:refused:%s/%s" % (ea, eb)] += 1
        acc.check("flags_equal_passes", ea == eb, case, f"with the flags: {ea or 'a circuit'} ({'' if a[0] == 'ok' else a[2]}), by hand: {eb or 'a circuit'} ({'' if b[0] == 'ok' else b[2]})")
        if ea == "JaqalError" or eb == "JaqalError":
            expected = (fc["expand_let_map"] and info["regparam"]) or any(o[0] in info["idx"] for o in ov)
            acc.check("applicable", expected, make_case(gp, text, "applicable", flags=fc),
                      f"refused: with the flags: {'' if a[0] == 'ok' else a[2]}; by hand: {'' if b[0] == 'ok' else b[2]}")
        for e, who in ((ea, "the flagged parse"), (eb, "the passes")):
            if e not in (None, "JaqalError"):
                acc.check("only_jaqal_errors", False, case, f"{who} raise {e}")
        return
    x, y = a[1], b[1]
    eq = bool(x == y) and bool(y == x)
    same = S.obj_sig(x) == S.obj_sig(y)
    applied = fc["expand_let"] or fc["expand_let_map"]
    want = ref(ov if applied else [], False)
    got = meaning(x)
    okm = want[0] != "ok" or got == want
    acc.check("flags_equal_passes", eq and same and okm, case,
              f"flagged parse vs passes by hand: ==: {eq}, same structure: {same}, reference meaning: {okm}"
              + ("" if okm else f" (differs at {S.first_diff(got[1], want[1]) if got[0] == 'ok' else got[1]})"))


# ------------------------------------------------------------------------------------------------ run / replay

def gen_params(seed, n, thorough):
    rng = random.Random("c10_traps:%d:%s" % (seed, thorough))
    out = []
    for i in range(n):
        out.append({"gseed": rng.randrange(1 << 40),
                    "entry": "sexpr" if i % 4 == 3 else "text",
                    "gates": rng.choice(["injected", "injected", "none", "none", "reused:macros", "reused:subs", "reused:let", "reused:map"])})
    return out


def run(seed: int, n: int, driver: str = DEFAULT_DRIVER, thorough: bool = False) -> dict:
    _imports()
    acc = Acc()
    for gp in gen_params(seed, n, thorough):
        process(acc, gp, thorough)
    return {"corr": {}, "oracle": acc.oracle, "distribution": dict(sorted(acc.dist.items())),
            "samples": acc.samples, "nontrivial": len(acc.nontrivial)}


def replay(case: dict, driver: str = DEFAULT_DRIVER) -> dict:
    """re-run the program of a failure entry (regenerated from its generator parameters) through all the checks of both
    tiers; the verdict is that of the oracle named in the entry"""
    _imports()
    fails, ncases = [], 0
    for thorough in (False, True):
        acc = Acc()
        process(acc, case["gen"], thorough)
        for name, o in acc.oracle.items():
            if case.get("oracle") in (None, name):
                ncases += o["cases"]
                fails += [f for f in o["failures"] if f not in fails]
    exact = [f for f in fails if f["case"]["what"] == case.get("what")]
    fails = exact or fails
    return {"model": None, "impl": None, "oracle_ok": (not fails) if ncases else None,
            "detail": "; ".join(f["case"]["oracle"] + " " + json.dumps(f["case"]["what"], default=str)[:300] + ": " + f["detail"] for f in fails)[:4000]}


def main():
    ap = argparse.ArgumentParser()
    ap.add_argument("--seed", type=int, default=0)
    ap.add_argument("--n", type=int, default=350)
    ap.add_argument("--thorough", action="store_true")
    ap.add_argument("--json", action="store_true")
    a = ap.parse_args()
    res = run(a.seed, a.n, None, a.thorough)
    bad = 0
    for k, r in res["oracle"].items():
        nf = len(r["failures"]) + r.get("more_failures", 0)
        bad += nf
        print(f"oracle {k:26s} cases {r['cases']:6d}  failures {nf}")
    print("nontrivial", res["nontrivial"])
    if a.json:
        print(json.dumps(res, indent=1, default=str))
    else:
        for k, v in res["distribution"].items():
            print(f"  {k}: {v}")
        for k, r in res["oracle"].items():
            for f in r["failures"][:3]:
                print("FAILURE", k, json.dumps({"gen": f["case"]["gen"], "what": f["case"]["what"]}, default=str)[:1500], f["detail"][:1500])
                print(f["case"]["text"])
    sys.exit(1 if bad else 0)


if __name__ == "__main__":
    main()
