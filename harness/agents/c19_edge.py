#!/venv/bin/python
"""C19 on VALUES and PATHS the schedule generators (time_diff) never produce  (oracles only, no Lean driver).

    PYTHONPATH=/verif /venv/bin/python -W ignore /verif/harness/agents/c19_edge.py [--seed 0] [--n 3000] [--thorough]      (thorough: n 10000 -> 4n cases)

time_diff generates argument-less gates `g<k>`, literal loop counts in {0,1,2,3,7}, literal subcircuit counts in
{1,2,5,100}, never a `let`-valued count, never a native gate set, and judges "loop inside a parallel block" on literal
loops only.  This stream generates whole PROGRAMS (header + body) as a small AST of its own and pushes them through
four front ends

  text     parse_jaqal_string(text, autoload_pulses=False[, inject_pulses=GATES])
  sexp     jaqalpaq.core.circuitbuilder.build(["circuit", ...])      (also same-kind nesting, loops directly in <..>)
  builder  CircuitBuilder / BlockBuilder method calls (let / register / map / macro / gate / block / subcircuit / loop)
  obj      the same program written with the core constructors (Constant, Register, NamedQubit, GateDefinition called
           positionally or by keyword, Macro, BlockStatement, LoopStatement, Circuit(native_gates=...))

with, systematically:
  FALSY / ZERO     subcircuit count 0 (literal and `let z 0`), loop count 0, empty `{}` `<>` `subcircuit {}` `loop n {}`
                   everywhere (branches, only child, first / last), empty body, no header at all, gate arguments
                   0, 0.0, -0.0, index 0, `let` equal to 0 / 0.0 / -0.0, argument 0 handed to a macro parameter
  EXTREMES         counts 65535, 65536, 2**31, 2**53+1, 2**63-1, 2**63, 2**64+1, 10**30, negative counts, (thorough:
                   a 4299-digit count); gate arguments beyond 2**53 / 2**63, floats one ulp apart, denormals, 1.79e308
  ERROR PATH       a loop planted inside a parallel block (through a sequential branch; directly for sexp / builder /
                   obj) with a literal / zero / huge / negative / let-valued count, empty body, nested loops, deep
                   nesting, first / middle / last branch, later zip steps, inside a subcircuit; the CLASS of the
                   exception must be JaqalError
  INTERACTIONS     let-valued counts x rejection, count 0 x nesting in sequential blocks and loop bodies, native gate
                   set x parallel zipping, macros x parallel blocks, registers / aliases / let-indexed qubits as arguments

The reference is computed in this script on canonical dumps (harness.dump) of the circuit before and after the call:
under the unit-time model (gate = 1 step, sequential = sum, parallel = common start / max, loop = count back-to-back
copies of its body, a loop whose count is <= 0 runs nothing) every gate statement gets its set of execution times
(offset of the first iteration + the multiset of (count, body duration) of the enclosing loops; loops are opaque to the
pass, so they are never enumerated and counts of any size are cheap).

oracles (each one is a clause of C19; none asks for more than the property text)
  C19e_accept       a program without a loop inside a parallel block is normalised (no exception of any class)
  C19e_reject       a program with a loop inside a parallel block raises JaqalError from the call itself
                    (failure detail names the class actually raised / says that a circuit was returned)
  C19e_gates        the multiset of gate statements (name, definition, arguments by value and type) is unchanged
                    ("none is lost or duplicated")
  C19e_schedule     every gate statement keeps its execution times and its enclosing subcircuit block
  C19e_subcircuits  the subcircuit blocks, in program order, keep (iteration count AS WRITTEN: the same integer or the
                    same let constant; start time; duration)       ("subcircuit annotations are preserved")
  C19e_flat         the new body is a sequential block of gates / loops / parallel groups made of gates only /
                    subcircuit blocks whose bodies are flat in the same sense
  C19e_header       usepulses, constants, registers and aliases, macros, native gates of the result == those of the input
Programs in which a parallel block with a loop sits inside a LOOP BODY are not generated: the pass treats loops as
opaque (the Lean specification too), the property text would ask for a rejection - that difference is known and is not
the subject of this stream.  A case whose front end does not build the generated tree is counted in the distribution
(`frontend_problem`) and skipped; it is not a C19 matter.

case = {"route", "prog": <AST>, "text": str (route text), "fmt": int (formatting seed), "expect": "ok"|"reject"}
"""
import argparse
import json
import os
import random
import signal
import sys
from collections import Counter

DEFAULT_DRIVER = "/verif/lean/.lake/build/bin/jaqal-model"

ORACLES = ["C19e_accept", "C19e_reject", "C19e_gates", "C19e_schedule", "C19e_subcircuits", "C19e_flat", "C19e_header"]


def _imports():
    global dump, T, GATES, SIG, parse_jaqal_string, build, CircuitBuilder, SequentialBlockBuilder, normalize
    global Circuit, BlockStatement, LoopStatement, Constant, Register, NamedQubit, Parameter, Macro, GateDefinition
    global UsePulsesStatement, JaqalError
    from harness import dump
    from harness import timeouts as T
    from harness.gates import GATES, SIG
    from jaqalpaq.parser import parse_jaqal_string
    from jaqalpaq.core.circuitbuilder import build, CircuitBuilder, SequentialBlockBuilder
    from jaqalpaq.core.algorithm import normalize_blocks_with_unitary_timing as normalize
    from jaqalpaq.core.circuit import Circuit
    from jaqalpaq.core.block import BlockStatement, LoopStatement
    from jaqalpaq.core.constant import Constant
    from jaqalpaq.core.register import Register, NamedQubit
    from jaqalpaq.core.parameter import Parameter
    from jaqalpaq.core.macro import Macro
    from jaqalpaq.core.gatedef import GateDefinition
    from jaqalpaq.core.usepulses import UsePulsesStatement
    from jaqalpaq.error import JaqalError


class _Timeout(Exception):
    pass


def _alarm(_sig, _frm):
    raise _Timeout()


def guarded(fn, *a, **k):
    """Call into the library under the alarm budget."""
    old = signal.signal(signal.SIGALRM, _alarm)
    signal.alarm(int(T.limit()))
    try:
        return fn(*a, **k)
    except _Timeout:
        T.saw_hang()
        raise
    finally:
        signal.alarm(0)
        signal.signal(signal.SIGALRM, old)


# ------------------------------------------------------------------------------------------------
# AST (JSON)
#   term    ["i", int] ["f", float] ["c", let name] ["q", register or slice-alias name, index term] ["a", qubit alias]
#           ["p", macro parameter]
#   stmt    ["g", name, [terms]]   ["l", count term, kind "seq"|"par", [stmts]]   ["b", "seq"|"par"|"sub", count term|None, [stmts]]
#   prog    {"mode": "anon"|"native", "usepulses": [..], "lets": [[name, value]], "reg": [name, size term]|None,
#            "maps": [[name, "qubit", src, idx term] | [name, "slice", src, a, b, c] | [name, "whole", src]],
#            "macros": [[name, [params], [stmts]]], "body": [stmts]}

BIG = [65535, 65536, 2**31, 2**53 + 1, 2**63 - 1, 2**63, 2**64 + 1, 10**30]
SMALL = [1, 1, 2, 2, 3, 5, 7, 100]
INT_ARGS = [0, 0, 0, 1, -1, 2, 7, 65535, 65536, 2**53, 2**53 + 1, 2**63, -(2**63) - 1, 2**64 + 1, 10**30]
NEXT_PI = 3.1415926535897936  # one ulp above math.pi
FLOAT_ARGS = [0.0, 0.0, -0.0, -0.0, 0.5, 1.5, -2.25, 0.1, 0.3, 0.30000000000000004, 1e-320, 5e-324, -5e-324,
              1.7976931348623157e308, 9007199254740992.0, 1e22, 3.141592653589793, NEXT_PI, 2.0, 1e-7]
LET_POOL = [("z", 0), ("n", 3), ("one", 1), ("two", 2), ("big", 2**64 + 1), ("h", 65536), ("neg", -1),
            ("zf", 0.0), ("mz", -0.0), ("tf", 2.0), ("fh", 0.5), ("fe", 1e-320), ("fpi", NEXT_PI), ("m53", 2**53 + 1)]


def count_value(v):
    """What the front ends make of a let value (integral floats become integers)."""
    if isinstance(v, float) and v == int(v):
        return int(v)
    return v


class G:
    """generation context"""

    def __init__(self, rng, route, mode, plant):
        self.rng, self.route, self.mode, self.plant = rng, route, mode, plant
        self.free = route != "text" and rng.random() < 0.5  # shapes only the builder accepts
        self.k = 0
        self.lets = []
        self.reg = None
        self.regsize = 0
        self.maps = []
        self.macros = []
        self.planted = 0

    def uid(self):
        self.k += 1
        return self.k - 1

    def int_lets(self):
        return [n for n, v in self.lets if isinstance(count_value(v), int)]

    def let_val(self, n):
        return count_value(dict(self.lets)[n])


def gen_header(g):
    rng = g.rng
    style = rng.choice(["none", "lets", "full", "full", "full"]) if g.mode == "anon" else "full"
    up = []
    if style != "none" and rng.random() < 0.5:
        up = rng.sample(["foo.bar", "qscout.v1.std", "x"], rng.choice([1, 1, 2]))
    if style != "none":
        pool = list(LET_POOL)
        k = rng.choice([1, 2, 3, 4, 6])
        chosen = rng.sample(pool, k)
        if rng.random() < 0.7 and not any(n == "z" for n, _ in chosen):
            chosen.append(("z", 0))
        rng.shuffle(chosen)
        g.lets = [[n, v] for n, v in chosen]
    if style == "full":
        sz = rng.choice([1, 2, 3, 4])
        cands = [n for n in g.int_lets() if g.let_val(n) == sz]
        size_t = ["c", rng.choice(cands)] if cands and rng.random() < 0.5 else ["i", sz]
        g.reg, g.regsize = ["r", size_t], sz
        if rng.random() < 0.6:
            g.maps.append(["a", "qubit", "r", idx_term(g, 0)])
        if rng.random() < 0.4:
            g.maps.append(["s", "slice", "r", ["i", 0], ["i", sz], ["i", 1]])
        if rng.random() < 0.3:
            g.maps.append(["w", "whole", "r"])
    return up


def idx_term(g, i):
    cands = [n for n in g.int_lets() if g.let_val(n) == i]
    if cands and g.rng.random() < 0.4:
        return ["c", g.rng.choice(cands)]
    return ["i", i]


def qubit_term(g, i):
    """a term denoting qubit i of the register"""
    rng = g.rng
    opts = [["q", "r", idx_term(g, i)]]
    for m in g.maps:
        if m[1] == "qubit" and i == 0:
            opts.append(["a", m[0]])
        if m[1] in ("slice", "whole"):
            opts.append(["q", m[0], idx_term(g, i)])
    return rng.choice(opts)


def any_term(g, params=()):
    rng = g.rng
    r = rng.random()
    if params and r < 0.5:
        return ["p", rng.choice(params)]
    if r < 0.3:
        return ["i", rng.choice(INT_ARGS)]
    if r < 0.6:
        return ["f", rng.choice(FLOAT_ARGS)]
    if r < 0.8 and g.lets:
        return ["c", rng.choice(g.lets)[0]]
    if g.reg:
        return qubit_term(g, rng.randrange(g.regsize))
    return ["i", 0]


def gen_gate(g, params=None):
    """params: None in the main body; (qubit params, int params) inside a macro body"""
    rng = g.rng
    if params is None and g.macros and rng.random() < 0.2:
        name, ps, _ = rng.choice(g.macros)
        if g.mode == "anon":
            return ["g", name, [any_term(g) if rng.random() < 0.6 else ["i", 0] for _ in ps]]
        # native macros: (q) or (q, k)
        args = [qubit_term(g, rng.randrange(g.regsize))]
        if len(ps) == 2:
            args.append(int_term(g))
        return ["g", name, args]
    if g.mode == "anon":
        nargs = rng.choice([0, 0, 1, 1, 2, 3])
        pn = (params[0] + params[1]) if params else ()
        return ["g", f"g{g.uid()}", [any_term(g, pn) for _ in range(nargs)]]
    names = [n for n, s in SIG.items() if s.count("q") <= g.regsize] + ["prepare_all", "measure_all"]
    name = rng.choice(names)
    sig = SIG.get(name, "")
    qs = rng.sample(range(g.regsize), sig.count("q"))
    args = []
    for ch in sig:
        if ch == "q":
            if params and params[0] and rng.random() < 0.6 and not any(a[0] == "p" for a in args):
                args.append(["p", params[0][0]])
                qs.pop()
            else:
                args.append(qubit_term(g, qs.pop()))
        else:
            if params and params[1] and rng.random() < 0.6:
                args.append(["p", params[1][0]])
            else:
                args.append(int_term(g))
    return ["g", name, args]


def int_term(g):
    rng = g.rng
    il = g.int_lets()
    if il and rng.random() < 0.35:
        return ["c", rng.choice(il)]
    return ["i", rng.choice([0, 0, 0, 1, 2, 3, -1, 65536, 2**53 + 1, 2**64 + 1])]


def gen_count(g, what):
    rng = g.rng
    il = g.int_lets()
    r = rng.random()
    if r < 0.3:
        z = [n for n in il if g.let_val(n) == 0]
        if z and rng.random() < 0.4:
            return ["c", rng.choice(z)]
        return ["i", 0]
    if r < 0.5 and il:
        return ["c", rng.choice(il)]
    if r < 0.78:
        return ["i", rng.choice(SMALL)]
    if r < 0.95:
        return ["i", rng.choice(BIG)]
    return ["i", rng.choice([-1, -3])]


def gen_items(g, depth, in_par, in_sub, in_loop):
    n = g.rng.choice([0, 0, 1, 1, 2, 2, 3, 4])
    return [gen_seq_stmt(g, depth, in_par, in_sub, in_loop) for _ in range(n)]


def gen_loop(g, depth, in_par, in_sub):
    rng = g.rng
    kind = "par" if (g.free and rng.random() < 0.2) else "seq"
    if kind == "seq":
        body = gen_items(g, depth - 1, in_par, in_sub, True)
    else:
        body = [gen_par_child(g, depth - 1, in_sub, True) for _ in range(rng.choice([0, 2, 3]))]
    return ["l", gen_count(g, "loop"), kind, body]


def gen_seq_stmt(g, depth, in_par, in_sub, in_loop, top=False):
    rng = g.rng
    if depth <= 0 or rng.random() < (0.15 if top else 0.35):
        return gen_gate(g)
    kinds = ["par", "par"]
    if not in_par:
        kinds += ["loop"]
    elif g.plant and not in_loop and rng.random() < 0.5:
        kinds += ["loop", "loop"]
    if not in_par and not in_sub:
        kinds += ["sub", "sub"]
    if g.free:
        kinds += ["seq"]
    kind = rng.choice(kinds)
    if kind == "par":
        n = rng.choice([0, 1, 2, 2, 3, 3, 4])
        return ["b", "par", None, [gen_par_child(g, depth - 1, in_sub, in_loop) for _ in range(n)]]
    if kind == "seq":
        return ["b", "seq", None, gen_items(g, depth - 1, in_par, in_sub, in_loop)]
    if kind == "sub":
        cnt = None if rng.random() < 0.15 else gen_count(g, "sub")
        return ["b", "sub", cnt, gen_items(g, depth - 1, in_par, True, in_loop)]
    if in_par:
        g.planted += 1
    return gen_loop(g, depth, in_par, in_sub)


def gen_par_child(g, depth, in_sub, in_loop):
    rng = g.rng
    if depth <= 0 or rng.random() < 0.4:
        return gen_gate(g)
    if g.free:
        r = rng.random()
        if r < 0.15:
            n = rng.choice([0, 1, 2, 3])
            return ["b", "par", None, [gen_par_child(g, depth - 1, in_sub, in_loop) for _ in range(n)]]
        if r < 0.3 and g.plant and not in_loop:
            g.planted += 1
            return gen_loop(g, depth, True, in_sub)
    return ["b", "seq", None, gen_items(g, depth - 1, True, in_sub, in_loop)]


def gen_macros(g):
    rng = g.rng
    if g.mode == "anon":
        for i in range(rng.choice([0, 0, 1, 2])):
            ps = [f"p{i}{j}" for j in range(rng.choice([0, 1, 2]))]
            g.macros.append([f"m{i}", ps, gen_macro_body(g, (ps, []))])
    else:
        for i in range(rng.choice([0, 0, 1, 2])):
            two = rng.random() < 0.5
            ps = [f"q{i}"] + ([f"k{i}"] if two else [])
            g.macros.append([f"m{i}", ps, gen_macro_body(g, ([ps[0]], ps[1:]))])


def gen_macro_body(g, params):
    rng = g.rng
    out = []
    for _ in range(rng.choice([0, 1, 2, 3])):
        if rng.random() < 0.5:
            out.append(gen_gate(g, params))
        else:
            out.append(["b", "par", None, [gen_gate(g, params),
                                            ["b", "seq", None, [gen_gate(g, params) for _ in range(rng.choice([0, 1, 2]))]]]])
    return out


def gen_prog(rng, route, mode, plant):
    g = G(rng, route, mode, plant)
    up = gen_header(g)
    macros_wanted = rng.random() < 0.5
    if macros_wanted:
        gen_macros(g)
    depth = rng.choice([1, 2, 3, 3, 4, 4, 5])
    n = rng.choice([0, 1, 1, 2, 2, 3, 4])
    if plant:
        n = max(n, 1)
    body = [gen_seq_stmt(g, depth, False, False, False, top=True) for _ in range(n)]
    return {"mode": mode, "usepulses": up, "lets": g.lets, "reg": g.reg, "maps": g.maps,
            "macros": g.macros, "body": body}


def plant_loop(rng, prog, g):
    """Make sure a `reject` program has a loop inside a parallel block: wrap one."""
    cnt = gen_count(g, "loop")
    inner = [gen_gate(g) for _ in range(rng.choice([0, 1, 2]))]
    loop = ["l", cnt, "seq", inner]
    branch = ["b", "seq", None, [gen_gate(g) for _ in range(rng.choice([0, 1, 2]))] + [loop] +
              [gen_gate(g) for _ in range(rng.choice([0, 0, 1]))]]
    others = [gen_gate(g) for _ in range(rng.choice([0, 1, 2]))]
    kids = others + [branch]
    rng.shuffle(kids)
    par = ["b", "par", None, kids]
    if rng.random() < 0.3:
        par = ["b", "sub", gen_count(g, "sub"), [par]]
    prog["body"].insert(rng.randrange(len(prog["body"]) + 1), par)


# ------------------------------------------------------------------------------------------------ predicates on the AST


def loop_in_par(s, p=False):
    """a loop inside a parallel block, loops being opaque"""
    if s[0] == "g":
        return False
    if s[0] == "l":
        return p
    return any(loop_in_par(k, p or s[1] == "par") for k in s[3])


def shape(s):
    """what the front end must have built, compared with shape_of_dump"""
    if s[0] == "g":
        return ["g", s[1], len(s[2])]
    if s[0] == "l":
        return ["l", s[2] == "par", [shape(k) for k in s[3]]]
    return ["b", s[1], [shape(k) for k in s[3]]]


def shape_of_dump(d):
    if "g" in d:
        return ["g", d["g"], len(d["args"])]
    if "l" in d:
        return ["l", d["body"]["par"], [shape_of_dump(k) for k in d["body"]["b"]]]
    return ["b", "sub" if d["sub"] else ("par" if d["par"] else "seq"), [shape_of_dump(k) for k in d["b"]]]


def ast_features(prog, f):
    lets = {n: count_value(v) for n, v in prog["lets"]}

    def cnt(t, what):
        if t is None:
            f[f"{what}_count=default"] += 1
            return
        v = lets[t[1]] if t[0] == "c" else t[1]
        src = "let" if t[0] == "c" else "lit"
        if v == 0:
            cls = "0"
        elif v < 0:
            cls = "neg"
        elif v == 1:
            cls = "1"
        elif v <= 100:
            cls = "small"
        elif v < 2**63:
            cls = "big<2^63"
        else:
            cls = "big>=2^63"
        f[f"{what}_count={src}:{cls}"] += 1

    def go(s, par, sub, loop):
        if s[0] == "g":
            for a in s[2]:
                if a[0] in ("i", "f") and a[1] == 0:
                    f["gate_arg_zero"] += 1
                    if a[0] == "f" and str(a[1]).startswith("-"):
                        f["gate_arg_minus_zero"] += 1
                if a[0] == "i" and abs(a[1]) > 2**53:
                    f["gate_arg_int_beyond_2^53"] += 1
            return
        if not s[3]:
            f[f"empty_{'loop' if s[0] == 'l' else s[1]}"] += 1
        if s[0] == "l":
            cnt(s[1], "loop_in_par" if par else "loop")
            for k in s[3]:
                go(k, par or s[2] == "par", sub, True)
            return
        if s[1] == "sub":
            cnt(s[2], "sub")
            f["sub_in_loop_body" if loop else "sub_at_seq_level"] += 1
        if s[1] == "par":
            lens = [len(k[3]) if k[0] == "b" and k[1] == "seq" else 1 for k in s[3]]
            if len(set(lens)) > 1:
                f["par_unequal_branches"] += 1
        for k in s[3]:
            go(k, par or s[1] == "par", sub or s[1] == "sub", loop)

    for s in prog["body"]:
        go(s, False, False, False)
    if not prog["body"]:
        f["empty_body"] += 1
    if not (prog["lets"] or prog["reg"] or prog["usepulses"] or prog["macros"]):
        f["no_header"] += 1
    if prog["macros"]:
        f["has_macros"] += 1
    if prog["usepulses"]:
        f["has_usepulses"] += 1
    if prog["maps"]:
        f["has_maps"] += 1


# ------------------------------------------------------------------------------------------------ route: text


def ftext(x):
    r = repr(float(x))
    if "e" in r:
        m, e = r.split("e")
        if "." not in m:
            m += ".0"
        r = m + "e" + e
    return r


def term_text(t):
    k = t[0]
    if k == "i":
        return str(t[1])
    if k == "f":
        return ftext(t[1])
    if k in ("c", "a", "p"):
        return t[1]
    return f"{t[1]}[{term_text(t[2])}]"


def stmt_text(s, fr):
    if s[0] == "g":
        return " ".join([s[1]] + [term_text(a) for a in s[2]])
    if s[0] == "l":
        return f"loop {term_text(s[1])} " + block_text("seq", s[3], fr)
    if s[1] == "sub":
        head = "subcircuit " if s[2] is None else f"subcircuit {term_text(s[2])} "
        return head + block_text("seq", s[3], fr)
    return block_text(s[1], s[3], fr)


def block_text(kind, kids, fr):
    if kind == "par":
        sep = fr.choice([" | ", "|", "\n", " |\n "])
        return "<" + sep.join(stmt_text(k, fr) for k in kids) + ">"
    sep = fr.choice(["; ", ";", "\n", " ;\n "])
    return "{" + sep.join(stmt_text(k, fr) for k in kids) + "}"


def prog_text(prog, fmt):
    fr = random.Random(fmt)
    lines = [f"from {u} usepulses *" for u in prog["usepulses"]]
    for n, v in prog["lets"]:
        lines.append(f"let {n} " + (ftext(v) if isinstance(v, float) else str(v)))
    if prog["reg"]:
        lines.append(f"register {prog['reg'][0]}[{term_text(prog['reg'][1])}]")
    for m in prog["maps"]:
        if m[1] == "qubit":
            lines.append(f"map {m[0]} {m[2]}[{term_text(m[3])}]")
        elif m[1] == "slice":
            lines.append(f"map {m[0]} {m[2]}[{term_text(m[3])}:{term_text(m[4])}:{term_text(m[5])}]")
        else:
            lines.append(f"map {m[0]} {m[2]}")
    for name, ps, body in prog["macros"]:
        lines.append(" ".join(["macro", name] + ps) + " " + block_text("seq", body, fr))
    sep = fr.choice(["\n", "; ", ";\n"])
    return "\n".join(lines) + ("\n" if lines else "") + sep.join(stmt_text(s, fr) for s in prog["body"])


# ------------------------------------------------------------------------------------------------ route: sexp / builder


def term_sexp(t):
    k = t[0]
    if k in ("i", "f"):
        return t[1]
    if k in ("c", "a", "p"):
        return t[1]
    return ("array_item", t[1], term_sexp(t[2]))


def stmt_sexp(s, fr):
    if s[0] == "g":
        return ("gate", s[1], *[term_sexp(a) for a in s[2]])
    if s[0] == "l":
        return ("loop", term_sexp(s[1]), ("parallel_block" if s[2] == "par" else "sequential_block",
                                          *[stmt_sexp(k, fr) for k in s[3]]))
    if s[1] == "sub":
        cnt = fr.choice(["", None]) if s[2] is None else term_sexp(s[2])
        return ("subcircuit_block", cnt, *[stmt_sexp(k, fr) for k in s[3]])
    return ("parallel_block" if s[1] == "par" else "sequential_block", *[stmt_sexp(k, fr) for k in s[3]])


def header_sexp(prog):
    out = [("usepulses", u, "*") for u in prog["usepulses"]]
    out += [("let", n, v) for n, v in prog["lets"]]
    if prog["reg"]:
        out.append(("register", prog["reg"][0], term_sexp(prog["reg"][1])))
    for m in prog["maps"]:
        if m[1] == "qubit":
            out.append(("map", m[0], m[2], term_sexp(m[3])))
        elif m[1] == "slice":
            out.append(("map", m[0], m[2], term_sexp(m[3]), term_sexp(m[4]), term_sexp(m[5])))
        else:
            out.append(("map", m[0], m[2]))
    return out


def prog_sexp(prog, fmt):
    fr = random.Random(fmt)
    out = ["circuit"] + header_sexp(prog)
    for name, ps, body in prog["macros"]:
        out.append(("macro", name, *ps, ("sequential_block", *[stmt_sexp(k, fr) for k in body])))
    out += [stmt_sexp(s, fr) for s in prog["body"]]
    return out


def fill_builder(bb, stmts, fr):
    for s in stmts:
        if s[0] == "g":
            bb.gate(s[1], *[term_sexp(a) for a in s[2]])
        elif s[0] == "l":
            if s[2] == "seq" and fr.random() < 0.7:
                inner = SequentialBlockBuilder()
                fill_builder(inner, s[3], fr)
                bb.loop(term_sexp(s[1]), inner, unevaluated=True)
            else:
                bb.loop(term_sexp(s[1]), stmt_sexp(["b", s[2], None, s[3]], fr), unevaluated=True)
        elif s[1] == "sub":
            fill_builder(bb.subcircuit(None if s[2] is None else term_sexp(s[2])), s[3], fr)
        else:
            fill_builder(bb.block(parallel=(s[1] == "par")), s[3], fr)


def prog_builder(prog, fmt):
    fr = random.Random(fmt)
    cb = CircuitBuilder(native_gates=GATES if prog["mode"] == "native" else None)
    for u in prog["usepulses"]:
        cb.usepulses(u, unevaluated=fr.random() < 0.5)
    for n, v in prog["lets"]:
        cb.let(n, v, unevaluated=fr.random() < 0.5)
    if prog["reg"]:
        cb.register(prog["reg"][0], term_sexp(prog["reg"][1]), unevaluated=True)
    for m in prog["maps"]:
        if m[1] == "qubit":
            cb.map(m[0], m[2], term_sexp(m[3]), unevaluated=True)
        elif m[1] == "slice":
            cb.map(m[0], m[2], slice(term_sexp(m[3]), term_sexp(m[4]), term_sexp(m[5])), unevaluated=True)
        else:
            cb.map(m[0], m[2], unevaluated=True)
    for name, ps, body in prog["macros"]:
        inner = SequentialBlockBuilder()
        fill_builder(inner, body, fr)
        cb.macro(name, list(ps), inner, unevaluated=True)
    fill_builder(cb, prog["body"], fr)
    return cb.build()


# ------------------------------------------------------------------------------------------------ route: obj


def prog_obj(prog, fmt):
    fr = random.Random(fmt)
    native = prog["mode"] == "native"
    c = Circuit(native_gates=GATES if native else None)
    for u in prog["usepulses"]:
        c.usepulses.append(UsePulsesStatement(u, fr.choice([all, "*"])))
    env = {}
    for n, v in prog["lets"]:
        env[n] = c.constants[n] = Constant(n, count_value(v))
    gdefs = dict(GATES) if native else {}

    def term(t, penv):
        k = t[0]
        if k in ("i", "f"):
            return t[1]
        if k == "c" or k == "a":
            return env[t[1]]
        if k == "p":
            return penv[t[1]]
        return env[t[1]][term(t[2], penv)]

    if prog["reg"]:
        name, size = prog["reg"]
        env[name] = c.registers[name] = Register(name, term(size, {}))
    for m in prog["maps"]:
        if m[1] == "qubit":
            o = NamedQubit(m[0], env[m[2]], term(m[3], {}))
        elif m[1] == "slice":
            o = Register(m[0], alias_from=env[m[2]], alias_slice=slice(term(m[3], {}), term(m[4], {}), term(m[5], {})))
        else:
            o = Register(m[0], alias_from=env[m[2]])
        env[m[0]] = c.registers[m[0]] = o

    def stmt(s, penv):
        if s[0] == "g":
            args = [term(a, penv) for a in s[2]]
            gd = gdefs.get(s[1])
            if gd is None:
                gd = gdefs[s[1]] = GateDefinition(s[1], parameters=[Parameter(f"p{i}", None) for i in range(len(args))])
            if args and fr.random() < 0.4:
                return gd.call(**{p.name: a for p, a in zip(gd.parameters, args)})
            return gd(*args)
        if s[0] == "l":
            return LoopStatement(term(s[1], penv), BlockStatement(parallel=(s[2] == "par"), statements=[stmt(k, penv) for k in s[3]]))
        kids = [stmt(k, penv) for k in s[3]]
        if s[1] == "sub":
            if s[2] is None:
                return BlockStatement(subcircuit=True, statements=kids)
            return BlockStatement(subcircuit=True, iterations=term(s[2], penv), statements=kids)
        return BlockStatement(parallel=(s[1] == "par"), statements=kids)

    for name, ps, body in prog["macros"]:
        plist = [Parameter(p, None) for p in ps]
        penv = {p.name: p for p in plist}
        mac = Macro(name, parameters=plist, body=BlockStatement(statements=[stmt(k, penv) for k in body]))
        gdefs[name] = c.macros[name] = mac
    c.body.statements.extend(stmt(s, {}) for s in prog["body"])
    return c


def circuit_of_case(case):
    prog, route = case["prog"], case["route"]
    inj = GATES if prog["mode"] == "native" else None
    if route == "text":
        return parse_jaqal_string(case["text"], autoload_pulses=False, inject_pulses=inj)
    if route == "sexp":
        return build(prog_sexp(prog, case["fmt"]), inject_pulses=inj)
    if route == "builder":
        return prog_builder(prog, case["fmt"])
    return prog_obj(prog, case["fmt"])


# ------------------------------------------------------------------------------------------------ reference (on dumps)


def cval(v):
    """integer value of a dumped count"""
    if "c" in v:
        v = v["v"]
    return int(v["i"])


def ckey(v):
    return json.dumps(v, sort_keys=True)


def dur(d):
    if "g" in d:
        return 1
    if "l" in d:
        return max(0, cval(d["l"])) * dur(d["body"])
    ds = [dur(k) for k in d["b"]]
    return max(ds, default=0) if d["par"] else sum(ds)


def when(t0, ctx):
    if any(n == 0 for n, _ in ctx):
        return "never"
    return json.dumps([t0, sorted([n, dd] for n, dd in ctx if n >= 2)])


def walk(d, t0, ctx, sub, gates, subs):
    if "g" in d:
        gates.append((ckey(d), when(t0, ctx), sub))
        return
    if "l" in d:
        n = max(0, cval(d["l"]))
        walk(d["body"], t0, ctx + [(n, dur(d["body"]))], sub, gates, subs)
        return
    if d["sub"]:
        sub = len(subs)
        subs.append([ckey(d["it"]), when(t0, ctx), dur(d), bool(d["par"])])
    for k in d["b"]:
        walk(k, t0, ctx, sub, gates, subs)
        if not d["par"]:
            t0 += dur(k)


def schedule(body_dump):
    gates, subs = [], []
    walk(body_dump, 0, [], None, gates, subs)
    return gates, subs


def flat_items(items):
    for k in items:
        if "g" in k or "l" in k:
            continue
        if k["sub"]:
            if k["par"] or not flat_items(k["b"]):
                return False
        elif k["par"]:
            if any("g" not in x for x in k["b"]):
                return False
        else:
            return False
    return True


def header_of(cd):
    return {k: v for k, v in cd.items() if k != "body"}


def _short(x, n=600):
    s = x if isinstance(x, str) else json.dumps(x)
    return s if len(s) <= n else s[:n] + f"...(+{len(s) - n})"


def evaluate(case):
    """-> (results {oracle: (ok, detail)}, info).  info["frontend"] is set when the case could not be judged."""
    res, info = {}, {}
    prog = case["prog"]
    try:
        c = guarded(circuit_of_case, case)
        din = dump.circuit(c)
    except _Timeout:
        info["frontend"] = "timeout in the front end"
        return res, info
    except Exception as e:
        info["frontend"] = f"front end refused the generated program: {type(e).__name__}: {e}"
        return res, info
    want = [shape(s) for s in prog["body"]]
    got = [shape_of_dump(k) for k in din["body"]["b"]]
    if want != got:
        info["frontend"] = f"front end built another tree: {_short(got)}"
        return res, info
    expect_reject = any(loop_in_par(s) for s in prog["body"])
    assert expect_reject == (case["expect"] == "reject"), "case inconsistent"
    try:
        new = guarded(normalize, c)
        exc = None
    except _Timeout:
        exc = "timeout"
        new = None
        ecls = None
    except BaseException as e:  # noqa: the class is what is judged
        if isinstance(e, (KeyboardInterrupt, SystemExit)):
            raise
        exc = f"{type(e).__name__}: {e}"
        ecls = e
        new = None
    info["outcome"] = "ok" if exc is None else ("timeout" if exc == "timeout" else type(ecls).__name__)
    if expect_reject:
        if exc is None:
            res["C19e_reject"] = (False, "a loop sits inside a parallel block but a circuit was returned: "
                                  + _short(dump.stmt(new.body)))
        elif exc == "timeout" or not isinstance(ecls, JaqalError):
            res["C19e_reject"] = (False, f"a loop sits inside a parallel block; expected JaqalError, got {_short(exc, 300)}")
        else:
            res["C19e_reject"] = (True, "")
        return res, info
    if exc is not None:
        res["C19e_accept"] = (False, f"no loop inside a parallel block, yet the call raised {_short(exc, 300)}")
        return res, info
    res["C19e_accept"] = (True, "")
    try:
        dout = dump.circuit(new)
    except Exception as e:
        res["C19e_flat"] = (False, f"result is not a dumpable circuit: {type(e).__name__}: {e}")
        return res, info
    info["changed"] = dout["body"] != din["body"]
    gi, si = schedule(din["body"])
    go, so = schedule(dout["body"])
    info["nonempty"] = bool(gi)
    ci, co = Counter(g for g, _, _ in gi), Counter(g for g, _, _ in go)
    lost, dup = ci - co, co - ci
    res["C19e_gates"] = (not lost and not dup,
                         f"lost {_short(sorted(lost.elements()), 300)} extra {_short(sorted(dup.elements()), 300)}")
    wi, wo = Counter(gi), Counter(go)
    if wi == wo:
        res["C19e_schedule"] = (True, "")
    else:
        a = sorted((json.loads(g)["g"], w, s) for (g, w, s) in (wi - wo).elements())
        b = sorted((json.loads(g)["g"], w, s) for (g, w, s) in (wo - wi).elements())
        res["C19e_schedule"] = (False, f"(gate, [start, loops], subcircuit#) only in the input: {_short(a, 400)}; only in the result: {_short(b, 400)}")
    res["C19e_subcircuits"] = (si == so, f"(count, [start, loops], duration, parallel) of the subcircuit blocks: in {_short(si, 400)} out {_short(so, 400)}")
    b = dout["body"]
    top_ok = ("b" in b) and not b["par"] and not b["sub"] and cval(b["it"]) == 1 and "c" not in b["it"]
    res["C19e_flat"] = (bool(top_ok and flat_items(b["b"])), f"result body {_short(b, 800)}")
    hi, ho = header_of(din), header_of(dout)
    bad = [k for k in hi if hi[k] != ho.get(k)]
    res["C19e_header"] = (not bad, "; ".join(f"{k}: in {_short(hi[k], 250)} out {_short(ho.get(k), 250)}" for k in bad))
    return res, info


# ------------------------------------------------------------------------------------------------ fixed cases

FIXED = [
    # (text, expect) -- anonymous gates; lifted into the AST form by hand below
    ("subcircuit 0 { g0; <g1|{g2;g3}> }", "ok"),
    ("{ g0; subcircuit 0 { <g1|{g2;g3}>; g4 } ; g5 }", "ok"),
    ("let z 0\nsubcircuit z { g0; <g1|{g2;g3}> }", "ok"),
    ("loop 2 { subcircuit 0 { g0 } }", "ok"),
    ("subcircuit 0 {}", "ok"),
    ("let n 3\n<{loop n {g0; g1}} | g2>", "reject"),
    ("let z 0\n<{loop z {g0}} | g2>", "reject"),
    ("let z 0\n<g2 | {g3; loop z {}}>", "reject"),
    ("<{loop 0 {}}>", "reject"),
    ("let big 18446744073709551617\n<g0|{g1;g2;loop big {g3}}|g4>", "reject"),
    ("let n 3\nsubcircuit n {<g0|{g1; <g2|{loop n {g3}}>}>}", "reject"),
    ("let z 0\nloop z { <g0 0|{g1 0.0;g2 -0.0}> }\ng3 z", "ok"),
    ("let n 3\nloop n {g0}; <g1|{g2;g3}>; loop 18446744073709551617 {g4}; g5", "ok"),
    ("<g0 0|{g1 0.0; g2 -0.0}|{}>", "ok"),
    ("<g0 0.3|{g1 0.30000000000000004; g2 9007199254740993}>", "ok"),
    ("", "ok"),
    ("let z 0", "ok"),
]


def ast_of_dump_stmt(d):
    if "g" in d:
        return ["g", d["g"], [term_of_dump(v) for _, v in d["args"]]]
    if "l" in d:
        return ["l", term_of_dump(d["l"]), "par" if d["body"]["par"] else "seq", [ast_of_dump_stmt(k) for k in d["body"]["b"]]]
    kind = "sub" if d["sub"] else ("par" if d["par"] else "seq")
    return ["b", kind, term_of_dump(d["it"]) if d["sub"] else None, [ast_of_dump_stmt(k) for k in d["b"]]]


def term_of_dump(v):
    if "i" in v:
        return ["i", int(v["i"])]
    if "f" in v:
        return ["f", dump.undec(v["f"])]
    if "c" in v:
        return ["c", v["c"]]
    raise ValueError(v)


def fixed_cases(thorough):
    out = []
    texts = list(FIXED)
    if thorough:
        nine = "9" * 4299
        texts.append((f"subcircuit {nine} {{ g0; <g1|{{g2;g3}}> }}; loop {nine} {{ g4 }}; g5", "ok"))
        texts.append((f"<g0|{{loop {nine} {{g1}}}}>", "reject"))
    for text, expect in texts:
        c = parse_jaqal_string(text, autoload_pulses=False)
        prog = {"mode": "anon", "usepulses": [], "lets": [[n, k.value] for n, k in c.constants.items()], "reg": None,
                "maps": [], "macros": [], "body": [ast_of_dump_stmt(dump.stmt(s)) for s in c.body.statements]}
        for route in ("text", "sexp", "builder", "obj"):
            out.append({"route": route, "prog": prog, "text": text, "fmt": 0, "expect": expect, "fixed": True})
    return out


# ------------------------------------------------------------------------------------------------ run / replay


def gen_cases(seed, n, thorough):
    rng = random.Random(f"c19_edge:{seed}")
    total = n * (4 if thorough else 1)
    cases = fixed_cases(thorough)
    routes = ["text", "text", "sexp", "builder", "obj"]
    for i in range(total):
        route = routes[i % len(routes)]
        mode = "native" if rng.random() < 0.3 else "anon"
        plant = rng.random() < 0.35
        sub = random.Random(rng.getrandbits(64))
        g = None
        prog = gen_prog(sub, route, mode, plant)
        if plant and not any(loop_in_par(s) for s in prog["body"]):
            g = G(sub, route, mode, True)
            g.lets, g.reg = prog["lets"], prog["reg"]
            g.regsize = 0
            if prog["reg"]:
                t = prog["reg"][1]
                g.regsize = t[1] if t[0] == "i" else count_value(dict(map(tuple, prog["lets"]))[t[1]])
            g.maps = prog["maps"]
            g.k = 10000 + i
            plant_loop(sub, prog, g)
        expect = "reject" if any(loop_in_par(s) for s in prog["body"]) else "ok"
        fmt = sub.getrandbits(32)
        case = {"route": route, "prog": prog, "fmt": fmt, "expect": expect}
        if route == "text":
            case["text"] = prog_text(prog, fmt)
        cases.append(case)
    return cases


def run(seed: int, n: int, driver: str = DEFAULT_DRIVER, thorough: bool = False) -> dict:
    _imports()
    cases = gen_cases(seed, n, thorough)
    oracle = {k: {"cases": 0, "failures": []} for k in ORACLES}
    dist = Counter()
    nontrivial = set()
    fe_examples = []
    for case in cases:
        res, info = evaluate(case)
        route, mode = case["route"], case["prog"]["mode"]
        if "frontend" in info:
            dist["frontend_problem"] += 1
            dist[f"frontend_problem:{route}"] += 1
            if len(fe_examples) < 3:
                fe_examples.append({"case": case, "detail": info["frontend"]})
            continue
        dist[f"route={route}"] += 1
        dist[f"mode={mode}"] += 1
        dist[f"expect={case['expect']}"] += 1
        dist[f"outcome={info.get('outcome')}"] += 1
        dist[f"{route}:{case['expect']}"] += 1
        ast_features(case["prog"], dist)
        if info.get("changed"):
            dist["ok_and_changed"] += 1
        if info.get("nonempty"):
            dist["ok_and_nonempty_schedule"] += 1
        if info.get("changed") or case["expect"] == "reject":
            nontrivial.add(json.dumps([route, case["prog"]], sort_keys=True))
        for name, (ok, detail) in res.items():
            oracle[name]["cases"] += 1
            if not ok and len(oracle[name]["failures"]) < 20:
                oracle[name]["failures"].append({"case": case, "detail": detail})
            elif not ok:
                dist[f"more_failures:{name}"] += 1
    samples = [c for c in cases if not c.get("fixed")][:6]
    out = {"corr": {}, "oracle": oracle, "distribution": dict(sorted(dist.items())), "samples": samples,
           "nontrivial": len(nontrivial)}
    if fe_examples:
        out["frontend_examples"] = fe_examples
    return out


def replay(case: dict, driver: str = DEFAULT_DRIVER) -> dict:
    _imports()
    res, info = evaluate(case)
    if "frontend" in info:
        return {"oracle_ok": None, "detail": info["frontend"]}
    bad = [f"{k}: {d}" for k, (ok, d) in res.items() if not ok]
    return {"oracle_ok": not bad, "detail": "; ".join(bad) or "all oracles hold", "impl": info.get("outcome")}


def main():
    ap = argparse.ArgumentParser()
    ap.add_argument("--n", type=int, default=3000)
    ap.add_argument("--seed", type=int, default=0)
    ap.add_argument("--thorough", action="store_true")
    ap.add_argument("--json", action="store_true")
    args = ap.parse_args()
    r = run(args.seed, args.n, thorough=args.thorough)
    if args.json:
        print(json.dumps(r, indent=1))
    bad = 0
    for k, v in r["oracle"].items():
        print(f"oracle {k}: {v['cases']} cases, {len(v['failures'])} failures")
        for f in v["failures"][:3]:
            print("   FINDING", _short(json.dumps(f), 1500))
        bad += len(v["failures"])
    for k, v in r["distribution"].items():
        print("  ", k, v)
    for f in r.get("frontend_examples", []):
        print("   FRONTEND", _short(json.dumps(f), 1500))
    print("nontrivial:", r["nontrivial"])
    print("RESULT:", "OK" if bad == 0 else f"{bad} PROBLEMS")
    sys.exit(0 if bad == 0 else 1)


if __name__ == "__main__":
    sys.path.insert(0, "/verif")
    os.environ.setdefault("JAQALPAQ_RUN_EMULATOR", "1")
    main()
