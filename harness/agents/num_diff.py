#!/venv/bin/python
"""Differential test of the literal layer of C01: Lean model `Jaqal.NumText` vs the real code.

  real `generate_jaqal_value(x)`                      vs  op `gen_num`
  real `JaqalLexer().tokenize(text)` (one token?)     vs  op `read_literal`
  `re.match` of the lexer's NUMBER / INT patterns     vs  ops `match_number`, `match_int` (prefix matches)

Run:  /venv/bin/python /verif/harness/agents/num_diff.py [--lean-dir /verif/lean] [--n 6000] [--seed 1]
It builds `JaqalModel.Model.NumTextOps` in the lean dir and talks to a tiny line-protocol driver run
with `lake env lean --run` (or pass `--driver "<cmd>"` for a native driver that knows the two ops).
Exit status 0 iff there are zero differences.
"""
import argparse, json, os, random, re, subprocess, sys, tempfile
from decimal import Decimal

from jaqalpaq.generator.generator import generate_jaqal_value
from jaqalpaq.parser.slyparse import JaqalLexer
from jaqalpaq.error import JaqalError

NUMBER_RE = r"[-+]?[0-9]*\.[0-9]+([eE][-+]?[0-9]+)?"
INT_RE = r"[-+]?[0-9]+"

DRIVER = r'''
import JaqalModel.Model.NumTextOps
open Lean Jaqal
def handle (line : String) : String :=
  match Json.parse line with
  | .error e => (jobj [("err", .str s!"bad json: {e}")]).compress
  | .ok j =>
    match (do let op ← jstr (← jget j "op")
              match NumText.ops.lookup op with
              | some f => f j
              | none => .error s!"unknown op {op}") with
    | .ok out => (jobj [("out", out)]).compress
    | .error e => (jobj [("err", .str e)]).compress
partial def loop (h o : IO.FS.Stream) : IO Unit := do
  let line ← h.getLine
  if line.isEmpty then return ()
  let l := line.trimAscii.toString
  if !l.isEmpty then o.putStrLn (handle l)
  loop h o
def main : IO Unit := do
  let o ← IO.getStdout
  loop (← IO.getStdin) o
  o.flush
'''


def run_model(requests, lean_dir, driver):
    data = "".join(json.dumps(r) + "\n" for r in requests)
    if driver:
        out = subprocess.run(driver, shell=True, input=data, capture_output=True, text=True, check=True).stdout
    else:
        subprocess.run(["lake", "build", "JaqalModel.Model.NumTextOps"], cwd=lean_dir, check=True,
                       stdout=subprocess.DEVNULL)
        with tempfile.NamedTemporaryFile("w", suffix=".lean", delete=False) as f:
            f.write(DRIVER)
        try:
            out = subprocess.run(["lake", "env", "lean", "--run", f.name], cwd=lean_dir, input=data,
                                 capture_output=True, text=True, check=True).stdout
        finally:
            os.unlink(f.name)
    lines = [json.loads(l) for l in out.splitlines() if l.strip()]
    assert len(lines) == len(requests), (len(lines), len(requests))
    return lines


def dec_of_float(x):
    """The model's `Dec` of a real float: exact shortest decimal, canonical; as Num JSON."""
    sign, digs, exp = Decimal(repr(x)).as_tuple()
    digs = list(digs)
    while len(digs) > 1 and digs[-1] == 0:
        digs.pop(); exp += 1
    m = int("".join(map(str, digs)))
    if m == 0:
        exp = 0
    return {"f": [bool(sign), str(m), str(exp)]}


def num_json(v):
    if isinstance(v, float):
        return dec_of_float(v)
    return {"i": str(v)}


def norm_json(j):
    """Model output → comparable form (ints are decimal strings on output)."""
    if j is None:
        return None
    if "i" in j:
        return {"i": str(j["i"])}
    n, m, e = j["f"]
    return {"f": [bool(n), str(m), str(e)]}


def real_literal(text):
    """What the real lexer makes of `text` if the whole of it is exactly one NUMBER/INT token, else None.
    Returns ("skip", why) when the float conversion leaves the modelled range."""
    try:
        toks = list(JaqalLexer().tokenize(text))
    except JaqalError as exc:
        if "out of range" in str(exc):
            return ("skip", "inf")
        return None
    except Exception:
        return None
    if len(toks) != 1 or toks[0].type not in ("NUMBER", "INT"):
        return None
    if toks[0].index != 0 or toks[0].end != len(text):             # blanks around it are not part of the literal
        return None
    v = toks[0].value
    assert (toks[0].type == "NUMBER") == isinstance(v, float)
    return v


def sig_digits_and_sciexp(text):
    """(number of mantissa digits, scientific exponent) of a NUMBER text, to decide whether float()
    is exact on it (≤ 15 digits, normal range)."""
    t = text.lstrip("+-").lower()
    mant, _, ex = t.partition("e")
    ip, _, fp = mant.partition(".")
    digs = (ip + fp).lstrip("0")
    e = int(ex) if ex else 0
    return len(ip + fp), e + len(ip.lstrip("0")) - 1 if ip.lstrip("0") else e - (len(fp) - len(fp.lstrip("0"))) - 1


def main():
    ap = argparse.ArgumentParser()
    ap.add_argument("--lean-dir", default="/verif/lean")
    ap.add_argument("--driver", default=None)
    ap.add_argument("--n", type=int, default=6000)
    ap.add_argument("--seed", type=int, default=1)
    a = ap.parse_args()
    rng = random.Random(a.seed)

    # ---------- values to write -------------------------------------------------------------
    values = [0.0, -0.0, 1e-06, -1e-06, 1e16, 1e15, 9999999999999998.0, 1e-4, 1e-5, 0.0001, 1.5e-5, 1e22, 1e21,
              123456789012345.0, 1234567890123456.0, 1.0, -1.0, 3.0, 0.1, 1e100, 1.5e100, 1e-100, 5e-324 * 0 + 2.5e-300,
              0, 1, -1, 7, 10, -10, 100, 10**15, 10**16, 10**100, -(10**100), 2**64, -(2**63), 10**300 + 1]
    for n in range(1, 16):                       # every digit count, every sci exponent near the layout switch
        for e in list(range(-8, 20)) + [-300, -299, 299, 300, -100, 100]:
            for sgn in ("", "-"):
                m = rng.randint(10 ** (n - 1), 10 ** n - 1)
                if m % 10 == 0: m += 1
                values.append(float(f"{sgn}{m}e{e - (n - 1)}"))
    while len(values) < a.n:
        if rng.random() < 0.75:
            n = rng.randint(1, 15); m = rng.randint(10 ** (n - 1), 10 ** n - 1)
            if rng.random() < 0.8 and m % 10 == 0: m += 1
            e = rng.randint(-300, 300) if rng.random() < 0.6 else rng.randint(-8, 20)
            values.append(float(f"{rng.choice(['', '-'])}{m}e{e - (n - 1)}"))
        else:
            k = rng.choice([1, 2, 5, 18, 19, 20, 40, 100, 300, 1000])
            values.append(rng.choice([1, -1]) * rng.randint(0, 10 ** k))

    real_text = [generate_jaqal_value(v) for v in values]
    model_text = run_model([{"op": "gen_num", "num": num_json(v)} for v in values], a.lean_dir, a.driver)
    bad = 0
    for v, rt, mt in zip(values, real_text, model_text):
        if mt.get("out") != rt:
            bad += 1
            if bad <= 20: print("GEN DIFF", repr(v), "real", rt, "model", mt)
    print(f"gen_num: {len(values)} values ({sum(isinstance(v, float) for v in values)} floats, "
          f"{sum('e' in t for t in real_text)} in exponent layout), differences: {bad}")

    # ---------- texts to read: the generated ones, variations of them, and random soup -------
    texts = list(real_text)
    for t in real_text[: a.n // 3]:
        texts.append("+" + t if t[0] != "-" else t[1:])
        if "e" in t:
            texts.append(t.replace("e", "E")); texts.append(t.replace(".0e", "e")); texts.append(t.replace("e+", "e"))
            texts.append(t[: t.index("e") + 1]); texts.append(t[: t.index("e") + 2])
        if "." in t:
            texts.append(t[: t.index(".") + 1]); texts.append(t[t.index("."):]); texts.append(t + ".5")
        texts.append(t + "0"); texts.append("00" + t); texts.append(t + "e5"); texts.append(t + "e-3"); texts.append(t + " ")
    alphabet = "0123456789" * 2 + "..eE+-" + "x_ \n"
    for _ in range(a.n):
        texts.append("".join(rng.choice(alphabet) for _ in range(rng.randint(0, 8))))
    texts += ["", ".", ".5", "+.5", "-.5e3", "1.", "1.e5", "1e5", "1.5e", "1.5e+", "1.5e+5", "1.5E-05", "-0.0", "+0", "-0",
              "007", "1.5.5", "1.5e5.5", "1_0", "--1", "+-1", "1.5e--5", "0.0e0", "-0.0e5", "0.000", "00.100"]

    real_vals = [real_literal(t) for t in texts]
    model_vals = run_model([{"op": "read_literal", "text": t} for t in texts], a.lean_dir, a.driver)
    bad2 = skipped = exact = kinds = 0
    for t, rv, mv in zip(texts, real_vals, model_vals):
        if "err" in mv:
            bad2 += 1; print("MODEL ERR", repr(t), mv); continue
        mj = norm_json(mv["out"])
        if isinstance(rv, tuple):                                  # inf: outside the model
            skipped += 1; continue
        if rv is None or mj is None:
            kinds += 1
            if not (rv is None and mj is None):
                bad2 += 1
                if bad2 <= 20: print("READ DIFF", repr(t), "real", rv, "model", mj)
            continue
        if isinstance(rv, float):
            nd, se = sig_digits_and_sciexp(t)
            if "f" not in mj:
                bad2 += 1; print("READ KIND DIFF", repr(t), rv, mj); continue
            if nd > 15 or abs(se) > 290:                           # float() may round: compare the kind only
                kinds += 1; continue
        exact += 1
        if num_json(rv) != mj:
            bad2 += 1
            if bad2 <= 20: print("READ DIFF", repr(t), "real", num_json(rv), "model", mj)
    print(f"read_literal: {len(texts)} texts ({exact} compared by exact value, {kinds} by token kind/None, "
          f"{skipped} skipped as inf), differences: {bad2}")

    # ---------- prefix matches of the two token patterns (taken from the lexer class) -----------
    pats = {"match_number": re.compile(JaqalLexer.NUMBER.pattern if hasattr(JaqalLexer.NUMBER, "pattern") else NUMBER_RE),
            "match_int": re.compile(JaqalLexer.INT.pattern if hasattr(JaqalLexer.INT, "pattern") else INT_RE)}
    soup = [t for t in texts if "\n" not in t] + [t + rng.choice(" ;|x.eE+-0") + t2
                                                   for t, t2 in zip(real_text[:2000], real_text[1000:3000])]
    bad4 = 0
    for op, pat in pats.items():
        outs = run_model([{"op": op, "text": t} for t in soup], a.lean_dir, a.driver)
        for t, o in zip(soup, outs):
            m = pat.match(t)
            want = None if m is None else [t[: m.end()], t[m.end():]]
            if o.get("out", "missing") != want:
                bad4 += 1
                if bad4 <= 20: print("MATCH DIFF", op, repr(t), "re", want, "model", o)
    print(f"match_number/match_int vs re.match: 2 x {len(soup)} texts, differences: {bad4}")

    # ---------- round trip and token separation on the real code (sanity of the harness) ------
    bad3 = 0
    for v, t in zip(values, real_text):
        toks = list(JaqalLexer().tokenize(f"{t} {t}\n"))
        ok = [k.type for k in toks] in (["NUMBER", "NUMBER", "NL"], ["INT", "INT", "NL"]) and \
            all(k.value == v and type(k.value) is type(v) and repr(k.value) == repr(v) for k in toks[:2])
        if not ok:
            bad3 += 1
            if bad3 <= 20: print("REAL ROUNDTRIP FAIL", repr(v), t, toks)
    print(f"real code round trip / separation: {len(values)} values, failures: {bad3}")
    sys.exit(1 if bad or bad2 or bad3 or bad4 else 0)


if __name__ == "__main__":
    main()
