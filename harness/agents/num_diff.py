#!/venv/bin/python
"""Differential test of the literal layer of C01: Lean model `Jaqal.NumText` vs the real code.

Correspondence (model vs implementation), through the native line-protocol driver:
  gen_num       real `generate_jaqal_value(x)`                         vs op `gen_num`
  read_literal  real `JaqalLexer().tokenize(text)` (whole text 1 token?) vs op `read_literal`
  match_number  `re.match` of the lexer's own NUMBER pattern             vs op `match_number`
  match_int     `re.match` of the lexer's own INT pattern                vs op `match_int`

Direct oracles (the property on the real code alone, no Lean involved):
  literal_roundtrip   the real lexer reads `generate_jaqal_value(x)` back as ONE token whose value == x
                      with the same type class (float/int, same repr, so -0.0 stays -0.0), also when
                      followed by a blank and another literal; generating the value read is byte-identical.
  literal_in_program  `let v <x>\\nregister r[1]\\ng <x> <y>\\n` parses (values as expected: the let holds
                      `as_integer(x)`), generates, re-parses to an equal circuit, re-generates byte-identically.

Import:  PYTHONPATH=/verif  →  `from harness.agents import num_diff; num_diff.run(seed, n)`
CLI:     /venv/bin/python /verif/harness/agents/num_diff.py [--n 3000] [--seed 1] [--thorough]
                                                            [--driver PATH | --lean-dir DIR]
Exit status 0 iff there are no disagreements and no oracle failures.

Float domain (DESIGN.md §3.3): decimals with <= 15 significant digits, scientific exponent -300..300
(both `repr` layouts, every digit count, both signs, +-0.0). Int domain: any int below CPython's 4300
digit limit. A float case is recorded as its `repr` (exact), an int as its decimal string.
"""
import argparse
import json
import random
import re
import shlex
import subprocess
import sys
from decimal import Decimal

DEFAULT_DRIVER = "/verif/lean/.lake/build/bin/jaqal-model"
NUMBER_RE = r"[-+]?[0-9]*\.[0-9]+([eE][-+]?[0-9]+)?"
INT_RE = r"[-+]?[0-9]+"
MAX_LIST = 20


# ----------------------------------------------------------------------------------------------
# real code (imported lazily: nothing happens at import time)

def _real():
    from jaqalpaq.generator.generator import generate_jaqal_value
    from jaqalpaq.generator import generate_jaqal_program
    from jaqalpaq.parser.slyparse import JaqalLexer
    from jaqalpaq.parser import parse_jaqal_string
    from jaqalpaq.error import JaqalError
    return generate_jaqal_value, generate_jaqal_program, JaqalLexer, parse_jaqal_string, JaqalError


def _patterns():
    JaqalLexer = _real()[2]
    num = getattr(JaqalLexer.NUMBER, "pattern", NUMBER_RE)
    int_ = getattr(JaqalLexer.INT, "pattern", INT_RE)
    return {"match_number": re.compile(num), "match_int": re.compile(int_)}


# ----------------------------------------------------------------------------------------------
# driver

def call_driver(requests, driver):
    """One subprocess for the whole batch; returns the list of reply objects."""
    if not requests:
        return []
    data = "".join(json.dumps(r) + "\n" for r in requests)
    p = subprocess.run(shlex.split(driver), input=data, capture_output=True, text=True)
    if p.returncode != 0:
        raise RuntimeError(f"driver failed ({p.returncode}): {p.stderr[:500]}")
    lines = [json.loads(l) for l in p.stdout.splitlines() if l.strip()]
    if len(lines) != len(requests):
        raise RuntimeError(f"driver returned {len(lines)} lines for {len(requests)} requests")
    return lines


# ----------------------------------------------------------------------------------------------
# values <-> JSON

def val_case(v):
    return {"f": repr(v)} if isinstance(v, float) else {"i": str(v)}


def case_val(c):
    return float(c["f"]) if "f" in c else int(c["i"])


def dec_of_float(x):
    """The model's `Dec` of a real float (exact shortest decimal, canonical), as Num JSON."""
    sign, digs, exp = Decimal(repr(x)).as_tuple()
    digs = list(digs)
    while len(digs) > 1 and digs[-1] == 0:
        digs.pop(); exp += 1
    m = int("".join(map(str, digs)))
    if m == 0:
        exp = 0
    return {"f": [bool(sign), str(m), str(exp)]}


def num_json(v):
    return dec_of_float(v) if isinstance(v, float) else {"i": str(v)}


def norm_json(j):
    """Model output -> comparable form."""
    if j is None:
        return None
    if "i" in j:
        return {"i": str(j["i"])}
    n, m, e = j["f"]
    return {"f": [bool(n), str(m), str(e)]}


def same_number(a, b):
    """== and same type class and same repr (distinguishes 0.0 / -0.0, 3 / 3.0)."""
    return type(a) is type(b) and a == b and repr(a) == repr(b)


# ----------------------------------------------------------------------------------------------
# generators (everything from the one `rng`)

SPECIAL = [0.0, -0.0, 1e-06, -1e-06, 1e16, 1e15, 9999999999999998.0, 1e-4, 1e-5, 1.5e-5, 1e22, 1e21,
           123456789012345.0, 1234567890123456.0, 1.0, -1.0, 3.0, 0.1, 1e100, 1.5e100, 1e-100, 2.5e-300,
           0, 1, -1, 7, 10, -10, 100, 10 ** 15, 10 ** 16, 10 ** 100, -(10 ** 100), 2 ** 64, -(2 ** 63),
           10 ** 300 + 1]


def rand_float(rng, near_switch):
    n = rng.randint(1, 15)
    m = rng.randint(10 ** (n - 1), 10 ** n - 1)
    if rng.random() < 0.8 and m % 10 == 0:
        m += 1
    e = rng.randint(-8, 20) if near_switch else rng.randint(-300, 300)   # scientific exponent
    return float(f"{rng.choice(['', '-'])}{m}e{e - (n - 1)}")


def gen_values(rng, n, thorough):
    vals = list(SPECIAL)
    grid = []
    for nd in range(1, 16):                      # every digit count x every exponent near the layout switch
        for e in list(range(-8, 20)) + [-300, -299, 299, 300, -100, 100]:
            for sgn in ("", "-"):
                m = rng.randint(10 ** (nd - 1), 10 ** nd - 1)
                if m % 10 == 0:
                    m += 1
                grid.append(float(f"{sgn}{m}e{e - (nd - 1)}"))
    if n < len(SPECIAL) + len(grid):
        rng.shuffle(grid)
        grid = grid[: max(0, n - len(SPECIAL))]
    vals += grid
    sizes = [1, 2, 5, 18, 19, 20, 40, 100, 300, 1000] + ([4000] if thorough else [])
    while len(vals) < n:
        if rng.random() < 0.75:
            vals.append(rand_float(rng, rng.random() < 0.4))
        else:
            vals.append(rng.choice([1, -1]) * rng.randint(0, 10 ** rng.choice(sizes)))
    return vals[:max(n, len(SPECIAL))]


def gen_texts(rng, gen_text, n):
    """Texts to read: generated ones, mutations of them, and character soup."""
    texts = list(gen_text)
    for t in gen_text[: max(1, n // 3)]:
        texts.append("+" + t if t[0] != "-" else t[1:])
        if "e" in t:
            i = t.index("e")
            texts += [t.replace("e", "E"), t.replace(".0e", "e"), t.replace("e+", "e"), t[: i + 1], t[: i + 2]]
        if "." in t:
            i = t.index(".")
            texts += [t[: i + 1], t[i:], t + ".5"]
        texts += [t + "0", "00" + t, t + "e5", t + "e-3", t + " ", " " + t]
    alphabet = "0123456789" * 2 + "..eE+-" + "x_ \n"
    for _ in range(n):
        texts.append("".join(rng.choice(alphabet) for _ in range(rng.randint(0, 8))))
    for a, b in zip(gen_text[: n // 3], gen_text[n // 3: 2 * (n // 3)]):
        texts.append(a + rng.choice(" ;|x.eE+-0") + b)
    texts += ["", ".", ".5", "+.5", "-.5e3", "1.", "1.e5", "1e5", "1.5e", "1.5e+", "1.5e+5", "1.5E-05", "-0.0",
              "+0", "-0", "007", "1.5.5", "1.5e5.5", "1_0", "--1", "+-1", "1.5e--5", "0.0e0", "-0.0e5", "0.000",
              "00.100", "1e-06", "1.0e-06"]
    return texts


# ----------------------------------------------------------------------------------------------
# implementation side of the correspondence

def real_literal(text):
    """("num", v) if the whole of `text` is exactly one NUMBER/INT token; ("none",) otherwise;
    ("skip", why) when `float()` leaves the modelled range (inf)."""
    _, _, JaqalLexer, _, JaqalError = _real()
    try:
        toks = list(JaqalLexer().tokenize(text))
    except JaqalError as exc:
        return ("skip", "inf") if "out of range" in str(exc) else ("none",)
    except Exception:
        return ("none",)
    if len(toks) != 1 or toks[0].type not in ("NUMBER", "INT"):
        return ("none",)
    if toks[0].index != 0 or toks[0].end != len(text):       # blanks around it are not part of the literal
        return ("none",)
    return ("num", toks[0].value)


def float_is_exact(text):
    """Is `float(text)` certainly the exact decimal value of a NUMBER text (<= 15 digits, normal range)?"""
    t = text.lstrip("+-").lower()
    mant, _, ex = t.partition("e")
    ip, _, fp = mant.partition(".")
    e = int(ex) if ex else 0
    return len(ip + fp) <= 15 and -280 <= e - len(fp) and e + len(ip) <= 280


def compare_read(text, rv, model_reply):
    """-> (how, ok, impl_json, model_json); how in exact|kind|none|skip."""
    if "err" in model_reply:
        return "exact", False, None, model_reply
    mj = norm_json(model_reply["out"])
    if rv[0] == "skip":
        return "skip", True, "inf", mj
    if rv[0] == "none":
        return "none", mj is None, None, mj
    v = rv[1]
    if mj is None:
        return "exact", False, val_case(v), mj
    if isinstance(v, float):
        if "f" not in mj:
            return "kind", False, val_case(v), mj
        if not float_is_exact(text):
            return "kind", True, val_case(v), mj           # float() may round: compare the token kind only
    return "exact", num_json(v) == mj, num_json(v), mj


# ----------------------------------------------------------------------------------------------
# direct oracles

def oracle_literal_roundtrip(v):
    """-> (ok, detail)."""
    gen, _, JaqalLexer, _, _ = _real()
    try:
        t = gen(v)
        toks = list(JaqalLexer().tokenize(t))
        if len(toks) != 1:
            return False, f"{t!r} lexes as {[(k.type, k.value) for k in toks]}"
        k = toks[0]
        if k.type != ("NUMBER" if isinstance(v, float) else "INT") or not same_number(k.value, v):
            return False, f"{t!r} read back as {k.type} {k.value!r}"
        if k.index != 0 or k.end != len(t):
            return False, f"{t!r}: token covers [{k.index},{k.end}) only"
        if gen(k.value) != t:
            return False, f"second generation {gen(k.value)!r} != {t!r}"
        toks = list(JaqalLexer().tokenize(f"{t} {t}\n"))
        if [x.type for x in toks] != [k.type, k.type, "NL"] or not all(same_number(x.value, v) for x in toks[:2]):
            return False, f"{t!r} followed by a blank and itself lexes as {[(x.type, x.value) for x in toks]}"
        return True, ""
    except Exception as exc:                                   # noqa: BLE001
        return False, f"{type(exc).__name__}: {exc}"


def program_text(x, y):
    gen = _real()[0]
    gx, gy = gen(x), gen(y)
    return f"let v {gx}\nregister r[1]\ng {gx} {gy}\n"


def oracle_literal_in_program(x, y):
    _, genprog, _, parse, _ = _real()
    from jaqalpaq.core.circuitbuilder import as_integer
    try:
        txt = program_text(x, y)
        c = parse(txt, autoload_pulses=False)
        stored = c.constants["v"].value
        if not same_number(stored, as_integer(x)) or stored != x:
            return False, f"let holds {stored!r}, expected as_integer({x!r})"
        params = list(c.body.statements[0].parameters.values())
        if len(params) != 2 or not same_number(params[0], x) or not same_number(params[1], y):
            return False, f"gate arguments {params!r}, expected [{x!r}, {y!r}]"
        g1 = genprog(c)
        c2 = parse(g1, autoload_pulses=False)
        if c2 != c:
            return False, f"re-parsed circuit differs; generated text {g1!r}"
        g2 = genprog(c2)
        if g2 != g1:
            return False, f"second generation differs: {g1!r} vs {g2!r}"
        return True, ""
    except Exception as exc:                                   # noqa: BLE001
        return False, f"{type(exc).__name__}: {exc}"


# ----------------------------------------------------------------------------------------------
# protocol

def _add(lst, item):
    if len(lst) < MAX_LIST:
        lst.append(item)


def run(seed: int, n: int, driver: str = DEFAULT_DRIVER, thorough: bool = False) -> dict:
    rng = random.Random(seed)
    if thorough:
        n *= 5
    gen = _real()[0]
    corr = {op: {"cases": 0, "disagreements": []} for op in ("gen_num", "read_literal", "match_number", "match_int")}
    oracle = {o: {"cases": 0, "failures": []} for o in ("literal_roundtrip", "literal_in_program")}
    dist = {}

    def bump(k, d=1):
        dist[k] = dist.get(k, 0) + d

    # ---- gen_num -------------------------------------------------------------------------
    values = gen_values(rng, n, thorough)
    real_text = [gen(v) for v in values]
    replies = call_driver([{"op": "gen_num", "num": num_json(v)} for v in values], driver)
    for v, rt, rep in zip(values, real_text, replies):
        corr["gen_num"]["cases"] += 1
        if rep.get("out") != rt:
            _add(corr["gen_num"]["disagreements"],
                 {"case": {"op": "gen_num", "value": val_case(v)}, "model": rep, "impl": rt})
        if isinstance(v, float):
            bump("float"); bump("float_exponent_layout" if "e" in rt else "float_fixed_layout")
            if "e" in rt and ".0e" in rt: bump("float_one_digit_exponent_layout(the repaired case)")
            if v == 0: bump("float_zero")
            if v == int(v): bump("float_integral")
            bump(f"float_digits_{len(dec_of_float(v)['f'][1]):02d}")
        else:
            bump("int"); bump("int_huge(>64bit)" if abs(v) >= 2 ** 64 else "int_small")
        if rt.startswith("-"): bump("negative")

    # ---- read_literal, match_number, match_int --------------------------------------------
    texts = gen_texts(rng, real_text, n)
    replies = call_driver([{"op": "read_literal", "text": t} for t in texts], driver)
    for t, rep in zip(texts, replies):
        rv = real_literal(t)
        how, ok, impl, model = compare_read(t, rv, rep)
        corr["read_literal"]["cases"] += 1
        bump(f"read_compared_by_{how}")
        if rv[0] == "num": bump("read_is_float" if isinstance(rv[1], float) else "read_is_int")
        if not ok:
            _add(corr["read_literal"]["disagreements"],
                 {"case": {"op": "read_literal", "text": t}, "model": model, "impl": impl})
    for op, pat in _patterns().items():
        replies = call_driver([{"op": op, "text": t} for t in texts], driver)
        for t, rep in zip(texts, replies):
            m = pat.match(t)
            want = None if m is None else [t[: m.end()], t[m.end():]]
            corr[op]["cases"] += 1
            bump(f"{op}_{'hit' if m else 'miss'}")
            if m and m.end() < len(t): bump(f"{op}_proper_prefix")
            if rep.get("out", "missing") != want:
                _add(corr[op]["disagreements"], {"case": {"op": op, "text": t}, "model": rep, "impl": want})

    # ---- direct oracles ---------------------------------------------------------------------
    for v in values:
        ok, detail = oracle_literal_roundtrip(v)
        oracle["literal_roundtrip"]["cases"] += 1
        if not ok:
            _add(oracle["literal_roundtrip"]["failures"],
                 {"case": {"oracle": "literal_roundtrip", "value": val_case(v)}, "detail": detail})
    nprog = len(values) if thorough else min(len(values), max(200, n // 4))
    xs = values[:len(SPECIAL)] + rng.sample(values, max(0, nprog - len(SPECIAL)))
    for x in xs[:nprog]:
        y = rng.choice(values)
        ok, detail = oracle_literal_in_program(x, y)
        oracle["literal_in_program"]["cases"] += 1
        if not ok:
            _add(oracle["literal_in_program"]["failures"],
                 {"case": {"oracle": "literal_in_program", "x": val_case(x), "y": val_case(y)}, "detail": detail})

    distinct_values = {json.dumps(val_case(v)) for v in values if v not in (0, 1, -1)}
    distinct_texts = {t for t in texts if len(t) >= 2}
    samples = [{"op": "gen_num", "value": val_case(v), "impl": t} for v, t in list(zip(values, real_text))[40:46]]
    samples += [{"op": "read_literal", "text": t} for t in texts[len(real_text): len(real_text) + 4]]
    samples.append({"oracle": "literal_in_program", "program": program_text(values[2], values[40 % len(values)])})
    return {"corr": corr, "oracle": oracle, "distribution": dict(sorted(dist.items())), "samples": samples,
            "nontrivial": len(distinct_values) + len(distinct_texts)}


def replay(case: dict, driver: str = DEFAULT_DRIVER) -> dict:
    """Re-run ONE case taken from a `disagreements` / `failures` entry."""
    gen = _real()[0]
    if "oracle" in case:
        if case["oracle"] == "literal_roundtrip":
            v = case_val(case["value"])
            ok, detail = oracle_literal_roundtrip(v)
            model = call_driver([{"op": "gen_num", "num": num_json(v)}], driver)[0]
            try: impl = gen(v)
            except Exception as exc: impl = f"{type(exc).__name__}: {exc}"   # noqa: BLE001
            return {"model": model, "impl": impl, "oracle_ok": ok, "detail": detail}
        if case["oracle"] == "literal_in_program":
            x, y = case_val(case["x"]), case_val(case["y"])
            ok, detail = oracle_literal_in_program(x, y)
            try: impl = program_text(x, y)
            except Exception as exc: impl = f"{type(exc).__name__}: {exc}"   # noqa: BLE001
            return {"model": None, "impl": impl, "oracle_ok": ok, "detail": detail}
        raise ValueError(f"unknown oracle {case['oracle']}")
    op = case["op"]
    if op == "gen_num":
        v = case_val(case["value"])
        model = call_driver([{"op": "gen_num", "num": num_json(v)}], driver)[0]
        impl = gen(v)
        ok, detail = oracle_literal_roundtrip(v)
        return {"model": model, "impl": impl, "oracle_ok": ok,
                "detail": ("agree" if model.get("out") == impl else "DISAGREE") + ("" if ok else "; " + detail)}
    t = case["text"]
    model = call_driver([{"op": op, "text": t}], driver)[0]
    if op == "read_literal":
        how, ok, impl, mj = compare_read(t, real_literal(t), model)
        return {"model": mj, "impl": impl, "oracle_ok": None,
                "detail": f"{'agree' if ok else 'DISAGREE'} (compared by {how})"}
    if op in ("match_number", "match_int"):
        m = _patterns()[op].match(t)
        impl = None if m is None else [t[: m.end()], t[m.end():]]
        return {"model": model, "impl": impl, "oracle_ok": None,
                "detail": "agree" if model.get("out", "missing") == impl else "DISAGREE"}
    raise ValueError(f"unknown op {op}")


def main(argv=None):
    ap = argparse.ArgumentParser(description=__doc__.split("\n")[0])
    ap.add_argument("--driver", default=None, help=f"native driver (default {DEFAULT_DRIVER})")
    ap.add_argument("--lean-dir", default=None, help="use <lean-dir>/.lake/build/bin/jaqal-model")
    ap.add_argument("--n", type=int, default=3000)
    ap.add_argument("--seed", type=int, default=1)
    ap.add_argument("--thorough", action="store_true")
    ap.add_argument("--json", action="store_true", help="print the whole result as JSON")
    a = ap.parse_args(argv)
    driver = a.driver or (f"{a.lean_dir}/.lake/build/bin/jaqal-model" if a.lean_dir else DEFAULT_DRIVER)
    res = run(a.seed, a.n, driver, a.thorough)
    if a.json:
        print(json.dumps(res, indent=1))
    bad = 0
    for op, r in res["corr"].items():
        print(f"corr   {op:<18} cases {r['cases']:>7}  disagreements {len(r['disagreements'])}")
        for d in r["disagreements"]:
            print("   ", json.dumps(d)[:300])
        bad += len(r["disagreements"])
    for o, r in res["oracle"].items():
        print(f"oracle {o:<18} cases {r['cases']:>7}  failures {len(r['failures'])}")
        for d in r["failures"]:
            print("   ", json.dumps(d)[:300])
        bad += len(r["failures"])
    if not a.json:
        print("distribution:", json.dumps(res["distribution"]))
    print("nontrivial distinct cases:", res["nontrivial"])
    return 1 if bad else 0


if __name__ == "__main__":
    sys.exit(main())
