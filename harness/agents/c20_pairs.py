#!/venv/bin/python
"""C20 on systematically generated PAIRS of programs that differ in exactly one declaration / statement, in KIND.

Why (second-round seeded regressions missed by gen_diff): its mutants change single tokens but never turn one kind of
declaration into ANOTHER kind under the same name, never use boundary values in slices, and compare mostly whole circuits.

Real code: `parse_jaqal_string` (and `build(parse_to_sexpression(..))` for a second fundamental register),
           `generate_jaqal_program`, every `__eq__` of `jaqalpaq.core`.
Oracles only (no Lean driver): the script builds each program from a SPEC, prints the text itself, and computes from the
spec -- independently of the library -- the declarations (value of every let, kind + list of fundamental qubits of every
register / alias) and the gate-level meaning (macros expanded, lets and parameters substituted, qubits resolved, loops
unrolled, same-kind blocks spliced, one-statement blocks = the statement).

Families of pairs (A, B differ in ONE declaration / statement)
  alias_kind      same name `a`: whole-register alias <-> single-qubit alias <-> slice alias <-> let constant
                  <-> second fundamental register (builder entry); source = the register or an alias of it;
                  `a` unused / gate argument / inside loop, parallel block, subcircuit / macro argument (also through a
                  second macro, also indexed inside the macro) / referenced from a macro body / source of another alias
  slice_bounds    two slices differing in one bound; bounds from {omitted, -1, 0, 1, size-1, size}, steps from
                  {omitted, 1, 2, -1, -2, size}; literal or let-valued; defaults written out vs omitted; empty slices
  param_vs_global a name that is a let / alias globally and becomes a macro parameter of the same name
  gate_vs_macro   a call `foo ..` that is a macro call on one side and a native gate on the other
  statement_kind  gate <-> { } <-> < > <-> loop <-> subcircuit around the same gate (top level / in loop / in macro)
  source_size     the size of the fundamental register under aliases with omitted bounds
  node zoo        constructor-built objects of every class under the same name, every ordered pair

Oracles (C20 on the real code alone)
  eq_never_raises / eq_symmetric / eq_reflexive            circuits of a pair, both argument orders; independent re-parse
  equal_pair_has_same_declarations_and_meaning            `==` True (either order) => script declarations and meaning agree
  declaration_change_is_unequal                           script declarations differ => False in both orders
  meaning_change_is_unequal                               script gate-level meaning differs => False in both orders
  different_declarations_or_meaning_different_text        both generate => texts differ (follows from reparse + soundness)
  reparse_equal                                           c == parse(generate(c)) in both orders
  node_eq_never_raises / node_eq_symmetric                corresponding IR nodes of a pair (registers, lets, macros,
                                                          statements, gate arguments) and the zoo, both orders
  node_cross_class_is_false                               objects of different classes (int/float count as one) never equal
`Macro.__eq__` has no AttributeError guard in the pinned tree and is only ever applied to two macros by `Circuit.__eq__`;
Macro against a non-macro is therefore only COUNTED (distribution `zoo_macro_vs_other:*`), not judged.

Run: PYTHONPATH=/verif /venv/bin/python /verif/harness/agents/c20_pairs.py [--n N] [--seed S] [--thorough]
"""
import argparse
import itertools
import json
import random
import signal
import sys
from collections import Counter

DEFAULT_DRIVER = "/verif/lean/.lake/build/bin/jaqal-model"


def _imports():
    global JaqalError, parse_jaqal_string, parse_to_sexpression, build, generate_jaqal_program, GATES, T
    global Constant, Parameter, ParamType, Register, NamedQubit, GateStatement, BlockStatement, LoopStatement
    global GateDefinition, Circuit, Macro, UsePulsesStatement
    from jaqalpaq.error import JaqalError
    from jaqalpaq.parser import parse_jaqal_string
    from jaqalpaq.parser.parser import parse_to_sexpression
    from jaqalpaq.core.circuitbuilder import build
    from jaqalpaq.generator import generate_jaqal_program
    from jaqalpaq.core import Constant, Parameter, ParamType, Register, NamedQubit, GateStatement, BlockStatement, LoopStatement
    from jaqalpaq.core import GateDefinition, Circuit, Macro
    from jaqalpaq.core.usepulses import UsePulsesStatement
    from harness.gates import GATES
    from harness import timeouts as T


# ------------------------------------------------------------------------------------------------ guarded calls

class Hang(Exception):
    pass


def _alarm(signum, frame):
    raise Hang()


_installed = False


class alarm_handler:
    """installs the SIGALRM handler once around a whole run (re-installing it per call costs more than the calls)"""

    def __enter__(self):
        global _installed
        self.old = signal.signal(signal.SIGALRM, _alarm)
        self.was, _installed = _installed, True

    def __exit__(self, *exc):
        global _installed
        signal.alarm(0)
        signal.signal(signal.SIGALRM, self.old)
        _installed = self.was


def guarded(fn, *args):
    """-> ("ok", value) | ("jaqal", message) | ("raise", class name) | ("hang", None)"""
    if not _installed:
        with alarm_handler():
            return guarded(fn, *args)
    signal.alarm(int(T.limit()))
    try:
        try:
            return ("ok", fn(*args))
        finally:
            signal.alarm(0)
    except Hang:
        T.saw_hang()
        return ("hang", None)
    except JaqalError as e:
        return ("jaqal", str(e)[:200])
    except Exception as e:  # noqa
        return ("raise", type(e).__name__)


def py_eq(a, b):
    """True / False, or a dict describing the exception / hang"""
    st, v = guarded(lambda: a == b)
    if st == "ok":
        if v is True or v is False:
            return v
        return {"err": "returned " + type(v).__name__}
    return {"err": st if v is None else f"{st}:{v}"}


# ------------------------------------------------------------------------------------------------ spec -> text
# header item : ("let", name, text) | ("reg", name, size) | ("map", name, src) | ("mapq", name, src, idx)
#               | ("maps", name, src, start, stop, step)          bounds: None (omitted) | int | let name
# macro       : (name, [params], parallel, [stmts])
# stmt        : ("g", name, [args]) | ("loop", count, parallel, [stmts]) | ("blk", parallel, [stmts]) | ("sub", count|None, [stmts])
# arg         : ("n", text) | ("id", name) | ("ix", name, index)   index / count: int | name

def _b(x):
    return "" if x is None else str(x)


def r_header(d):
    k = d[0]
    if k == "let":
        return f"let {d[1]} {d[2]}"
    if k == "reg":
        return f"register {d[1]}[{d[2]}]"
    if k == "map":
        return f"map {d[1]} {d[2]}"
    if k == "mapq":
        return f"map {d[1]} {d[2]}[{d[3]}]"
    if k == "maps":
        s = f"map {d[1]} {d[2]}[{_b(d[3])}:{_b(d[4])}"
        if d[5] is not None:
            s += f":{d[5]}"
        return s + "]"
    raise KeyError(k)


def r_arg(a):
    if a[0] == "ix":
        return f"{a[1]}[{a[2]}]"
    return str(a[1])


def r_block(par, stmts, ind):
    o, c = ("<", ">") if par else ("{", "}")
    if not stmts:
        return o + " " + c
    pad = "\t" * (ind + 1)
    sep = " |\n" if par else "\n"
    return o + "\n" + sep.join(pad + r_stmt(s, ind + 1) for s in stmts) + "\n" + "\t" * ind + c


def r_stmt(s, ind=0):
    k = s[0]
    if k == "g":
        return " ".join([s[1]] + [r_arg(a) for a in s[2]])
    if k == "loop":
        return f"loop {s[1]} " + r_block(s[2], s[3], ind)
    if k == "blk":
        return r_block(s[1], s[2], ind)
    if k == "sub":
        return "subcircuit " + ("" if s[1] is None else f"{s[1]} ") + r_block(False, s[2], ind)
    raise KeyError(k)


def render(p):
    lines = [r_header(d) for d in p["header"]]
    for name, params, par, stmts in p.get("macros", []):
        lines.append(" ".join(["macro", name] + list(params)) + " " + r_block(par, stmts, 0))
    lines += [r_stmt(s) for s in p["body"]]
    return "\n".join(lines) + "\n"


# ------------------------------------------------------------------------------------------------ spec -> meaning

class Invalid(Exception):
    """the script cannot give this program a meaning (it makes no claim then)"""


def _number(text):
    try:
        return int(text)
    except ValueError:
        return float(text)


def _int_of(e, lets, penv):
    if isinstance(e, bool):
        raise Invalid("bool")
    if isinstance(e, int):
        return e
    if e in penv:
        v = penv[e]
        if v[0] != "n" or not isinstance(v[1], int):
            raise Invalid(f"{e} is not an integer")
        return v[1]
    if e in lets:
        if not isinstance(lets[e], int):
            raise Invalid(f"let {e} is not an integer")
        return lets[e]
    raise Invalid(f"unknown name {e}")


def _qubits(entry, name):
    if entry[0] == "F":
        return [(name, i) for i in range(entry[1])]
    if entry[0] == "R":
        return list(entry[1])
    raise Invalid(f"{name} is not a register")


def ev_header(header):
    """-> (lets: name -> number, regs: name -> ("F", n) | ("R", (qubits..)) | ("Q", qubit))"""
    lets, regs = {}, {}
    for d in header:
        k, name = d[0], d[1]
        if name in lets or name in regs:
            raise Invalid(f"{name} declared twice")
        if k == "let":
            lets[name] = _number(d[2])
            continue
        if k == "reg":
            n = _int_of(d[2], lets, {})
            if n < 1:
                raise Invalid("register size")
            regs[name] = ("F", n)
            continue
        if d[2] not in regs:
            raise Invalid(f"unknown source {d[2]}")
        src = _qubits(regs[d[2]], d[2])
        if k == "map":
            regs[name] = ("R", tuple(src))
        elif k == "mapq":
            i = _int_of(d[3], lets, {})
            if not 0 <= i < len(src):
                raise Invalid("index out of range")
            regs[name] = ("Q", src[i])
        elif k == "maps":
            start = 0 if d[3] is None else _int_of(d[3], lets, {})
            stop = len(src) if d[4] is None else _int_of(d[4], lets, {})
            step = 1 if d[5] is None else _int_of(d[5], lets, {})
            if step == 0:
                raise Invalid("zero step")
            idx = list(range(start, stop, step))
            if any(not 0 <= i < len(src) for i in idx):
                raise Invalid("slice out of range")
            regs[name] = ("R", tuple(src[i] for i in idx))
        else:
            raise KeyError(k)
    return lets, regs


def ev_arg(a, lets, regs, penv):
    k = a[0]
    if k == "n":
        return ("n", _number(a[1]))
    name = a[1]
    if k == "id":
        if name in penv:
            return penv[name]
        if name in lets:
            return ("n", lets[name])
        if name in regs:
            e = regs[name]
            return ("q", e[1]) if e[0] == "Q" else ("r", tuple(_qubits(e, name)))
        raise Invalid(f"unknown name {name}")
    # indexed
    if name in penv:
        base = penv[name]
        if base[0] != "r":
            raise Invalid(f"{name} is not a register")
        qs = list(base[1])
    elif name in regs:
        qs = _qubits(regs[name], name)
    else:
        raise Invalid(f"unknown register {name}")
    i = _int_of(a[2], lets, penv)
    if not 0 <= i < len(qs):
        raise Invalid("index out of range")
    return ("q", qs[i])


MAX_UNROLL = 12


def ev_stmt(s, env, penv, depth=0):
    lets, regs, macros = env
    if depth > 8:
        raise Invalid("too deep")
    k = s[0]
    if k == "g":
        args = tuple(ev_arg(a, lets, regs, penv) for a in s[2])
        if s[1] in macros:
            _, params, par, stmts = macros[s[1]]
            if len(params) != len(args):
                raise Invalid("arity")
            inner = dict(zip(params, args))
            return ("par" if par else "seq", [ev_stmt(x, env, inner, depth + 1) for x in stmts])
        return ("g", s[1], args)
    if k == "loop":
        n = _int_of(s[1], lets, penv)
        if not 0 <= n <= MAX_UNROLL:
            raise Invalid("count")
        body = ("par" if s[2] else "seq", [ev_stmt(x, env, penv, depth + 1) for x in s[3]])
        return ("seq", [body] * n)
    if k == "blk":
        return ("par" if s[1] else "seq", [ev_stmt(x, env, penv, depth + 1) for x in s[2]])
    if k == "sub":
        n = 1 if s[1] is None else _int_of(s[1], lets, penv)
        if n < 0:
            raise Invalid("count")
        return ("sub", n, [ev_stmt(x, env, penv, depth + 1) for x in s[2]])
    raise KeyError(k)


def norm(node):
    """canonical gate-level form: nested same-kind blocks spliced, empty blocks dropped, one-item blocks = the item"""
    if node[0] == "g":
        return node
    if node[0] == "sub":
        inner = norm(("seq", node[2]))
        items = inner[1] if inner[0] == "seq" else (inner,)
        return ("sub", node[1], tuple(items))
    kind = node[0]
    out = []
    for ch in node[1]:
        c = norm(ch)
        if c[0] in ("seq", "par") and (c[0] == kind or len(c[1]) == 0):
            out.extend(c[1])
        else:
            out.append(c)
    if len(out) == 1:
        return out[0]
    if not out:
        return ("seq", ())
    return (kind, tuple(out))


def analyse(p):
    """-> {"decls": (lets, regs) | None, "meaning": tree | None}"""
    try:
        lets, regs = ev_header(p["header"])
    except Invalid:
        return {"decls": None, "meaning": None}
    macros = {}
    names = set(lets) | set(regs)
    try:
        for m in p.get("macros", []):
            if m[0] in macros:
                raise Invalid("macro twice")
            macros[m[0]] = m
        body = [ev_stmt(s, (lets, regs, macros), {}) for s in p["body"]]
        meaning = norm(("seq", body))
    except Invalid:
        meaning = None
    return {"decls": (lets, regs), "meaning": meaning, "names": names}


def show_decls(d):
    if d is None:
        return None
    lets, regs = d
    return {"lets": {k: v for k, v in lets.items()},
            "registers": {k: ([v[0], v[1]] if v[0] == "F" else [v[0], [list(q) for q in v[1]]] if v[0] == "R" else [v[0], list(v[1])])
                          for k, v in regs.items()}}


# ------------------------------------------------------------------------------------------------ families of pairs

G1, G2 = "G", "H"          # gate names without an injected gate set (anything goes, any argument kinds)


def prog(header, body, macros=()):
    return {"header": list(header), "macros": list(macros), "body": list(body)}


def alias_variants(rng, name, src, m, letnames):
    """declarations of `name` over source `src` (m qubits), by kind"""
    k = rng.randrange(m)
    v = {"W": [("map", name, src)],
         "Q": [("mapq", name, src, x) for x in sorted({0, m - 1, k})],
         "S": [("maps", name, src, 0, m, 1), ("maps", name, src, None, None, None), ("maps", name, src, k, k + 1, None),
               ("maps", name, src, 0, m, None), ("maps", name, src, m - 1, -1, -1), ("maps", name, src, k, k, None),
               ("maps", name, src, None, m, 1), ("maps", name, src, 0, None, 1)],
         "L": [("let", name, str(x)) for x in sorted({0, k, m})] + [("let", name, f"{k}.0")],
         "F": [("reg", name, m), ("reg", name, 1)]}
    for ln, val in letnames.items():
        if 0 <= val < m:
            v["Q"].append(("mapq", name, src, ln))
    # first entries: the same qubit k / the same number k / all m qubits, whatever the kind
    v["Q"].insert(0, ("mapq", name, src, k))
    v["L"].insert(0, ("let", name, str(k)))
    v["S1"] = ("maps", name, src, k, k + 1, None)
    return v


def _matched(V, kx, ky):
    """the declaration of kind `ky` that is closest in meaning to the first declaration of kind `kx`"""
    if ky == "S":
        return V["S1"] if kx in ("Q", "L") else V["S"][0]
    return V[ky][0]


# contexts: name -> (needs, builder(a) -> (extra header after the declaration, macros, body))
# needs: "any" | "reg" (indexable, non-empty on both sides)
def contexts(gs):
    g = "X" if gs else G1
    h = "Y" if gs else G2
    other = ("g", h, [("ix", "r", 0)])
    C = {}
    C["unused"] = ("any", lambda a: ([], [], [other]))
    C["indexed"] = ("reg", lambda a: ([], [], [("g", g, [("ix", a, 0)])]))
    C["indexed_in_loop"] = ("reg", lambda a: ([], [], [("loop", 2, False, [("g", g, [("ix", a, 0)]), other])]))
    C["macro_arg_indexed_outside"] = ("reg", lambda a: ([], [("m", ["x"], False, [("g", g, [("id", "x")])])], [("g", "m", [("ix", a, 0)])]))
    C["chain_qubit"] = ("reg", lambda a: ([("mapq", "c", a, 0)], [], [("g", g, [("id", "c")])]))
    C["chain_whole"] = ("reg", lambda a: ([("map", "c", a)], [], [("g", g, [("ix", "c", 0)])]))
    C["chain_slice"] = ("reg", lambda a: ([("maps", "c", a, 0, 1, None)], [], [("g", g, [("ix", "c", 0)])]))
    if not gs:   # without a gate set any kind of value is accepted as a gate / macro argument
        C["gate_arg"] = ("any", lambda a: ([], [], [("g", g, [("id", a)])]))
        C["gate_arg_second"] = ("any", lambda a: ([], [], [("g", g, [("ix", "r", 0), ("id", a)])]))
        C["loop_gate_arg"] = ("any", lambda a: ([], [], [("loop", 2, False, [("g", g, [("id", a)])])]))
        C["par_gate_arg"] = ("any", lambda a: ([], [], [("blk", True, [("g", g, [("id", a)]), other])]))
        C["sub_gate_arg"] = ("any", lambda a: ([], [], [("sub", None, [("g", g, [("id", a)])])]))
        C["macro_arg"] = ("any", lambda a: ([], [("m", ["x"], False, [("g", g, [("id", "x")])])], [("g", "m", [("id", a)])]))
        C["loop_macro_arg"] = ("any", lambda a: ([], [("m", ["x"], False, [("g", g, [("id", "x")])])],
                                                 [("loop", 2, False, [("g", "m", [("id", a)])])]))
        C["macro_body_global"] = ("any", lambda a: ([], [("m", ["x"], False, [("g", g, [("id", a), ("id", "x")])])],
                                                    [("g", "m", [("ix", "r", 0)])]))
        C["nested_macro_arg"] = ("any", lambda a: ([], [("m", ["x"], False, [("g", g, [("id", "x")])]),
                                                        ("k", ["y"], True, [("g", "m", [("id", "y")])])], [("g", "k", [("id", a)])]))
        C["macro_arg_indexed_inside"] = ("any", lambda a: ([], [("m", ["x"], False, [("g", g, [("ix", "x", 0)])])], [("g", "m", [("id", a)])]))
    return C


def _kind_of(decl):
    return {"map": "W", "mapq": "Q", "maps": "S", "let": "L", "reg": "F"}[decl[0]]


def _entry(p, name):
    try:
        return ev_header(p["header"])[1].get(name)
    except Invalid:
        return None


def _nonempty_reg(entry):
    return entry is not None and entry[0] in ("F", "R") and (entry[1] if entry[0] == "F" else len(entry[1])) > 0


def base_header(rng, with_b):
    """lets + the fundamental register (+ an alias `b` of it to be used as a source) -> header, source name, #qubits, int lets"""
    n = rng.randrange(2, 6)
    lets = {}
    header = []
    if rng.random() < 0.5:
        lets = {"z0": 0, "z1": 1, "zn": n}
        header += [("let", k, str(v)) for k, v in lets.items()]
    header.append(("reg", "r", n))
    if not with_b:
        return header, "r", n, lets
    form = rng.randrange(4)
    if form == 0:
        header.append(("map", "b", "r")); m = n
    elif form == 1:
        header.append(("maps", "b", "r", 1, n, None)); m = n - 1
    elif form == 2:
        header.append(("maps", "b", "r", n - 1, -1, -1)); m = n
    else:
        header.append(("maps", "b", "r", 0, n, 2)); m = len(range(0, n, 2))
    return header, "b", m, lets


def fam_alias_kind(rng, quota, thorough):
    """every pair of declaration kinds under the same name, in every context"""
    out = []
    kinds = "WQSLF"
    kind_pairs = [(x, y) for i, x in enumerate(kinds) for y in kinds[i:]]
    rounds = 0
    while len(out) < quota and rounds < 10000:
        rounds += 1
        gs = rng.random() < 0.25
        ctxs = contexts(gs)
        header, src, m, lets = base_header(rng, rng.random() < 0.4)
        V = alias_variants(rng, "a", src, m, lets)
        for kx, ky in kind_pairs:
            for cname, (needs, mk) in ctxs.items():
                if len(out) >= quota:
                    return out
                if rng.random() > (1.0 if thorough else 0.35):
                    continue
                da = rng.choice(V[kx])
                db = rng.choice([d for d in V[ky] if d != da] or [None])
                if rng.random() < 0.4:   # the two kinds describing the SAME qubit(s) / number
                    da, db = V[kx][0], _matched(V, kx, ky)
                if db is None or da == db:
                    continue
                if needs == "reg" and ("L" in (kx, ky) or "Q" in (kx, ky)):
                    continue
                builder = "F" in (kx, ky)
                extra, macros, body = mk("a")
                A = prog(header + [da] + extra, body, macros)
                B = prog(header + [db] + extra, body, macros)
                if needs == "reg" and not all(_nonempty_reg(_entry(P, "a")) for P in (A, B)):
                    continue
                out.append(("alias_kind", f"{kx}<->{ky}:{cname}:{'alias_src' if src == 'b' else 'reg_src'}", A, B, gs, builder))
    return out


def slice_candidates(m):
    starts = [None, 0, 1, m - 1, m]
    stops = [None, -1, 0, 1, m - 1, m]
    steps = [None, 1, 2, -1, -2, m]
    return starts, stops, steps


def _valid_slice(m, s):
    start = 0 if s[0] is None else s[0]
    stop = m if s[1] is None else s[1]
    step = 1 if s[2] is None else s[2]
    if step == 0 or start < 0 or stop > m:
        return False
    idx = range(start, stop, step)
    return all(0 <= i < m for i in idx)


def fam_slice_bounds(rng, quota, thorough):
    out = []
    rounds = 0
    while len(out) < quota and rounds < 10000:
        rounds += 1
        gs = rng.random() < 0.25
        ctxs = contexts(gs)
        header, src, m, lets = base_header(rng, rng.random() < 0.35)
        if m < 1:
            continue
        letval = {}
        if rng.random() < 0.5 and not lets:
            letval = {"k0": 0, "k1": 1, "km": m, "kneg": -1, "kl": m - 1}
            header = [("let", k, str(v)) for k, v in letval.items()] + header
        spell = {}
        for k, v in list(lets.items()) + list(letval.items()):
            spell.setdefault(v, []).append(k)
        cands = slice_candidates(m)
        allv = [s for s in itertools.product(*cands) if _valid_slice(m, s)]
        rng.shuffle(allv)
        for s1 in allv[: (len(allv) if thorough else 6)]:
            for pos in range(3):
                alts = [x for x in cands[pos] if x != s1[pos]]
                rng.shuffle(alts)
                for alt in alts[: (len(alts) if thorough else 2)]:
                    s2 = s1[:pos] + (alt,) + s1[pos + 1:]
                    if not _valid_slice(m, s2):
                        continue
                    if len(out) >= quota:
                        return out

                    def sp(v):   # literal, or a let of that value
                        if v is not None and v in spell and rng.random() < 0.3:
                            return rng.choice(spell[v])
                        return v
                    t1 = tuple(sp(v) for v in s1)
                    t2 = list(t1)
                    t2[pos] = sp(alt)
                    l1 = len(range(0 if s1[0] is None else s1[0], m if s1[1] is None else s1[1], 1 if s1[2] is None else s1[2]))
                    l2 = len(range(0 if s2[0] is None else s2[0], m if s2[1] is None else s2[1], 1 if s2[2] is None else s2[2]))
                    ok = [c for c, (needs, _) in ctxs.items() if needs == "any" or (l1 > 0 and l2 > 0)]
                    cname = rng.choice(ok)
                    extra, macros, body = ctxs[cname][1]("a")
                    A = prog(header + [("maps", "a", src) + t1] + extra, body, macros)
                    B = prog(header + [("maps", "a", src) + tuple(t2)] + extra, body, macros)
                    what = ("start", "stop", "step")[pos]
                    tag = f"{what}:{'omitted' if s1[pos] is None or alt is None else 'values'}:{'neg_step' if (s1[2] or 1) < 0 or (s2[2] or 1) < 0 else 'pos_step'}"
                    tag += ":empty" if l1 == 0 or l2 == 0 else ""
                    out.append(("slice_bounds", tag + ":" + cname, A, B, gs, False))
    return out


def fam_same_slice_spellings(rng, quota, thorough):
    """the SAME slice spelled differently (defaults written out vs omitted, literal vs let): no claim that they are
    equal, but if they are unequal nothing else may go wrong (symmetry, reparse ...); also a plain +1 on each bound"""
    out = []
    while len(out) < quota:
        header, src, m, lets = base_header(rng, rng.random() < 0.3)
        header = [("let", "k0", "0"), ("let", "km", str(m)), ("let", "k1", "1")] + [h for h in header]
        start, stop, step = rng.choice([(0, m, 1), (0, m, 2), (0, 1, 1), (0, m, m)])
        sp_start = rng.choice([None, 0, "k0"]) if start == 0 else start
        sp_stop = rng.choice([None, m, "km"]) if stop == m else stop
        sp_step = rng.choice([None, 1, "k1"]) if step == 1 else step
        d1 = ("maps", "a", src, start, stop, step)
        d2 = ("maps", "a", src, sp_start, sp_stop, sp_step)
        if d1 == d2:
            continue
        ctxs = contexts(False)
        cname = rng.choice(list(ctxs))
        extra, macros, body = ctxs[cname][1]("a")
        out.append(("same_slice_spelling", cname, prog(header + [d1] + extra, body, macros), prog(header + [d2] + extra, body, macros), False, False))
    return out


def fam_param_vs_global(rng, quota, thorough):
    """`a` is a let / alias globally; the macro's parameter is called `x` on one side and `a` on the other"""
    out = []
    while len(out) < quota:
        gs = rng.random() < 0.3
        n = rng.randrange(2, 6)
        glob = rng.choice(["let_int", "let_float", "qubit", "whole", "slice"]) if not gs else rng.choice(["let_int", "qubit"])
        v = rng.randrange(0, n)
        decl = {"let_int": ("let", "a", str(v)), "let_float": ("let", "a", f"{v}.5"), "qubit": ("mapq", "a", "r", v),
                "whole": ("map", "a", "r"), "slice": ("maps", "a", "r", 0, n, 1)}[glob]
        header = [("reg", "r", n)] + [decl]
        argn = rng.choice([x for x in range(0, n) if x != v] or [v])
        if glob in ("let_int", "let_float"):
            if gs:
                uses = [("gate_arg", [("g", "P", [("ix", "r", 0), ("id", "a")])], ("n", str(argn)))]
                if glob == "let_int":
                    uses += [("index", [("g", "X", [("ix", "r", "a")])], ("n", str(argn))),
                             ("loop_count", [("loop", "a", False, [("g", "X", [("ix", "r", 0)])])], ("n", str(argn)))]
            else:
                uses = [("gate_arg", [("g", G1, [("id", "a")])], rng.choice([("n", str(argn)), ("ix", "r", 0), ("id", "r")]))]
                if glob == "let_int":
                    uses += [("index", [("g", G1, [("ix", "r", "a")])], ("n", str(argn))),
                             ("loop_count", [("loop", "a", False, [("g", G1, [("ix", "r", 0)])])], ("n", str(argn))),
                             ("sub_count", [("sub", "a", [("g", G1, [("ix", "r", 0)])])], ("n", str(argn)))]
        elif glob == "qubit":
            uses = [("gate_arg", [("g", "X" if gs else G1, [("id", "a")])], ("ix", "r", argn))]
        else:
            uses = [("gate_arg", [("g", G1, [("id", "a")])], rng.choice([("ix", "r", argn), ("id", "r"), ("n", "1")])),
                    ("indexed", [("g", G1, [("ix", "a", 0)])], ("id", "r"))]
        use, mbody, arg = rng.choice(uses)
        par = rng.random() < 0.2 and use not in ("loop_count", "sub_count")
        wrap = rng.choice(["top", "loop", "macro"])
        call = ("g", "m", [arg])
        macros_a = [("m", ["x"], par, mbody)]
        macros_b = [("m", ["a"], par, mbody)]
        if wrap == "macro" and arg[0] == "n":
            macros_a.append(("k", ["y"], False, [("g", "m", [("id", "y")])]))
            macros_b.append(("k", ["y"], False, [("g", "m", [("id", "y")])]))
            call = ("g", "k", [arg])
        body = [("loop", 2, False, [call])] if wrap == "loop" else [call]
        out.append(("param_vs_global", f"{glob}:{use}:{wrap}", prog(header, body, macros_a), prog(header, body, macros_b), gs, False))
    return out


def fam_gate_vs_macro(rng, quota, thorough):
    out = []
    while len(out) < quota:
        gs = rng.random() < 0.3
        n = rng.randrange(1, 5)
        g = "X" if gs else G1
        header = [("reg", "r", n)]
        call = ("g", "foo", [("ix", "r", rng.randrange(n))])
        body = rng.choice([[call], [("loop", 2, False, [call])], [("blk", True, [call])], [("sub", None, [call])]])
        mac = ("foo", ["x"], False, [("g", g, [("id", "x")])])
        form = rng.randrange(4 if not gs else 2)
        if form == 0:     # the macro's body differs in kind: gate / block around the gate
            mac2 = ("foo", ["x"], False, [("blk", True, [("g", g, [("id", "x")]), ("g", g, [("ix", "r", 0)])])])
            A, B, tag = prog(header, body, [mac]), prog(header, body, [mac2]), "macro_body"
        elif form == 1:   # parallel vs sequential macro body
            two = [("g", g, [("id", "x")]), ("g", "Y" if gs else G2, [("id", "x")])]
            A, B, tag = prog(header, body, [("foo", ["x"], False, two)]), prog(header, body, [("foo", ["x"], True, two)]), "macro_block_kind"
        elif form == 2:   # macro call vs native gate of the same name (the macro is renamed)
            A, B, tag = prog(header, body, [mac]), prog(header, body, [("bar",) + mac[1:]]), "macro_renamed"
        else:             # ... (the macro is gone)
            A, B, tag = prog(header, body, [mac]), prog(header, body, []), "macro_removed"
        out.append(("gate_vs_macro", tag, A, B, gs, False))
    return out


def fam_statement_kind(rng, quota, thorough):
    out = []
    while len(out) < quota:
        gs = rng.random() < 0.4
        g = "X" if gs else G1
        n = rng.randrange(1, 5)
        header = [("let", "c", str(rng.choice([1, 2])))] + [("reg", "r", n)]
        core = ("g", g, [("ix", "r", rng.randrange(n))])
        cnt = lambda: rng.choice([0, 1, 1, 2, 3, "c"])  # noqa
        forms = {"gate": core, "seq": ("blk", False, [core]), "par": ("blk", True, [core]),
                 "loop": ("loop", cnt(), False, [core]), "loop_par": ("loop", cnt(), True, [core]),
                 "sub": ("sub", None, [core]), "sub_n": ("sub", cnt(), [core]),
                 "seq2": ("blk", False, [core, core]), "par_seq": ("blk", True, [("blk", False, [core])]),
                 "empty_seq": ("blk", False, []), "loop_empty": ("loop", cnt(), False, [])}
        names = sorted(forms)
        ka, kb = sorted(rng.sample(names, 2))
        if rng.random() < 0.15:
            kb = ka   # same kind, counts may differ
        fa, fb = forms[ka], forms[kb]
        if ka == kb:
            if ka not in ("loop", "loop_par", "sub_n", "loop_empty"):
                continue
            fb = (fa[0], rng.choice([x for x in (0, 1, 2, 3) if x != fa[1]])) + fa[2:]

        def fits(f):   # a bare { } is legal at top level and inside < > only; < > takes gates and { } only
            seq = f[0] == "blk" and not f[1]
            return {"top"} | ({"in_par"} if seq or f[0] == "g" else set()) | (set() if seq else {"in_loop", "in_macro"})
        where = rng.choice(sorted(fits(fa) & fits(fb)))

        def place(f):
            tail = ("g", "Y" if gs else G2, [("ix", "r", 0)])
            if where == "top":
                return prog(header, [f, tail])
            if where == "in_loop":
                return prog(header, [("loop", 2, False, [f, tail])])
            if where == "in_par":
                return prog(header, [("blk", True, [f, tail])])
            return prog(header, [("g", "m", [])], [("m", [], False, [f, tail])])
        out.append(("statement_kind", f"{ka}<->{kb}:{where}", place(fa), place(fb), gs, False))
    return out


def fam_source_size(rng, quota, thorough):
    out = []
    while len(out) < quota:
        n = rng.randrange(1, 6)
        n2 = n + rng.choice([1, 1, 2])
        decl = rng.choice([("map", "a", "r"), ("maps", "a", "r", None, None, None), ("maps", "a", "r", 0, None, 1), ("maps", "a", "r", None, n, None),
                           ("maps", "a", "r", n - 1, None, None), ("maps", "a", "r", None, None, 2), ("mapq", "a", "r", n - 1),
                           ("maps", "a", "r", n - 1, -1, -1), ("maps", "a", "r", None, None, -1)])
        sized_by_let = rng.random() < 0.4
        ctxs = contexts(False)
        cname = rng.choice([c for c, (needs, _) in ctxs.items() if needs == "any"])
        extra, macros, body = ctxs[cname][1]("a")
        if sized_by_let:
            A = prog([("let", "s", str(n)), ("reg", "r", "s"), decl] + extra, body, macros)
            B = prog([("let", "s", str(n2)), ("reg", "r", "s"), decl] + extra, body, macros)
        else:
            A = prog([("reg", "r", n), decl] + extra, body, macros)
            B = prog([("reg", "r", n2), decl] + extra, body, macros)
        out.append(("source_size", f"{decl[0]}:{'let_sized' if sized_by_let else 'literal'}:{cname}", A, B, False, False))
    return out


FAMILIES = [(fam_alias_kind, 0.34), (fam_slice_bounds, 0.30), (fam_same_slice_spellings, 0.04), (fam_param_vs_global, 0.10),
            (fam_gate_vs_macro, 0.06), (fam_statement_kind, 0.10), (fam_source_size, 0.06)]


# ------------------------------------------------------------------------------------------------ real side

def parse_text(text, gs, builder):
    if builder:   # what parse_jaqal_string does, minus its "one fundamental register" check
        return build(parse_to_sexpression(text), inject_pulses=GATES if gs else None, autoload_pulses=False)
    return parse_jaqal_string(text, inject_pulses=GATES if gs else None, autoload_pulses=False)


ORACLES = ["eq_never_raises", "eq_symmetric", "eq_reflexive", "equal_pair_has_same_declarations_and_meaning",
           "declaration_change_is_unequal", "meaning_change_is_unequal", "different_declarations_or_meaning_different_text",
           "reparse_equal", "node_eq_never_raises", "node_eq_symmetric", "node_cross_class_is_false"]


class Acc:
    def __init__(self):
        self.oracle = {k: {"cases": 0, "failures": []} for k in ORACLES}
        self.dist = Counter()
        self.samples = []
        self.nontrivial = set()
        self.cache = {}

    def check(self, name, ok, case, detail):
        o = self.oracle[name]
        o["cases"] += 1
        if not ok:
            if len(o["failures"]) < 20:
                o["failures"].append({"case": case, "detail": detail})
            else:
                o["more_failures"] = o.get("more_failures", 0) + 1

    def parsed(self, text, gs, builder):
        """-> (status, circuit, second independent circuit, generated text | None)"""
        key = (text, gs, builder)
        if key not in self.cache:
            st, c = guarded(parse_text, text, gs, builder)
            c2 = gen = None
            if st == "ok":
                st2, c2 = guarded(parse_text, text, gs, builder)
                if st2 != "ok":
                    c2 = None
                stg, g = guarded(generate_jaqal_program, c)
                gen = g if stg == "ok" else None
                if stg != "ok":
                    self.dist[f"generate_fails:{stg}"] += 1
            else:
                self.dist[f"program_rejected:{st}"] += 1
                c = None
            self.cache[key] = (st, c, c2, gen)
            if st == "ok":
                self.program_oracles(text, gs, builder, c, c2, gen)
        return self.cache[key]

    def program_oracles(self, text, gs, builder, c, c2, gen):
        case = {"kind": "program", "text": text, "gateset": gs, "builder": builder}
        self.dist["distinct_programs"] += 1
        r = [py_eq(c, c)] + ([py_eq(c, c2), py_eq(c2, c)] if c2 is not None else [])
        self.check("eq_reflexive", all(x is True for x in r), case, f"c==c, c==reparse-of-same-text, reverse: {r}")
        if gen is not None:
            st, cg = guarded(parse_text, gen, gs, builder)
            if st != "ok":
                self.check("reparse_equal", False, case, f"generated text not accepted ({st}: {cg}): {gen!r}")
            else:
                e = [py_eq(c, cg), py_eq(cg, c)]
                self.check("reparse_equal", e == [True, True], case, f"c==parse(generate(c)): {e[0]}, reverse: {e[1]}; text {gen!r}")


def class_group(x):
    if isinstance(x, bool):
        return "bool"
    if isinstance(x, (int, float)):
        return "number"
    return type(x).__name__


def node_compare(acc, a, b, case):
    """symmetry / no exception / cross-class False on two IR nodes. Macro against a non-macro: only counted."""
    ma, mb = isinstance(a, Macro), isinstance(b, Macro)
    if ma != mb:
        ab, ba = py_eq(a, b), py_eq(b, a)
        acc.dist["zoo_macro_vs_other:" + ("raises" if isinstance(ab, dict) or isinstance(ba, dict) else f"{ab}/{ba}")] += 1
        return
    ab, ba = py_eq(a, b), py_eq(b, a)
    acc.check("node_eq_never_raises", isinstance(ab, bool) and isinstance(ba, bool), case, f"a==b: {ab}, b==a: {ba}")
    acc.check("node_eq_symmetric", ab == ba, case, f"a==b is {ab} but b==a is {ba}")
    ga, gb = class_group(a), class_group(b)
    if ga != gb and not (isinstance(a, GateDefinition) and isinstance(b, GateDefinition)):
        acc.check("node_cross_class_is_false", ab is False and ba is False, case,
                  f"{ga} against {gb}: a==b is {ab}, b==a is {ba}")
        acc.dist[f"node_cross_class:{min(ga, gb)}~{max(ga, gb)}"] += 1
    else:
        acc.dist["node_same_class:" + ga] += 1


def nodes_of(c):
    """path -> node, for the corresponding-node comparison of a pair"""
    out = {}
    for k, v in c.registers.items():
        out["registers:" + k] = v
    for k, v in c.constants.items():
        out["constants:" + k] = v
    for k, v in c.macros.items():
        out["macros:" + k] = v
        out["macros:" + k + ":body"] = v.body
        for i, s in enumerate(v.body.statements):
            _stmt_nodes(out, f"macros:{k}:{i}", s, 0)
    out["body"] = c.body
    for i, s in enumerate(c.body.statements):
        _stmt_nodes(out, f"body:{i}", s, 0)
    return out


def _stmt_nodes(out, path, s, depth):
    out[path] = s
    if depth > 4:
        return
    if isinstance(s, GateStatement):
        for j, v in enumerate(s.parameters.values()):
            out[f"{path}:arg{j}"] = v
    elif isinstance(s, LoopStatement):
        out[path + ":count"] = s.iterations
        _stmt_nodes(out, path + ":block", s.statements, depth + 1)
    elif isinstance(s, BlockStatement):
        for i, x in enumerate(s.statements):
            _stmt_nodes(out, f"{path}:{i}", x, depth + 1)


def same_decls(da, db):
    return da[0] == db[0] and da[1] == db[1]


def pair_oracles(acc, case, expect, with_nodes=True):
    """all circuit-level oracles on one pair; `expect` = script's verdicts {"decl_differs": bool|None, "meaning_differs": bool|None}"""
    gs, builder = case["gateset"], case["builder"]
    sa, ca, _, ga = acc.parsed(case["a"], gs, builder)
    sb, cb, _, gb = acc.parsed(case["b"], gs, builder)
    if sa != "ok" or sb != "ok":
        acc.dist["pair_skipped_a_side_rejected"] += 1
        return None
    ab, ba = py_eq(ca, cb), py_eq(cb, ca)
    acc.check("eq_never_raises", isinstance(ab, bool) and isinstance(ba, bool), case, f"a==b: {ab}, b==a: {ba}")
    acc.check("eq_symmetric", ab == ba, case, f"a==b is {ab} but b==a is {ba}")
    equal = ab is True or ba is True
    dd, md = expect["decl_differs"], expect["meaning_differs"]
    if equal:
        acc.check("equal_pair_has_same_declarations_and_meaning", not dd and not md, case,
                  f"the circuits compare equal (a==b {ab}, b==a {ba}) but declarations differ: {dd}, gate-level meaning differs: {md}")
    if dd:
        acc.check("declaration_change_is_unequal", ab is False and ba is False, case,
                  f"declarations differ ({case.get('decls_a')} vs {case.get('decls_b')}) but a==b is {ab}, b==a is {ba}")
    if md:
        acc.check("meaning_change_is_unequal", ab is False and ba is False, case, f"gate-level meanings differ but a==b is {ab}, b==a is {ba}")
    if (dd or md) and ga is not None and gb is not None:
        acc.check("different_declarations_or_meaning_different_text", ga != gb, case, f"both circuits generate {ga!r}")
    if with_nodes:
        na, nb = nodes_of(ca), nodes_of(cb)
        for path in na:
            if path in nb:
                node_compare(acc, na[path], nb[path], dict(case, kind="pair_node", path=path))
    return ab, ba


def process_pair(acc, fam, tag, A, B, gs, builder):
    ta, tb = render(A), render(B)
    if ta == tb:
        acc.dist["identical_texts_skipped"] += 1
        return
    ia, ib = analyse(A), analyse(B)
    da, db = ia["decls"], ib["decls"]
    dd = None if da is None or db is None else (not same_decls(da, db))
    md = None if ia["meaning"] is None or ib["meaning"] is None else (ia["meaning"] != ib["meaning"])
    case = {"kind": "pair", "family": fam, "shape": tag, "gateset": gs, "builder": builder, "a": ta, "b": tb,
            "decls_a": show_decls(da), "decls_b": show_decls(db), "decl_differs": dd, "meaning_differs": md}
    res = pair_oracles(acc, case, {"decl_differs": dd, "meaning_differs": md})
    acc.dist["pairs_generated"] += 1
    if res is None:
        return
    ab, ba = res
    acc.nontrivial.add(ta + "\x00" + tb)
    acc.dist["pairs"] += 1
    acc.dist["family:" + fam] += 1
    acc.dist[f"shape:{fam}:{tag.split(':')[0]}"] += 1
    for part in tag.split(":")[1:]:
        acc.dist[f"context:{part}"] += 1
    acc.dist["pairs_gateset" if gs else "pairs_no_gateset"] += 1
    if builder:
        acc.dist["pairs_two_fundamental_registers(builder)"] += 1
    acc.dist[f"script_verdict:decl_{'unknown' if dd is None else 'differs' if dd else 'same'}:meaning_{'unknown' if md is None else 'differs' if md else 'same'}"] += 1
    acc.dist["pair_compares_" + ("equal" if ab is True and ba is True else "unequal" if ab is False and ba is False else "ODD")] += 1
    # self-check of the script's reading of the declarations against the library's (not an oracle of C20)
    for side, d in (("a", da), ("b", db)):
        c = acc.cache[(case[side], gs, builder)][1]
        if d is not None:
            acc.dist["script_decls_" + ("agree_with_library" if lib_decls(c) == canon_decls(d) else "DISAGREE_with_library")] += 1
    if len(acc.samples) < 8 and not any(s["family"] == fam for s in acc.samples):
        acc.samples.append(case)


def canon_decls(d):
    lets, regs = d
    return ({k: v for k, v in lets.items()}, {k: (v if v[0] != "R" else ("R", tuple(v[1]))) for k, v in regs.items()})


def lib_decls(c):
    """the library's own reading of its declarations, in the script's format (self-check only)"""
    def num(x):
        while isinstance(x, Constant):
            x = x.value
        return x
    st, v = guarded(lambda: ({k: num(x) for k, x in c.constants.items()},
                             {k: (("Q", (r.resolve_qubit()[0].name, int(r.resolve_qubit()[1]))) if isinstance(r, NamedQubit)
                                  else ("F", int(num(r.size))) if r.fundamental
                                  else ("R", tuple((r.resolve_qubit(i)[0].name, int(r.resolve_qubit(i)[1])) for i in range(int(num(r.size))))))
                              for k, r in c.registers.items()}))
    return v if st == "ok" else ("unavailable", st)


# ------------------------------------------------------------------------------------------------ node zoo

def zoo(name, n, k):
    """objects of every class that carry the same name / the same numbers; (label, object) list"""
    q = Register("q", n)
    qa = Register("qa", alias_from=q)
    par_r = Parameter("q", ParamType.REGISTER)
    gd0 = GateDefinition(name, [])
    gd1 = GateDefinition(name, [Parameter("x", ParamType.QUBIT)])
    blk = BlockStatement(statements=[GateStatement(gd1, {"x": q[k]})])
    L = [
        ("regF", Register(name, n)), ("regF_const", Register(name, Constant("n", n))),
        ("regW", Register(name, alias_from=q)), ("regW_of_alias", Register(name, alias_from=qa)), ("regW_of_param", Register(name, alias_from=par_r)),
        ("regS_full", Register(name, alias_from=q, alias_slice=slice(0, n, 1))), ("regS_one", Register(name, alias_from=q, alias_slice=slice(k, k + 1, 1))),
        ("regS_rev", Register(name, alias_from=q, alias_slice=slice(n - 1, -1, -1))), ("regS_empty", Register(name, alias_from=q, alias_slice=slice(k, k, 1))),
        ("regS_const", Register(name, alias_from=q, alias_slice=slice(Constant("z", 0), n, 1))),
        ("qubit", NamedQubit(name, q, k)), ("qubit0", NamedQubit(name, q, 0)), ("qubit_of_alias", NamedQubit(name, qa, k)),
        ("qubit_of_param", NamedQubit(name, par_r, k)), ("qubit_const_idx", NamedQubit(name, q, Constant("k", k))),
        ("qubit_item", q[k]), ("qubit_item_named", NamedQubit(name, Register(name, n), k)),
        ("param_none", Parameter(name, None)), ("param_qubit", Parameter(name, ParamType.QUBIT)), ("param_reg", Parameter(name, ParamType.REGISTER)),
        ("param_int", Parameter(name, ParamType.INT)), ("param_float", Parameter(name, ParamType.FLOAT)),
        ("const_int", Constant(name, k)), ("const_n", Constant(name, n)), ("const_float", Constant(name, float(k))), ("const_of_const", Constant(name, Constant("k", k))),
        ("int", k), ("int_n", n), ("float", float(k)), ("float_half", k + 0.5), ("str", name), ("none", None),
        ("gate", GateStatement(gd0, {})), ("gate_arg", GateStatement(gd1, {"x": q[k]})), ("gate_numarg", GateStatement(gd1, {"x": k})),
        ("block_empty", BlockStatement()), ("block", blk), ("block_par", BlockStatement(parallel=True, statements=list(blk.statements))),
        ("block_sub", BlockStatement(subcircuit=True, statements=list(blk.statements))),
        ("block_sub_n", BlockStatement(subcircuit=True, iterations=max(k, 2), statements=list(blk.statements))),
        ("loop", LoopStatement(k, blk)), ("loop1", LoopStatement(1, blk)), ("loop_const", LoopStatement(Constant(name, k), blk)),
        ("loop_empty", LoopStatement(1, BlockStatement())),
        ("gatedef", gd0), ("gatedef1", gd1), ("macro", Macro(name, [], BlockStatement())), ("macro1", Macro(name, [Parameter("x", ParamType.QUBIT)], blk)),
        ("circuit_empty", Circuit()), ("usepulses", UsePulsesStatement(name, all)),
        ("tuple", (name, n)), ("list", [name]), ("list_stmts", list(blk.statements)), ("dict", {name: n}), ("slice", slice(0, n, 1)),
    ]
    c1 = Circuit()
    c1.registers[name] = Register(name, n)
    L.append(("circuit_reg", c1))
    c2 = Circuit()
    c2.constants[name] = Constant(name, k)
    L.append(("circuit_let", c2))
    c3 = Circuit()
    c3.registers["q"] = q
    c3.body.statements.append(GateStatement(gd1, {"x": q[k]}))
    L.append(("circuit_body", c3))
    return L


def safe_zoo(name, n, k):
    st, v = guarded(zoo, name, n, k)
    return v if st == "ok" else None


def process_zoo(acc, seed, idx, thorough):
    rng = random.Random(f"{seed}:zoo:{idx}")
    name = rng.choice(["a", "r", "q", "x", "m", "foo"])
    n = rng.randrange(2, 6)
    k = rng.randrange(1, n)
    za, zb = safe_zoo(name, n, k), safe_zoo(name, n, k)
    if za is None or zb is None:
        acc.dist["zoo_not_constructible"] += 1
        return
    acc.dist["zoos"] += 1
    pairs = [(i, j) for i in range(len(za)) for j in range(i, len(zb))]
    if not thorough:
        rng.shuffle(pairs)
        pairs = pairs[: max(200, len(pairs) // 3)]
    for i, j in pairs:
        la, a = za[i]
        lb, b = zb[j]
        case = {"kind": "zoo", "name": name, "n": n, "k": k, "i": i, "j": j, "a": la, "b": lb}
        if i == j:   # a structural twin built independently: must at least be symmetric / not raise
            if isinstance(a, Macro):
                continue
            node_compare(acc, a, b, case)
            continue
        node_compare(acc, a, b, case)
        acc.nontrivial.add(f"zoo:{name}:{n}:{k}:{i}:{j}")
    acc.dist["zoo_classes"] = max(acc.dist["zoo_classes"], len({class_group(o) for _, o in za}))


# ------------------------------------------------------------------------------------------------ fixed pairs

def fixed_pairs():
    """a small deterministic set that is always run (every kind pair once, the boundary slices once)"""
    out = []
    hdr = [("reg", "r", 4)]
    decls = [("map", "a", "r"), ("mapq", "a", "r", 0), ("mapq", "a", "r", 3), ("maps", "a", "r", 0, 4, 1), ("maps", "a", "r", None, None, None),
             ("maps", "a", "r", 3, 0, -1), ("maps", "a", "r", 3, 4, -1), ("maps", "a", "r", 3, None, -1), ("maps", "a", "r", 3, -1, -1),
             ("maps", "a", "r", 0, 0, None), ("maps", "a", "r", 0, 4, None), ("maps", "a", "r", 1, 0, None), ("maps", "a", "r", 1, 4, None),
             ("maps", "a", "r", 0, 1, None), ("let", "a", "0"), ("let", "a", "3")]
    for cname in ("unused", "gate_arg", "macro_arg", "loop_macro_arg", "macro_body_global"):
        mk = contexts(False)[cname][1]
        extra, macros, body = mk("a")
        for d1, d2 in itertools.combinations(decls, 2):
            out.append(("fixed", f"{_kind_of(d1)}<->{_kind_of(d2)}:{cname}", prog(hdr + [d1] + extra, body, macros), prog(hdr + [d2] + extra, body, macros), False, False))
    return out


# ------------------------------------------------------------------------------------------------ run / replay

def run(seed: int, n: int, driver: str = DEFAULT_DRIVER, thorough: bool = False) -> dict:
    _imports()
    acc = Acc()
    with alarm_handler():
        for fam, tag, A, B, gs, builder in fixed_pairs():
            process_pair(acc, fam, tag, A, B, gs, builder)
        for i, (gen, share) in enumerate(FAMILIES):
            rng = random.Random(f"{seed}:fam:{i}")
            for fam, tag, A, B, gs, builder in gen(rng, max(1, int(n * share)), thorough):
                process_pair(acc, fam, tag, A, B, gs, builder)
        # 60 distinct (name, size, index) zoos exist; more would only repeat them
        for idx in range(max(1, min(60 if thorough else 30, n // (300 if thorough else 150)))):
            process_zoo(acc, seed, idx, thorough)
    return {"corr": {}, "oracle": acc.oracle, "distribution": dict(sorted(acc.dist.items())),
            "samples": acc.samples, "nontrivial": len(acc.nontrivial)}


def replay(case: dict, driver: str = DEFAULT_DRIVER) -> dict:
    """re-run ONE failing case; {"oracle_ok": False, "detail": ..} when an oracle still fails on it"""
    _imports()
    with alarm_handler():
        return _replay(case)


def _replay(case):
    acc = Acc()
    kind = case.get("kind")
    if kind == "program":
        acc.parsed(case["text"], case["gateset"], case["builder"])
    elif kind in ("pair", "pair_node"):
        c = dict(case, kind="pair")
        c.pop("path", None)
        pair_oracles(acc, c, {"decl_differs": case.get("decl_differs"), "meaning_differs": case.get("meaning_differs")}, with_nodes=True)
        if kind == "pair_node":   # only the named node matters
            for o in acc.oracle.values():
                o["failures"] = [f for f in o["failures"] if f["case"].get("path", case["path"]) == case["path"] or f["case"].get("kind") != "pair_node"]
    elif kind == "zoo":
        za, zb = safe_zoo(case["name"], case["n"], case["k"]), safe_zoo(case["name"], case["n"], case["k"])
        if za is None or zb is None:
            return {"oracle_ok": None, "detail": "the objects can no longer be constructed"}
        node_compare(acc, za[case["i"]][1], zb[case["j"]][1], case)
    else:
        return {"oracle_ok": None, "detail": f"unknown case kind {kind!r}"}
    bad = [(name, f["detail"]) for name, o in acc.oracle.items() for f in o["failures"]]
    if bad:
        return {"oracle_ok": False, "detail": "; ".join(f"{n}: {d}" for n, d in bad[:6])}
    return {"oracle_ok": True, "detail": "all oracles hold on this case"}


def main():
    ap = argparse.ArgumentParser()
    ap.add_argument("--driver", default=DEFAULT_DRIVER)
    ap.add_argument("--n", type=int, default=3000)
    ap.add_argument("--seed", type=int, default=20)
    ap.add_argument("--thorough", action="store_true")
    ap.add_argument("--json", action="store_true")
    args = ap.parse_args()
    res = run(args.seed, args.n, args.driver, args.thorough)
    if args.json:
        print(json.dumps(res, indent=1))
    bad = 0
    for name, d in res["oracle"].items():
        print(f"oracle {name}: {d['cases']} cases, {len(d['failures'])} failures")
        for x in d["failures"][:3]:
            print("  FINDING", json.dumps(x)[:2000])
        bad += len(d["failures"])
    print("distribution:")
    for k, v in res["distribution"].items():
        print("  ", k, v)
    print("nontrivial distinct cases:", res["nontrivial"])
    print("RESULT:", "OK" if bad == 0 else f"{bad} PROBLEMS")
    sys.exit(0 if bad == 0 else 1)


if __name__ == "__main__":
    main()
