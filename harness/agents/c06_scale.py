#!/venv/bin/python
"""C06 at SCALE, with unusual IDENTIFIERS and through the optional parameters of the public functions.

The other C06 streams (pass2_diff, emu_diff, c06_edge) keep every program small: alias chains of depth <= 5, a handful of
lets / aliases / statements, registers of <= 6 emulated qubits, names a b c k0 M0.  This stream keeps the property and
grows ONE dimension of the program across the thresholds 8 16 32 64 128 256 (1000 where cheap) while everything else
stays small:

  chain       depth of the alias chain 7..130 (257 for the cheap consumers): length-preserving chains over a 3-6 qubit
              register (reversals, whole-register aliases, `[:]`, `[0:n]`; emulated), mixed chains (drop first / last,
              reversal, stride 2, whole) over a register of 2*depth+8 qubits, and halving chains `[b::2]` over a register
              of 2**depth qubits; references into the last alias and into levels next to 63 / 64 / 65
  lets        49..1000 header lets; every bound / index / size of a small chain is a let placed at position 0, 63, 64,
              65, 255, 256, last ... among decoys
  aliases     49..1000 aliases (slices or single-qubit aliases) of one register; the referenced ones sit at those positions
  qubits      emulated registers of 7..14 qubits, gates on aliases of the high qubits (state vector compared)
  statements  200..1000 statements in one block (top level, sequential, parallel, loop body, macro body), loops of
              34..1000 iterations
  nest        nesting depth 8..150 of alternating sequential / parallel blocks and loops, reference at the innermost level
  macros      chains of 8..128 macros passing a qubit / an index / a register down (arguments permuted on the way) and
              49..256 macros side by side
  names       dotted names (`cal.x`, `q.a` next to `q` and `a`), dunder names (`__macro__`, `__c10`, `__r0`,
              `__in_context_parallel__`), prefixes / extensions of keywords and of prepare_all / measure_all, names of
              gates and macros used for registers, macro parameters named like a let / an alias, names of 255..1000
              characters, families of names that differ by a dotted prefix / suffix only
  options     parse_jaqal_string(expand_macro / expand_let / expand_let_map, override_dict absent / None / {} / equal to
              the text / different (int, integral float, numpy integer), return_usepulses), fill_in_let(c[, override]),
              expand_macros(c[, preserve_definitions]), run_jaqal_circuit(c[, backend= | emulator_backend= | force_sim=])
              - every combination must leave every reference on the qubit the header (with the overriding values) says

Every expectation comes from the reference in this file (`Den`: a register denotes [start + i*step ...] of its source,
composed iteratively along the chain with exact integers; macro calls expanded here; state vectors computed here).

oracle (corr is empty)
  front_end_accepts_valid_chain   the valid program is built (text or S-expression) without an exception
  resolve_qubit_index             NamedQubit.resolve_qubit() == (fundamental register, composed index) for every
                                  reference: as built (top level, call arguments, literal references in macro bodies),
                                  after expand_macros, after fill_in_let, through the parse options, in the pipeline of
                                  the emulator
  used_qubits_index               get_used_qubit_indices of every top-level statement (macro calls included) and of the
                                  circuit == those indices
  fill_in_map_index               fill_in_map rewrites every reference to fundamental[index]
  emulator_label_index            (thorough) the qubit the pyGSTi front end reads == that index
  emulator_state                  state vector of run_jaqal_circuit == the gates applied here on those indices
  options_same_index              the same four consumers on the circuits obtained with non-default arguments of the
                                  public functions

CLI: c06_scale.py [--seed S] [--n N] [--thorough]
"""
import argparse
import json
import random
import re
import sys

try:
    from harness.agents import c06_edge as E
except ImportError:          # run as a script: /verif is not on the path yet
    import os
    sys.path.insert(0, os.path.dirname(os.path.dirname(os.path.dirname(os.path.abspath(__file__)))))
    from harness.agents import c06_edge as E

DEFAULT_DRIVER = "/verif/lean/.lake/build/bin/jaqal-model"
ORACLES = ("front_end_accepts_valid_chain", "resolve_qubit_index", "used_qubits_index", "fill_in_map_index",
           "emulator_label_index", "emulator_state", "options_same_index")
EMU_MAX = 14
CHAIN_HEAVY = 130          # beyond this depth only the consumers that cost linear time are called


_RUN = re.compile(r"((?:[A-Za-z_]\.?){1,2}?)\1{11,}")


def short(x, k=400):
    """JSON / text cut to k characters, long runs inside identifiers and long numbers abbreviated"""
    s = x if isinstance(x, str) else json.dumps(x, default=str)
    s = _RUN.sub(lambda m: f"{m.group(1)}<x{len(m.group(0)) // len(m.group(1))}>", s)
    return E.short(s, k)


# ------------------------------------------------------------------------------------------------------------------
# the reference

def count_range(start, stop, step):
    if step > 0:
        return (stop - start + step - 1) // step if stop > start else 0
    return (start - stop - step - 1) // (-step) if start > stop else 0


class Den:
    """what the header of a program model denotes (optionally with overriding let values)"""

    def __init__(self, pm, override=None):
        self.env = {n: v for n, v in pm["lets"]}
        if override:
            self.env.update({k: int(v) for k, v in override.items()})
        self.fund = pm["reg"][0]
        self.regs = {self.fund: None}
        self.len = {self.fund: self.val(pm["reg"][1])}
        self.qal = {}
        self.ok = self.len[self.fund] >= 1
        for m in pm["maps"]:
            name, src = m["name"], m["src"]
            if m["kind"] == "whole":
                self.regs[name] = (src, 0, 1)
                self.len[name] = self.len[src]
            elif m["kind"] == "qubit":
                k = self.elem(src, self.val(m["index"]))
                if k is None:
                    self.ok = False
                self.qal[name] = k
            else:
                n = self.len[src]
                start = 0 if m["start"] is None else self.val(m["start"])
                stop = n if m["stop"] is None else self.val(m["stop"])
                step = 1 if m["step"] is None else self.val(m["step"])
                if step == 0:
                    self.ok = False
                    step = 1
                cnt = count_range(start, stop, step)
                self.regs[name] = (src, start, step)
                self.len[name] = cnt
                if not (cnt >= 1 and 0 <= start < n and 0 <= start + (cnt - 1) * step < n
                        and (stop <= n if step > 0 else stop >= -1)):
                    self.ok = False

    def val(self, b):
        return self.env[b] if isinstance(b, str) else b

    def elem(self, name, i):
        """fundamental index of element i of register `name` (iterative), None when i is not an element"""
        while True:
            if not (0 <= i < self.len[name]):
                return None
            r = self.regs[name]
            if r is None:
                return i
            name, i = r[0], r[1] + i * r[2]


class Invalid(Exception):
    pass


def ground(a, env, den):
    """argument -> ("qubit", k) | ("reg", name) | ("num", v) under the bindings `env` of the enclosing macro"""
    if a[0] == "n":
        if a[1] in env:
            return env[a[1]]
        if a[1] in den.qal:
            if den.qal[a[1]] is None:
                raise Invalid(a)
            return ("qubit", den.qal[a[1]])
        if a[1] in den.regs:
            return ("reg", a[1])
        return ("num", den.env[a[1]])
    if a[0] == "i":
        v = a[1]
        if isinstance(v, str):
            return env[v] if v in env else ("num", den.env[v])
        return ("num", v)
    reg, idx = a[1], a[2]
    if reg in env:
        reg = env[reg][1]
    if isinstance(idx, str):
        idx = env[idx][1] if idx in env else den.env[idx]
    k = den.elem(reg, idx)
    if k is None:
        raise Invalid(a)
    return ("qubit", k)


def macro_table(pm):
    return {m[0]: m for m in pm["macros"]}


def ops_of(stmt, env, den, macros, unroll, out, par_check=None):
    """append (gate, [qubit], [classical]) of the native gates `stmt` stands for (macros written out)"""
    if stmt[0] == "gate":
        args = [ground(a, env, den) for a in stmt[2]]
        if stmt[1] in macros:
            _, params, kind, body = macros[stmt[1]]
            ops_of([kind, body], dict(zip(params, args)), den, macros, unroll, out)
        else:
            qs = [g[1] for g in args if g[0] == "qubit"]
            if len(set(qs)) != len(qs):
                raise Invalid(stmt)
            out.append((stmt[1], qs, [g[1] for g in args if g[0] == "num"]))
    elif stmt[0] == "loop":
        n = den.val(stmt[1])
        for _ in range(n if unroll else 1):
            ops_of(stmt[2], env, den, macros, unroll, out)
    elif stmt[0] == "par":
        seen = set()
        for s in stmt[1]:
            sub = []
            ops_of(s, env, den, macros, unroll, sub)
            mine = {q for _, qs, _ in sub for q in qs}
            if mine & seen:
                raise Invalid("parallel branches share a qubit")
            seen |= mine
            out += sub
    else:
        for s in stmt[1]:
            ops_of(s, env, den, macros, unroll, out)
    return out


def valid(pm, override=None):
    """the program is a valid C06 input under `override`: aliases inside their sources, references elements of their
    aliases, qubits of one gate / of parallel branches distinct; a defaulted stop never sits on a source whose length the
    override changes (C05's known finding `defaulted-stop-frozen` is not C06's to report)"""
    try:
        den = Den(pm, override)
        if not den.ok:
            return False
        if override:
            d0 = Den(pm)
            for m in pm["maps"]:
                if m["kind"] == "slice" and m["stop"] is None and d0.len[m["src"]] != den.len[m["src"]]:
                    return False
        mt = macro_table(pm)
        for s in pm["body"]:
            ops_of(s, {}, den, mt, False, [])
        for _, params, kind, body in pm["macros"]:          # literal references in bodies that are never called
            if len(set(params)) != len(params):
                return False
            for g in flat_my([kind, body], []):
                for a in g[2]:
                    if not involves(a, set(params)):
                        ground(a, {}, den)
        return True
    except (Invalid, KeyError):
        return False


def ref_state(L, n, ops):
    """state vector after `ops` on |0..0>; bit q of the state index is qubit q of the fundamental register, bit j of a
    gate's matrix index is its j-th quantum argument"""
    np = L["np"]
    idx = np.arange(2**n)
    v = np.zeros(2**n, dtype=complex)
    v[0] = 1
    for name, qs, cs in ops:
        u = L["HG"].GATES[name].ideal_unitary
        if u is None:
            continue
        m = np.asarray(u(*cs))
        col = np.zeros(2**n, dtype=int)
        mask = 0
        for j, q in enumerate(qs):
            col |= ((idx >> q) & 1) << j
            mask |= 1 << q
        base = idx & ~mask
        w = np.zeros(2**n, dtype=complex)
        for row in range(2 ** len(qs)):
            o = base.copy()
            for j, q in enumerate(qs):
                if (row >> j) & 1:
                    o |= 1 << q
            np.add.at(w, o, m[row, col] * v)
        v = w
    return v


# ------------------------------------------------------------------------------------------------------------------
# rendering of a program model
#   pm = {"lets": [[name, int]], "reg": [name, size], "maps": [{name, src, kind, start, stop, step | index}],
#         "macros": [[name, [param], "seq"|"par", [stmt]]], "body": [stmt], "emulate": bool}
#   stmt = ["gate", name, [arg]] | ["loop", count, ["seq", [stmt]]] | ["seq", [stmt]] | ["par", [stmt]]
#   arg  = ["q", register, index] | ["n", identifier] | ["i", number or identifier]

def b_text(b):
    return "" if b is None else str(b)


def arg_text(a):
    return f"{a[1]}[{a[2]}]" if a[0] == "q" else str(a[1])


def stmt_text(s):
    if s[0] == "gate":
        return " ".join([s[1]] + [arg_text(a) for a in s[2]])
    if s[0] == "loop":
        return f"loop {s[1]} " + stmt_text(s[2])
    if s[0] == "seq":
        return "{ " + " ; ".join(stmt_text(x) for x in s[1]) + " }"
    return "< " + " | ".join(stmt_text(x) for x in s[1]) + " >"


def text_of(pm):
    out = [f"let {n} {v}" for n, v in pm["lets"]]
    out.append(f"register {pm['reg'][0]}[{pm['reg'][1]}]")
    for m in pm["maps"]:
        if m["kind"] == "whole":
            out.append(f"map {m['name']} {m['src']}")
        elif m["kind"] == "qubit":
            out.append(f"map {m['name']} {m['src']}[{m['index']}]")
        else:
            s = b_text(m["start"]) + ":" + b_text(m["stop"]) + ("" if m["step"] is None else ":" + b_text(m["step"]))
            out.append(f"map {m['name']} {m['src']}[{s}]")
    for name, params, kind, stmts in pm["macros"]:
        out.append(f"macro {name} " + "".join(p + " " for p in params) + stmt_text([kind, stmts]))
    if pm["emulate"]:
        out.append("prepare_all")
    out += [stmt_text(s) for s in pm["body"]]
    if pm["emulate"]:
        out.append("measure_all")
    return "\n".join(out) + "\n"


def sexpr_stmt(s):
    if s[0] == "gate":
        return ["gate", s[1], *[["array_item", a[1], a[2]] if a[0] == "q" else a[1] for a in s[2]]]
    if s[0] == "loop":
        return ["loop", s[1], sexpr_stmt(s[2])]
    return ["sequential_block" if s[0] == "seq" else "parallel_block", *[sexpr_stmt(x) for x in s[1]]]


def sexpr_of(pm):
    out = ["circuit"] + [["let", n, v] for n, v in pm["lets"]]
    out.append(["register", pm["reg"][0], pm["reg"][1]])
    for m in pm["maps"]:
        if m["kind"] == "whole":
            out.append(["map", m["name"], m["src"]])
        elif m["kind"] == "qubit":
            out.append(["map", m["name"], m["src"], m["index"]])
        else:
            out.append(["map", m["name"], m["src"], m["start"], m["stop"], m["step"]])
    for name, params, kind, stmts in pm["macros"]:
        out.append(["macro", name, *params, sexpr_stmt([kind, stmts])])
    if pm["emulate"]:
        out.append(["gate", "prepare_all"])
    out += [sexpr_stmt(s) for s in pm["body"]]
    if pm["emulate"]:
        out.append(["gate", "measure_all"])
    return out


# ------------------------------------------------------------------------------------------------------------------
# generator

GATE1 = ["X", "X", "Y", "Z", "S", "SX", "P", "PF"]
GATE2 = ["CX", "CX", "CZ", "SWAP", "ISWAP", "NS", "HH"]
GATE3 = ["CCX", "ROT3"]
MARKS = [0, 1, 7, 8, 9, 15, 16, 17, 31, 32, 33, 48, 49, 63, 64, 65, 66, 99, 100, 127, 128, 129, 199, 200, 255, 256, 257,
         511, 512, 999, 1000]
SIZES = {
    "chain": [65, 8, 130, 16, 66, 32, 64, 100, 33, 128, 63, 257, 129, 17, 9, 127, 31, 256, 15, 7, 200, 70, 255],
    "lets": [64, 256, 1000, 49, 100, 65, 128, 257, 32, 16, 8, 63, 33, 129, 255],
    "aliases": [65, 257, 1000, 49, 100, 64, 129, 256, 33, 17, 9, 63, 32, 128, 255],
    "qubits": [14, 12, 10, 13, 7, 11, 8, 9],
    "statements": [256, 1000, 200, 64, 128, 34, 65, 257, 129, 32, 16, 8, 255, 33, 100],
    "nest": [16, 20, 32, 40, 64, 128, 8, 33, 65, 100, 129, 150, 17, 9],
    "macros": [33, 65, 100, 8, 16, 32, 64, 128, 49, 130, 17, 9, 129, 63],      # (breadth: twice as many)
    "names": [1, 2, 3, 255, 256, 257, 300, 1000, 4, 5, 6, 7],
    "options": list(range(64)),
}
KINDS = {
    "chain": ["keep", "mixed", "keep", "halve", "keep", "mixed"],
    "lets": ["x"],
    "aliases": ["slices", "qubits", "mixed"],
    "qubits": ["x"],
    "statements": ["top", "seq", "loopcount", "par", "loopbody", "macrobody", "top"],
    "nest": ["loops", "alt", "alt"],
    "macros": ["chain_q", "chain_i", "chain_perm", "chain_r", "breadth"],
    "names": ["fam", "dunder", "kw", "long", "mix"],
    "options": ["x"],
}
SCHEDULE = ["chain", "lets", "nest", "aliases", "names", "statements", "chain", "options", "macros", "lets", "qubits",
            "aliases", "chain", "names", "statements", "options", "nest", "lets", "chain", "macros", "aliases", "names",
            "statements", "options", "qubits"]
OV_KINDS = ["absent", "none", "empty", "same", "changed", "changed_float", "changed_np"]
RUN_KINDS = ["default", "backend", "emulator_backend", "force_sim"]
PD_KINDS = ["absent", "false", "true", "kw"]
FLAG_SETS = [[], ["expand_macro"], ["expand_let"], ["expand_let_map"], ["expand_macro", "expand_let"],
             ["expand_macro", "expand_let_map"], ["expand_let", "expand_let_map"],
             ["expand_macro", "expand_let", "expand_let_map"]]


class B:
    """a program under construction"""

    def __init__(self, rng, namer=None, plet=0.2):
        self.rng, self.namer, self.plet = rng, namer, plet
        self.lets, self.maps, self.macros, self.body = [], [], [], []
        self.roles = {}
        self.reg = None
        self.lens = {}
        self.cnt = {"alias": 0, "let": 0, "macro": 0, "param": 0, "qal": 0}
        self.defaults = True

    def name(self, role, avoid=()):
        j = self.cnt.get(role, 0)
        self.cnt[role] = j + 1
        if self.namer:
            return self.namer(self, role, j, avoid)
        return {"reg": "r", "alias": f"a{j}", "let": f"k{j}", "macro": f"M{j}", "param": f"p{j}", "qal": f"s{j}"}[role]

    def let(self, v, role):
        name = self.name("let")
        self.lets.append([name, v])
        self.roles[name] = role
        return name

    def rep(self, v, role, plet=None):
        return self.let(v, role) if self.rng.random() < (self.plet if plet is None else plet) else v

    def register(self, n, plet=None):
        name = self.name("reg")
        self.reg = [name, self.rep(n, "size", plet)]
        self.lens[name] = n
        return name

    def whole(self, src):
        name = self.name("alias")
        self.maps.append({"name": name, "src": src, "kind": "whole"})
        self.lens[name] = self.lens[src]
        return name

    def slice(self, src, start, stop, step, defaults=None):
        n = self.lens[src]
        cnt = count_range(start, stop, step)
        assert cnt >= 1 and 0 <= start < n and 0 <= start + (cnt - 1) * step < n, (n, start, stop, step)
        d = self.defaults if defaults is None else defaults
        r = self.rng
        name = self.name("alias")
        self.maps.append({
            "name": name, "src": src, "kind": "slice",
            "start": None if d and start == 0 and step > 0 and r.random() < 0.4 else self.rep(start, "start"),
            "stop": None if d and stop == n and step > 0 and r.random() < 0.4 else self.rep(stop, "stop"),
            "step": None if d and step == 1 and r.random() < 0.5 else self.rep(step, "step")})
        self.lens[name] = cnt
        return name

    def qubit(self, src, i):
        name = self.name("qal")
        self.maps.append({"name": name, "src": src, "kind": "qubit", "index": self.rep(i, "index")})
        return name

    def pm(self, emulate):
        return {"lets": self.lets, "reg": self.reg, "maps": self.maps, "macros": self.macros, "body": self.body,
                "emulate": emulate}


def rand_slice(rng, n):
    """(start, stop, step) of a non-empty slice inside range(n), stop >= -1"""
    step = rng.choice([1, 1, 1, 2, 2, 3, -1, -1, -2, -3])
    start = rng.randrange(n)
    if step > 0:
        cnt = rng.randint(1, (n - 1 - start) // step + 1)
        lo, hi = start + (cnt - 1) * step + 1, min(n, start + cnt * step)
    else:
        cnt = rng.randint(1, start // (-step) + 1)
        lo, hi = max(-1, start + cnt * step), start + (cnt - 1) * step - 1
    stop = rng.choice([lo, hi])
    assert count_range(start, stop, step) == cnt
    return start, stop, step


def idx_pick(rng, n):
    c = rng.random()
    return 0 if c < 0.25 else n - 1 if c < 0.5 else rng.randrange(n)


def pick_gate(rng, den, cands, taken, arity=None):
    """a gate on `arity` references (drawn from the registers / qubit aliases `cands`) whose qubits are distinct and
    outside `taken`"""
    SIG = E.lib()["SIG"]
    arity = arity or rng.choice([1, 1, 1, 2, 2, 3])
    refs, ks = [], []
    for _ in range(arity):
        for _try in range(12):
            name = rng.choice(cands)
            if name in den.qal:
                ref, k = [name, None], den.qal[name]
            else:
                i = idx_pick(rng, den.len[name])
                ref, k = [name, i], den.elem(name, i)
            if k not in taken and k not in ks:
                refs.append(ref)
                ks.append(k)
                break
    if not refs:
        return None
    g = rng.choice({1: GATE1, 2: GATE2, 3: GATE3}[len(refs)])
    return {"g": g, "q": refs, "c": [rng.choice([0, 1, 2, 3, 5])] if "i" in SIG[g] else [], "k": ks}


def gstmt(gt, qargs):
    SIG = E.lib()["SIG"]
    qa, ca = iter(qargs), iter(gt["c"])
    return ["gate", gt["g"], [next(qa) if ch == "q" else ["i", next(ca)] for ch in SIG[gt["g"]]]]


def lit(b, ref, plet=0.25):
    return ["n", ref[0]] if ref[1] is None else ["q", ref[0], b.rep(ref[1], "index", plet)]


def plain(b, gt):
    return gstmt(gt, [lit(b, r) for r in gt["q"]])


WRAPS = ["plain", "plain", "loop", "seq", "par", "macro_q", "macro_i", "macro_lit", "macro_r", "macro_nq"]


def add_item(b, rng, den, cands, wrap=None):
    """append one top-level statement (and the macros it needs) referencing `cands`"""
    wrap = wrap or rng.choice(WRAPS)
    want = {"plain": 1, "par": rng.choice([2, 3])}.get(wrap, rng.choice([1, 2, 3]))
    taken = set()
    gates = []
    for _ in range(want):
        gt = pick_gate(rng, den, cands, taken if wrap == "par" else set())
        if gt:
            gates.append(gt)
            if wrap == "par":
                taken |= set(gt["k"])
    if not gates:
        return
    if wrap == "par" and len(gates) < 2:
        wrap = "plain"
    if wrap == "plain":
        b.body.append(plain(b, gates[0]))
    elif wrap == "loop":
        b.body.append(["loop", b.rep(rng.choice([1, 2, 3]), "count", 0.15), ["seq", [plain(b, x) for x in gates]]])
    elif wrap in ("seq", "par"):
        b.body.append([wrap, [plain(b, x) for x in gates]])
    else:
        literal_regs = {r[0] for x in gates for r in x["q"]}
        avoid = set(literal_regs) | {b.reg[0]}
        params, call, stmts = [], [], []

        def param():
            p = b.name("param", avoid | set(params))
            params.append(p)
            return p

        for x in gates:
            qa = []
            for ref in x["q"]:
                if wrap in ("macro_q", "macro_nq"):
                    call.append(lit(b, ref))
                    qa.append(["n", param()])
                elif wrap == "macro_i" and ref[1] is not None:
                    call.append(["i", b.rep(ref[1], "index", 0.25)])
                    qa.append(["q", ref[0], param()])
                elif wrap == "macro_r" and ref[1] is not None:
                    rp = param()
                    call += [["n", ref[0]], ["i", b.rep(ref[1], "index", 0.25)]]
                    qa.append(["q", rp, param()])
                else:
                    qa.append(lit(b, ref, 0.1))
            stmts.append(gstmt(x, qa))
        name = b.name("macro")
        b.macros.append([name, params, "seq", stmts])
        if wrap == "macro_nq":
            outer = b.name("macro")
            ops = []
            for _ in params:
                ops.append(b.name("param", avoid | set(params) | set(ops)))
            # (the outer parameters reuse the inner names in another order where possible)
            if len(params) > 1 and rng.random() < 0.5:
                ops = params[1:] + params[:1]
            b.macros.append([outer, ops, "seq", [["gate", name, [["n", p] for p in ops]]]])
            name = outer
        c = ["gate", name, call]
        b.body.append(["loop", rng.choice([1, 2]), ["seq", [c]]] if rng.random() < 0.2 else c)


def fill_body(b, rng, cands, nitems, wraps=None):
    den = Den(b.pm(False))
    for _ in range(nitems):
        add_item(b, rng, den, cands, rng.choice(wraps) if wraps else None)
    if not b.body:
        b.body.append(["gate", "X", [["q", cands[0], 0]]] if cands[0] not in den.qal else ["gate", "X", [["n", cands[0]]]])


def near(levels, marks):
    return [x for x in marks if 0 <= x < levels]


# --- families ------------------------------------------------------------------------------------------------------

def fam_chain(b, rng, D, kind):
    names = []
    if kind == "keep":
        n = rng.choice([3, 4, 4, 5, 6])
        src = b.register(n)
        for _ in range(D):
            c = rng.random()
            if c < 0.45:
                src = b.slice(src, n - 1, -1, -1)
            elif c < 0.65:
                src = b.whole(src)
            elif c < 0.85:
                src = b.slice(src, 0, n, 1)
            else:
                src = b.slice(src, 0, n, 1, defaults=False)
            names.append(src)
        emulate = True
    elif kind == "mixed":
        n = 2 * D + 6 + rng.choice([0, 1, 3])
        src = b.register(n)
        ln = n
        for lvl in range(D):
            need = 2 + 2 * (D - 1 - lvl)
            ops = ["whole", "rev"]
            if ln - 1 >= need:
                ops += ["dropf", "dropl", "revdrop", "dropf", "dropl"]
            if ln - 2 >= need:
                ops += ["dropf2"]
            if ln // 2 >= need:
                ops += ["stride", "stride"]
            op = rng.choice(ops)
            if op == "whole":
                src = b.whole(src)
            elif op == "rev":
                src = b.slice(src, ln - 1, -1, -1)
            elif op == "dropf":
                src = b.slice(src, 1, ln, 1)
            elif op == "dropf2":
                src = b.slice(src, 2, ln, 1)
            elif op == "dropl":
                src = b.slice(src, 0, ln - 1, 1)
            elif op == "revdrop":
                src = b.slice(src, ln - 1, 0, -1) if rng.random() < 0.5 else b.slice(src, ln - 2, -1, -1)
            else:
                bit = rng.choice([0, 1])
                src = b.slice(src, bit, rng.choice([ln, ln - 1]) if ln % 2 == 0 or bit else ln, 2)
            ln = b.lens[src]
            names.append(src)
        emulate = n <= 12
    else:
        n = 2**D * rng.choice([2, 3]) + rng.choice([0, 1])
        src = b.register(n)
        for _ in range(D):
            src = b.slice(src, rng.choice([0, 1]), b.lens[src], 2)
            names.append(src)
        emulate = False
    cands = [names[-1]] * 4 + [names[i] for i in near(D, [62, 63, 64, 65, 66, D - 64, D - 65, D - 66, D // 2])]
    cands += [rng.choice(names), b.reg[0]]
    if rng.random() < 0.5:
        cands += [b.qubit(names[-1], idx_pick(rng, b.lens[names[-1]]))] * 2
    fill_body(b, rng, cands, rng.choice([2, 3, 4]))
    return emulate


def fam_lets(b, rng, H, kind):
    marks = near(H, MARKS + [H - 1, H - 2])
    rng.shuffle(marks)
    rest = [p for p in range(H) if p not in set(marks)]
    rng.shuffle(rest)
    order = marks[: max(4, len(marks) // 2)] + rest
    order = order + [p for p in marks if p not in set(order)]
    pos = iter(order)
    b.namer = lambda bb, role, j, avoid: (f"k{next(pos)}" if role == "let" else
                                          {"reg": "r", "alias": f"a{j}", "macro": f"M{j}", "param": f"p{j}", "qal": f"s{j}"}[role])
    b.plet = 0.85
    n = rng.choice([4, 5, 6])
    src = b.register(n)
    names = [src]
    for _ in range(rng.choice([1, 2, 2, 3])):
        if len(b.lets) > H - 8:
            break
        s = rand_slice(rng, b.lens[src])
        src = b.slice(src, *s)
        names.append(src)
    b.plet = 0.0 if len(b.lets) > H - 6 else 0.6
    fill_body(b, rng, [names[-1]] * 3 + names, rng.choice([1, 2]), ["plain", "plain", "loop", "macro_i", "macro_q"])
    # (indices took their lets inside fill_body with probability 0.25; the remaining positions are decoys)
    used = {nm for nm, _ in b.lets}
    real = dict((nm, v) for nm, v in b.lets)
    if len(real) > H:
        raise Invalid("too many lets")
    b.lets = [[f"k{p}", real[f"k{p}"] if f"k{p}" in used else rng.randrange(7)] for p in range(H)]
    return True


def fam_aliases(b, rng, N, kind):
    n = rng.choice([4, 5, 6])
    r = b.register(n)
    marks = near(N, MARKS + [N - 1, N - 2])
    chosen = set(rng.sample(marks, min(len(marks), 5)) + [rng.randrange(N)])
    regs, cands = [r], []
    for j in range(N):
        as_qubit = kind == "qubits" or (kind == "mixed" and rng.random() < 0.4)
        src = r if rng.random() < 0.7 or len(regs) < 2 else rng.choice(regs[-6:])
        if as_qubit:
            b.cnt["qal"] = j
            nm = b.qubit(src, rng.randrange(b.lens[src]))
        else:
            b.cnt["alias"] = j
            nm = b.slice(src, *rand_slice(rng, b.lens[src])) if rng.random() < 0.9 else b.whole(src)
            regs.append(nm)
        if j in chosen:
            cands.append(nm)
    fill_body(b, rng, cands, rng.choice([3, 4, 5]))
    return True


def fam_qubits(b, rng, n, kind):
    r = b.register(n)
    names = [r]
    src = r
    first = rng.choice(["rev", "revstride", "top", "rand"])
    if first == "rev":
        src = b.slice(src, n - 1, -1, -1)
    elif first == "revstride":
        src = b.slice(src, n - 1, rng.choice([-1, 0]), -2)
    elif first == "top":
        src = b.slice(src, n // 2, n, 1)
    else:
        src = b.slice(src, *rand_slice(rng, n))
    names.append(src)
    for _ in range(rng.choice([0, 1, 2])):
        if b.lens[src] < 2:
            break
        src = b.slice(src, *rand_slice(rng, b.lens[src]))
        names.append(src)
    fill_body(b, rng, [names[-1]] * 2 + names[1:] * 2 + [r], rng.choice([3, 4, 5, 6]),
              ["plain", "plain", "plain", "seq", "par", "loop", "macro_q", "macro_i"])
    return True


def fam_statements(b, rng, N, kind):
    if kind == "par":
        n = N + rng.choice([1, 2, 5])
        r = b.register(n)
        a = b.slice(r, n - 1, n - 1 - N, -1) if rng.random() < 0.5 else b.slice(r, 1, N + 1, 1)
        if rng.random() < 0.5:
            a = b.whole(a)
        idx = list(range(N))
        rng.shuffle(idx)
        b.body.append(["par", [["gate", rng.choice(["X", "Y", "SX"]), [["q", a, b.rep(i, "index", 0.02)]]] for i in idx]])
        return n <= 12
    n = rng.choice([4, 5, 6])
    r = b.register(n)
    names = [r]
    src = r
    for _ in range(rng.choice([1, 2, 3])):
        src = b.slice(src, *rand_slice(rng, b.lens[src])) if b.lens[src] > 1 else b.whole(src)
        names.append(src)
    if b.lens[src] < 2:
        names.append(b.slice(r, n - 1, -1, -1))
    den = Den(b.pm(False))
    cands = names[1:] * 3 + [r]
    if kind == "loopcount":
        g = [pick_gate(rng, den, cands, set()) for _ in range(rng.choice([1, 2]))]
        b.body.append(["loop", b.rep(N, "count", 0.3), ["seq", [plain(b, x) for x in g if x]]])
        return True
    gs = []
    for _ in range(N):
        gt = pick_gate(rng, den, cands, set(), rng.choice([1, 1, 1, 2]))
        gs.append(gstmt(gt, [lit(b, ref, 0.01) for ref in gt["q"]]))
    if kind == "top":
        b.body += gs
    elif kind == "seq":
        b.body.append(["seq", gs])
    elif kind == "loopbody":
        b.body.append(["loop", rng.choice([1, 2]), ["seq", gs]])
    else:
        m = b.name("macro")
        b.macros.append([m, [], "seq", gs])
        b.body += [["gate", m, []]] * rng.choice([1, 2])
    return True


def fam_nest(b, rng, D, kind):
    if kind == "loops":
        n = rng.choice([4, 5, 6])
    else:
        n = D // 2 + 5
    r = b.register(n)
    a = b.slice(r, n - 1, -1, -1) if rng.random() < 0.5 else b.slice(r, 1, n, 1)
    a2 = b.slice(a, *rand_slice(rng, b.lens[a])) if rng.random() < 0.6 else b.whole(a)
    den = Den(b.pm(False))
    g0 = pick_gate(rng, den, [a2, a2, a], set())
    cur, t = plain(b, g0), "gate"
    inside = set(g0["k"])
    free = [i for i in range(b.lens[a])]
    rng.shuffle(free)
    multi = 0

    def side(excl):
        while free:
            i = free.pop()
            k = den.elem(a, i)
            if k not in excl:
                return ["gate", "X", [["q", a, i]]], k
        return None, None

    for lvl in range(D):
        opts = {"gate": ["seq", "par", "loop"], "par": ["seq", "loop"], "seq": ["par", "loop"], "loop": ["seq", "loop"]}[t]
        if kind == "alt" and "par" in opts and free:
            opts = ["par", "par", "loop"] if t == "seq" else ["seq", "par"]
        elif kind == "alt" and t in ("par", "loop"):
            opts = ["seq", "seq", "loop"]
        ch = rng.choice(opts)
        if ch == "par":
            s, k = side(inside)
            if s is None:
                ch = "loop" if t != "gate" else "seq"
            else:
                inside.add(k)
                cur, t = ["par", [cur, s] if rng.random() < 0.5 else [s, cur]], "par"
                continue
        if ch == "seq":
            extra = []
            if rng.random() < 0.15:
                gt = pick_gate(rng, den, [a, a2], set(), 1)
                extra = [plain(b, gt)]
                inside |= set(gt["k"])
            cur, t = ["seq", extra + [cur] if rng.random() < 0.5 else [cur] + extra], "seq"
        else:
            c = 1
            if multi < 3 and rng.random() < 0.1:
                c, multi = rng.choice([2, 3]), multi + 1
            cur, t = ["loop", c, cur if t == "seq" else ["seq", [cur]]], "loop"
    b.body.append(cur)
    if rng.random() < 0.5:
        b.body.append(plain(b, pick_gate(rng, den, [a2, a], set(), 1)))
    return n <= 12


def fam_macros(b, rng, D, kind):
    n = rng.choice([4, 5, 6])
    r = b.register(n)
    a = b.slice(r, *rand_slice(rng, n))
    while b.lens[a] < 3:
        b.maps.pop()
        b.cnt["alias"] -= 1
        a = b.slice(r, n - 1, -1, -1) if rng.random() < 0.5 else b.slice(r, 1, n, 1)
    a2 = b.slice(a, b.lens[a] - 1, -1, -1) if rng.random() < 0.5 else b.whole(a)
    den = Den(b.pm(False))
    regs = [a2, a2, a]
    if kind == "breadth":
        D = 2 * D
        marks = near(D, MARKS + [D - 1])
        called = set(rng.sample(marks, min(len(marks), 4)) + [rng.randrange(D)])
        calls = []
        for j in range(D):
            gt = pick_gate(rng, den, regs, set(), rng.choice([1, 2]))
            p = f"p{j % 3}"
            b.macros.append([f"M{j}", [p], "seq", [gstmt(gt, [lit(b, ref, 0.02) for ref in gt["q"]]), ["gate", "X", [["n", p]]]]])
            if j in called:
                ref = pick_gate(rng, den, regs + [r], set(), 1)["q"][0]
                calls.append(["gate", f"M{j}", [lit(b, ref)]])
        rng.shuffle(calls)
        b.body += calls
        return True
    gt = pick_gate(rng, den, regs, set(), 3 if kind == "chain_perm" else rng.choice([1, 2]))
    if gt is None or (kind in ("chain_i", "chain_r") and any(ref[1] is None for ref in gt["q"])):
        raise Invalid("no gate")
    k = len(gt["q"])
    if kind == "chain_r":
        pn = lambda lvl: [f"p{(lvl + j) % (2 * k)}" for j in range(2 * k)]       # noqa: E731
        p0 = pn(0)
        body0 = gstmt(gt, [["q", p0[2 * j], p0[2 * j + 1]] for j in range(k)])
        actual = [x for ref in gt["q"] for x in (["n", ref[0]], ["i", b.rep(ref[1], "index", 0.3)])]
        width = 2 * k
    else:
        pn = lambda lvl: [f"p{(lvl + j) % k}" if kind != "chain_q" else f"p{j}" for j in range(k)]      # noqa: E731
        p0 = pn(0)
        if kind == "chain_i":
            body0 = gstmt(gt, [["q", ref[0], p0[j]] for j, ref in enumerate(gt["q"])])
            actual = [["i", b.rep(ref[1], "index", 0.3)] for ref in gt["q"]]
        else:
            body0 = gstmt(gt, [["n", p0[j]] for j in range(k)])
            actual = [lit(b, ref) for ref in gt["q"]]
        width = k
    b.macros.append(["M0", p0, "seq", [body0]])
    perm = list(range(width))          # position in M0 of the value at position j of the current level
    for lvl in range(1, D):
        ps = pn(lvl)
        sh = list(range(width))
        if kind in ("chain_perm", "chain_i") and width > 1 and rng.random() < 0.6:
            rng.shuffle(sh)
        # level lvl passes its parameter sh[j] at position j of the call of level lvl-1
        tag = (lambda j: "i") if kind == "chain_i" else (lambda j: "i" if kind == "chain_r" and j % 2 else "n")
        call = ["gate", f"M{lvl - 1}", [[tag(j), ps[sh[j]]] for j in range(width)]]
        stmts = [call]
        if D <= 70 and rng.random() < 0.1:          # (deeper chains stay below the interpreter's recursion limit)
            stmts = [["loop", 1, ["seq", [call]]]]
        b.macros.append([f"M{lvl}", ps, "seq", stmts])
        perm = _compose(perm, sh)
    # the top-level call must hand value j (in M0's order) to the position that ends up at j
    top = [None] * width
    for pos_top in range(width):
        top[pos_top] = actual[perm[pos_top]]
    b.body.append(["gate", f"M{D - 1}", top])
    if rng.random() < 0.4:
        b.body.append(plain(b, pick_gate(rng, den, regs, set(), 1)))
    return True


def _compose(perm, sh):
    """perm[j] = position in M0 reached by the value at position j of the level below; the level above passes its
    parameter sh[j] to position j, so the value at position sh[j] of the level above reaches perm[j]"""
    out = [None] * len(perm)
    for j, src in enumerate(sh):
        out[src] = perm[j]
    return out


KEYWORDS = {"register", "map", "let", "macro", "loop", "import", "usepulses", "from", "as", "branch", "subcircuit"}
DUNDER = ["__macro__", "__c10", "__r0", "__c0", "__r1", "__c1", "__in_context_parallel__", "__in_context__", "__init__",
          "__class__", "_", "__", "_._", "___", "__r10", "__c11", "__name__"]
KWISH = ["registe", "registers", "register_", "ma", "maps", "map.x", "le", "lets", "let.k", "macr", "macros", "loo", "loops",
         "loop.i", "impor", "fro", "from.x", "as_", "a.s", "usepulse", "branc", "subcircui", "subcircuits", "prepare_al",
         "prepare_all_", "prepare_all.q", "measure_al", "measure_all.x", "measure_all_", "Register", "MAP", "Let", "LOOP",
         "pi", "inf", "nan", "True", "None", "e", "I_X", "X", "CX", "Sx", "M0", "M1", "prepare_all", "measure_all", "N", "P"]


def name_pool(rng, kind, size):
    base = rng.choice(["q", "a", "r", "k", "cal", "M", "X", "p", "s", "r0"])
    fam = [base, base + "." + base, base + "." + base + "." + base, base + "_", "_" + base, base + ".0", base + "0",
           base + ".x", "x." + base, base + base, base + ".a", "a." + base, base + "._", base.upper() + "." + base.lower(),
           base + ".1", base + "1", base + ".q", "q." + base]
    ln = size if size >= 255 else rng.choice([255, 256, 257])
    long = ["n" * ln, "n" * (ln - 1) + "m", "n" * (ln - 2) + ".n", "a." * (ln // 2) + "z", "n" * ln + "0", "_" * ln,
            "n" * (ln + 1), "n" * (ln - 1), "N" + "n" * (ln - 1), "n" * ln + ".n"]
    pool = {"fam": fam, "dunder": DUNDER + fam[:4], "kw": KWISH, "long": long + fam[:3],
            "mix": fam[:8] + rng.sample(DUNDER, 6) + rng.sample(KWISH, 10) + long[:3]}[kind]
    pool = list(dict.fromkeys(pool))
    rng.shuffle(pool)
    return pool


def make_namer(rng, pool):
    gates = set(E.lib()["GATES"]) | {"prepare_all", "measure_all"}
    state = {"hdr": set(), "mac": set()}

    def namer(bb, role, j, avoid):
        if role == "macro":
            for nm in pool:
                if nm not in gates and nm not in state["mac"] and nm not in KEYWORDS:
                    state["mac"].add(nm)
                    return nm
            nm = f"Mac.{j}"
            state["mac"].add(nm)
            return nm
        if role == "param":
            shadow = [n for n in state["hdr"] if n not in avoid and n != bb.reg[0]]
            if shadow and rng.random() < 0.5:
                return rng.choice(sorted(shadow))
            for nm in pool:
                if nm not in avoid and nm not in state["hdr"] and nm not in KEYWORDS and nm not in gates:
                    return nm
            return f"prm.{j}"
        for nm in pool:
            if nm not in state["hdr"] and nm not in KEYWORDS:
                state["hdr"].add(nm)
                return nm
        nm = f"{role}.{j}"
        state["hdr"].add(nm)
        return nm

    return namer


def small_program(b, rng):
    n = rng.choice([4, 5, 6])
    r = b.register(n)
    names = [r]
    src = r
    for _ in range(rng.choice([1, 2, 2, 3, 4])):
        if b.lens[src] < 2:
            src = rng.choice(names[:-1]) if len(names) > 1 else r
        src = b.slice(src, *rand_slice(rng, b.lens[src])) if rng.random() < 0.85 else b.whole(src)
        names.append(src)
    cands = names[1:] * 2 + [names[-1]] * 2 + [r]
    for _ in range(rng.choice([0, 1, 2])):
        s = rng.choice(names)
        cands.append(b.qubit(s, idx_pick(rng, b.lens[s])))
    fill_body(b, rng, cands, rng.choice([2, 3, 4]))
    return True


def fam_names(b, rng, size, kind):
    b.namer = make_namer(rng, name_pool(rng, kind, size))
    b.plet = 0.45
    return small_program(b, rng)


def fam_options(b, rng, size, kind):
    b.plet = 0.55
    return small_program(b, rng)


FAMS = {"chain": fam_chain, "lets": fam_lets, "aliases": fam_aliases, "qubits": fam_qubits, "statements": fam_statements,
        "nest": fam_nest, "macros": fam_macros, "names": fam_names, "options": fam_options}


def has_param_index(pm):
    """some macro body indexes a register by a parameter, or indexes a parameter: fill_in_map is not applicable before
    expansion"""
    def walk(s, params):
        if s[0] == "gate":
            return any(a[0] == "q" and (a[1] in params or (isinstance(a[2], str) and a[2] in params)) for a in s[2])
        if s[0] == "loop":
            return walk(s[2], params)
        return any(walk(x, params) for x in s[1])
    return any(walk([kind, body], set(params)) for _, params, kind, body in pm["macros"])


def find_override(b, pm, rng):
    """other values for one or two lets used as a start / index / count that keep the program valid"""
    names = [n for n, _ in pm["lets"] if b.roles.get(n) in ("start", "index", "count", "stop")]
    if not names:
        return None
    env = dict((n, v) for n, v in pm["lets"])
    for _ in range(12):
        ov = {}
        for n in rng.sample(names, min(len(names), rng.choice([1, 1, 2]))):
            ov[n] = env[n] + rng.choice([-1, 1, 1, 2])
        if all(v >= 1 or b.roles[n] != "count" for n, v in ov.items()) and valid(pm, ov):
            if any(Den(pm, ov).elem(m["name"], 0) != Den(pm).elem(m["name"], 0) for m in pm["maps"] if m["kind"] != "qubit") or \
                    any(b.roles[n] == "index" for n in ov):
                return ov
    return None


def mk_opts(desc, b, pm, rng):
    fam, size, thorough = desc["family"], desc["size"], desc.get("thorough", False)
    ov = find_override(b, pm, rng)
    if fam == "options":
        c = size + 5 * int(str(desc["rs"]).split(":")[0] or 0)
        o = {"parse": {"flags": FLAG_SETS[c % 8], "ov": OV_KINDS[(c // 8 + c) % 7], "ru": bool((c // 2) % 2)},
             "fil": OV_KINDS[(3 * c + 1) % 7], "pd": PD_KINDS[c % 4], "run": RUN_KINDS[(c // 4) % 4], "pipeline": c % 3 == 0}
    else:
        o = {"parse": {"flags": rng.choice(FLAG_SETS), "ov": rng.choice(OV_KINDS), "ru": rng.random() < 0.3}
             if rng.random() < 0.6 else None,
             "fil": rng.choice(OV_KINDS) if rng.random() < 0.6 else None,
             "pd": rng.choice(PD_KINDS), "run": rng.choice(RUN_KINDS), "pipeline": rng.random() < 0.4}
    if desc["entry"] != "text":
        o["parse"] = None
    if o["parse"] and has_param_index(pm):
        o["parse"]["flags"] = [f for f in o["parse"]["flags"] if f != "expand_let_map"]
    o["override"] = ov
    if ov is None:
        if o["parse"] and o["parse"]["ov"].startswith("changed"):
            o["parse"]["ov"] = "same"
        if o["fil"] and o["fil"].startswith("changed"):
            o["fil"] = "same"
    o["run_it"] = True
    if fam == "chain":
        if size > CHAIN_HEAVY:
            o.update(parse=None, fil=None, pipeline=False, run_it=False)
            pm["emulate"] = False
        elif size > 70 and not thorough:
            keep = rng.choice(["run", "fil", "parse", "pipeline", "run", "none"] + (["none"] * 4 if size > 100 else []))
            o["run_it"] = keep == "run"
            if keep != "fil":
                o["fil"] = None
            if keep != "parse":
                o["parse"] = None
            o["pipeline"] = keep == "pipeline"
        elif size > 70:
            keep = rng.sample(["run", "fil", "parse", "pipeline"], 2)
            o["run_it"] = "run" in keep
            if "fil" not in keep:
                o["fil"] = None
            if "parse" not in keep:
                o["parse"] = None
            o["pipeline"] = "pipeline" in keep
    return o


def gen_case(desc):
    """-> (program model, options) of a case descriptor, or (None, reason)"""
    for attempt in range(10):
        rng = random.Random(f"c06_scale:{desc['rs']}:{attempt}")
        b = B(rng)
        try:
            emulate = FAMS[desc["family"]](b, rng, desc["size"], desc["kind"])
        except (Invalid, IndexError, ValueError):
            continue
        pm = b.pm(bool(emulate))
        if not valid(pm):
            continue
        if pm["emulate"] and Den(pm).len[pm["reg"][0]] > EMU_MAX:
            pm["emulate"] = False
        return pm, mk_opts(desc, b, pm, rng)
    return None, "no valid program in 10 attempts"


# ------------------------------------------------------------------------------------------------------------------
# the check of one case

def build_circ(L, pm, entry):
    if entry == "text":
        return L["parse"](text_of(pm), inject_pulses=L["GATES"], autoload_pulses=False)
    return L["build"](sexpr_of(pm), inject_pulses=L["GATES"])


def ov_call(L, kind, pm, override):
    """-> (positional/keyword form of override_dict, the overriding values in effect)"""
    np = L["np"]
    if kind in (None, "absent"):
        return {}, None
    if kind == "none":
        return {"override_dict": None}, None
    if kind == "empty":
        return {"override_dict": {}}, None
    if kind == "same":
        return {"override_dict": {n: v for n, v in pm["lets"][:40]}}, None
    conv = {"changed": int, "changed_float": float, "changed_np": np.int64}[kind]
    # (a double / an int64 holds the value exactly, or the plain integer is handed over)
    return {"override_dict": {k: conv(v) if abs(v) < 2**53 else v for k, v in override.items()}}, dict(override)


def involves(a, params):
    if a[0] == "q":
        return a[1] in params or (isinstance(a[2], str) and a[2] in params)
    return isinstance(a[1], str) and a[1] in params


def flat_my(s, out):
    if s[0] == "gate":
        out.append(s)
    elif s[0] == "loop":
        flat_my(s[2], out)
    else:
        for x in s[1]:
            flat_my(x, out)
    return out


class Check:
    def __init__(self, case, pm, opts):
        self.L = E.lib()
        self.case, self.pm, self.opts = case, pm, opts
        self.mt = macro_table(pm)
        self.checks, self.info = [], []
        self.off = 1 if pm["emulate"] else 0

    def rec(self, name, ok, detail=""):
        self.checks.append((name, bool(ok), "" if ok else short(detail, 700)))

    # --- walking the library's objects
    def flat_lib(self, s, out):
        L = self.L
        if isinstance(s, L["GateStatement"]):
            out.append(s)
        elif isinstance(s, L["LoopStatement"]):
            self.flat_lib(s.statements, out)
        else:
            for x in s.statements:
                self.flat_lib(x, out)
        return out

    def top(self, circ):
        st = list(circ.body.statements)
        return st[self.off:len(st) - self.off] if self.off else st

    def check_q(self, view, oracle, fundamental, v, k, den, what):
        L = self.L
        if not isinstance(v, L["NamedQubit"]):
            self.rec(oracle, False, f"{view}: {what}: argument {v!s:.60} is not a qubit, the reference denotes {den.fund}[{k}]")
            return
        try:
            reg, got = v.resolve_qubit()
            ok = (isinstance(reg, L["Register"]) and reg.fundamental and reg.name == den.fund
                  and not isinstance(got, bool) and got == k)
            det = f"resolves to ({getattr(reg, 'name', reg)!s:.60}{'' if getattr(reg, 'fundamental', False) else ' (not fundamental)'}, {got!s:.60})"
        except Exception as e:  # noqa: BLE001
            ok, det = False, f"resolve_qubit raises {type(e).__name__}: {str(e)[:120]}"
        if ok and fundamental:
            af = v.alias_from
            ok = (isinstance(af, L["Register"]) and af.fundamental and af.name == den.fund
                  and not isinstance(v.alias_index, bool) and isinstance(v.alias_index, (int, float)) and v.alias_index == k)
            det = f"is written {v.name!s:.60} (from {getattr(af, 'name', af)!s:.40}, index {v.alias_index!s:.40})"
        self.rec(oracle, ok, f"{view}: {what}: {v.name!s:.80} {det}, the reference denotes {den.fund}[{k}]")

    def cmp_literal(self, view, oracle, fundamental, den, mine, libs, params=()):
        """statement lists before macro expansion: every argument that does not involve a macro parameter"""
        if [g[1] for g in mine] != [g.name for g in libs]:
            self.rec(oracle, False, f"{view}: gates {short([g.name for g in libs], 200)} expected {short([g[1] for g in mine], 200)}")
            return
        for g, lg in zip(mine, libs):
            vals = list(lg.parameters.values())
            if len(vals) != len(g[2]):
                self.rec(oracle, False, f"{view}: {g[1]} has {len(vals)} arguments, expected {len(g[2])}")
                continue
            for a, v in zip(g[2], vals):
                if involves(a, params):
                    continue
                gr = ground(a, {}, den)
                if gr[0] == "qubit":
                    self.check_q(view, oracle, fundamental, v, gr[1], den, stmt_text(g)[:120])

    def cmp_expanded(self, view, oracle, fundamental, den, circ):
        L = self.L
        want = []
        for s in self.pm["body"]:
            ops_of(s, {}, den, self.mt, False, want)
        libs = [g for g in self.flat_lib(circ.body, []) if g.name not in ("prepare_all", "measure_all")]
        if [w[0] for w in want] != [g.name for g in libs]:
            self.rec(oracle, False, f"{view}: gates {short([g.name for g in libs], 200)} expected {short([w[0] for w in want], 200)}")
            return libs, want
        for (nm, ks, _), lg in zip(want, libs):
            qs = [v for v in lg.parameters.values() if isinstance(v, (L["NamedQubit"], L["Register"]))]
            if len(qs) != len(ks):
                self.rec(oracle, False, f"{view}: {nm} has {len(qs)} qubit arguments, expected {len(ks)}")
                continue
            for v, k in zip(qs, ks):
                self.check_q(view, oracle, fundamental, v, k, den, nm)
        return libs, want

    def used_eq(self, view, oracle, obj, want, den, what):
        try:
            got = {k: set(v) for k, v in self.L["used"](obj).items() if v}
            ok = got == ({den.fund: want} if want else {})
            det = short(str(got), 300)
        except Exception as e:  # noqa: BLE001
            ok, det = False, f"raises {type(e).__name__}: {str(e)[:120]}"
        self.rec(oracle, ok, f"{view}: get_used_qubit_indices({what}) = {det}, the references denote {den.fund}{short(str(sorted(want)), 200)}")

    # --- views
    def view_unexpanded(self, view, circ, den, o_res="resolve_qubit_index", o_used="used_qubits_index",
                        o_fim="fill_in_map_index", fundamental=False, fim=True):
        pm = self.pm
        tops = self.top(circ)
        if len(tops) != len(pm["body"]):
            self.rec(o_res, False, f"{view}: {len(tops)} top-level statements, expected {len(pm['body'])}")
            return
        allk = set()
        for j, (s, ls) in enumerate(zip(pm["body"], tops)):
            self.cmp_literal(view, o_res, fundamental, den, flat_my(s, []), self.flat_lib(ls, []) if not isinstance(ls, self.L["GateStatement"]) else [ls])
            ks = {q for _, qs, _ in ops_of(s, {}, den, self.mt, False, []) for q in qs}
            allk |= ks
            if j < 40 or j % 16 == 0 or j >= len(tops) - 3:
                self.used_eq(view, o_used, ls, ks, den, f"statement {j}: {stmt_text(s)[:80]}")
        for name, params, kind, body in pm["macros"]:
            mac = circ.macros.get(name)
            if mac is None:
                self.rec(o_res, False, f"{view}: macro {name[:60]} is missing")
                continue
            self.cmp_literal(f"{view} (body of macro {name[:40]})", o_res, fundamental, den, flat_my([kind, body], []),
                             self.flat_lib(mac.body, []), set(params))
        if pm["emulate"]:
            self.used_eq(view, o_used, circ, set(range(den.len[den.fund])), den, "circuit (prepare_all uses every qubit)")
        else:
            self.used_eq(view, o_used, circ.body, allk, den, "body")
        if fim and not fundamental and not has_param_index(pm):
            try:
                fm = self.L["fill_in_map"](circ)
            except Exception as e:  # noqa: BLE001
                self.rec(o_fim, False, f"{view}: fill_in_map of a valid program raises {type(e).__name__}: {str(e)[:160]}")
                return
            self.view_unexpanded(f"fill_in_map of {view}", fm, den, o_fim, o_fim, o_fim, True, False)

    def view_expanded(self, view, circ, den, o_res="resolve_qubit_index", o_used="used_qubits_index",
                      o_fim="fill_in_map_index", fundamental=False, fim=True, label=False):
        libs, want = self.cmp_expanded(view, o_res, fundamental, den, circ)
        allk = {q for _, qs, _ in want for q in qs}
        if self.pm["emulate"]:
            self.used_eq(view, o_used, circ, set(range(den.len[den.fund])), den, "circuit (prepare_all uses every qubit)")
        else:
            self.used_eq(view, o_used, circ.body, allk, den, "body")
        if label and self.L["label"] is not None and [w[0] for w in want] == [g.name for g in libs]:
            for (nm, ks, _), lg in zip(want[:60], libs[:60]):
                if "i" in self.L["SIG"][nm]:
                    continue        # (pyGSTi's Label misreads (name, qubit, ";", number): not C06's business, see c06_edge)
                try:
                    got = tuple(self.L["label"](lg).sslbls)
                    ok = len(got) == len(ks) and all(not isinstance(a, bool) and a == k for a, k in zip(got, ks))
                except Exception as e:  # noqa: BLE001
                    ok, got = False, f"{type(e).__name__}: {str(e)[:100]}"
                self.rec("emulator_label_index", ok, f"{view}: pygsti_label_from_statement({nm} ...) reads {got}, the references denote {ks}")
        if fim and not fundamental:
            try:
                fm = self.L["fill_in_map"](circ)
            except Exception as e:  # noqa: BLE001
                self.rec(o_fim, False, f"{view}: fill_in_map after expansion raises {type(e).__name__}: {str(e)[:160]}")
                return
            self.cmp_expanded(f"fill_in_map of {view}", o_fim, True, den, fm)

    def state(self, view, oracle, circ, den, run_kind="default"):
        L = self.L
        np = L["np"]
        n = den.len[den.fund]
        ops = []
        for s in self.pm["body"]:
            ops_of(s, {}, den, self.mt, True, ops)
        want = ref_state(L, n, ops)
        kw = {}
        if run_kind in ("backend", "emulator_backend"):
            from jaqalpaq.emulator.unitary import UnitarySerializedEmulator
            kw[run_kind] = UnitarySerializedEmulator()
        elif run_kind == "force_sim":
            kw["force_sim"] = True
        try:
            got = np.array(L["run"](circ, **kw).subcircuits[0].state_vector)
        except Exception as e:  # noqa: BLE001
            self.rec(oracle, False, f"{view}: run_jaqal_circuit({', '.join(kw) or ''}) raises {type(e).__name__}: {str(e)[:160]}")
            return
        ok = got.shape == want.shape and bool(np.allclose(got, want, atol=1e-9))
        det = ""
        if not ok:
            nz = lambda v: {int(i): complex(np.round(v[i], 3)) for i in np.flatnonzero(np.abs(v) > 1e-9)[:8]}      # noqa: E731
            det = f"{view}: run_jaqal_circuit({', '.join(kw)}) state (non-zero amplitudes) {nz(got)}, the gates on the denoted qubits give {nz(want)}"
        self.rec(oracle, ok, det)

    def guarded(self, oracle, what, f):
        r = E.guarded(f)
        if r[0] != "ok":
            self.rec(oracle, False, f"{what}: {r[0]} {r[1:]}")
            return None
        return r[1]

    def run(self):
        L, pm, o = self.L, self.pm, self.opts
        den = Den(pm)
        entry = self.case["entry"]
        c = self.guarded("front_end_accepts_valid_chain", f"{entry} front end on a valid program", lambda: build_circ(L, pm, entry))
        if c is None:
            return
        self.rec("front_end_accepts_valid_chain", True)
        self.guarded("resolve_qubit_index", "as built", lambda: self.view_unexpanded("as built", c, den) or True)
        # expand_macros and its optional parameter
        pd = o["pd"]
        pdkw = {"absent": ((), {}), "false": ((False,), {}), "true": ((True,), {}), "kw": ((), {"preserve_definitions": True})}[pd]
        orc = ("resolve_qubit_index", "used_qubits_index", "fill_in_map_index") if pd == "absent" else ("options_same_index",) * 3
        ex = self.guarded(orc[0], f"expand_macros({pd}) of a valid program", lambda: L["expand_macros"](c, *pdkw[0], **pdkw[1]))
        if ex is not None:
            # (with the definitions preserved, a body indexed by a parameter is still there: fill_in_map not applicable)
            fim = not (pd in ("true", "kw") and has_param_index(pm))
            self.guarded(orc[0], "after expand_macros", lambda: self.view_expanded(f"after expand_macros({pd})", ex, den, *orc, fim=fim) or True)
        # fill_in_let and its optional parameter
        if o["fil"]:
            kw, ov = ov_call(L, o["fil"], pm, o["override"])
            d1 = Den(pm, ov)
            orc = ("resolve_qubit_index", "used_qubits_index", "fill_in_map_index") if o["fil"] == "absent" else ("options_same_index",) * 3
            view = f"fill_in_let({short(str(kw), 120) if kw else ''})"
            pos = o["fil"] != "absent" and self.case["id"] % 2 == 0
            f = self.guarded(orc[0], view, lambda: L["fill_in_let"](c, kw["override_dict"]) if pos else L["fill_in_let"](c, **kw))
            if f is not None:
                self.guarded(orc[0], view, lambda: self.view_unexpanded(view, f, d1, *orc) or True)
                fx = self.guarded(orc[0], "expand_macros of " + view, lambda: L["expand_macros"](f))
                if fx is not None:
                    self.guarded(orc[0], view, lambda: self.view_expanded("expand_macros of " + view, fx, d1, *orc) or True)
                if pm["emulate"] and o["run_it"] and ov:
                    self.guarded("options_same_index", view, lambda: self.state(view, "options_same_index", f, d1) or True)
        # the options of parse_jaqal_string
        if o["parse"] and entry == "text":
            po = o["parse"]
            kw, ov = ov_call(L, po["ov"], pm, o["override"])
            kw.update({f: True for f in po["flags"]})
            if po["ru"]:
                kw["return_usepulses"] = True
            lets_filled = "expand_let" in po["flags"] or "expand_let_map" in po["flags"]
            d1 = Den(pm, ov if lets_filled else None)
            view = "parse_jaqal_string(" + short(str({k: v for k, v in kw.items()}), 160) + ")"
            orc = ("options_same_index",) * 3
            p = self.guarded(orc[0], view, lambda: L["parse"](text_of(pm), inject_pulses=L["GATES"], autoload_pulses=False, **kw))
            if p is not None and po["ru"]:
                if not (isinstance(p, tuple) and len(p) == 2):
                    self.rec(orc[0], False, f"{view}: not a pair")
                    p = None
                else:
                    p = p[0]
            if p is not None:
                fund = "expand_let_map" in po["flags"]
                if "expand_macro" in po["flags"]:
                    # (parse_jaqal_string expands with preserve_definitions=True)
                    self.guarded(orc[0], view, lambda: self.view_expanded(view, p, d1, *orc, fundamental=fund,
                                                                          fim=not has_param_index(pm)) or True)
                else:
                    self.guarded(orc[0], view, lambda: self.view_unexpanded(view, p, d1, *orc, fundamental=fund) or True)
                if pm["emulate"] and o["run_it"] and (ov or fund) and self.case["family"] != "chain":
                    self.guarded(orc[0], view, lambda: self.state(view, orc[0], p, d1) or True)
        # what the emulator reads
        if o["pipeline"]:
            pipe = self.guarded("resolve_qubit_index", "emulator pipeline (expand_subcircuits, fill_in_let, expand_macros)",
                                lambda: L["expand_macros"](L["fill_in_let"](L["expand_subcircuits"](c))))
            if pipe is not None:
                self.guarded("resolve_qubit_index", "emulator pipeline",
                             lambda: self.view_expanded("emulator pipeline", pipe, den, fim=False, label=True) or True)
        if pm["emulate"] and o["run_it"]:
            orc = "emulator_state" if o["run"] == "default" else "options_same_index"
            self.guarded(orc, "run_jaqal_circuit", lambda: self.state("run_jaqal_circuit", orc, c, den, o["run"]) or True)


def check_case(case):
    """-> (checks, info, pm, opts)"""
    pm, opts = gen_case(case)
    if pm is None:
        return [], ["generator: " + opts], None, None
    ck = Check(case, pm, opts)
    ck.run()
    return ck.checks, ck.info, pm, opts


# ------------------------------------------------------------------------------------------------------------------

def features(case, pm, opts):
    f = [f"family: {case['family']}", f"family: {case['family']} / {case['kind']}", f"entry: {case['entry']}",
         f"{case['family']} size: {case['size']}", "emulated" if pm["emulate"] else "not emulated"]
    depth, by = 0, {}
    for m in pm["maps"]:
        by[m["name"]] = by.get(m["src"], 0) + 1
        depth = max(depth, by[m["name"]])
    for t in (8, 16, 32, 64, 128, 256, 1000):
        if depth >= t:
            f.append(f"alias chain depth >= {t}")
        if len(pm["lets"]) >= t:
            f.append(f"lets >= {t}")
        if len(pm["maps"]) >= t:
            f.append(f"map statements >= {t}")
        if len(pm["macros"]) >= t:
            f.append(f"macros >= {t}")
        if max([len(n) for n, _ in pm["lets"]] + [len(m["name"]) for m in pm["maps"]] + [len(pm["reg"][0])]) >= t:
            f.append(f"identifier length >= {t}")
    names = [n for n, _ in pm["lets"]] + [m["name"] for m in pm["maps"]] + [pm["reg"][0]] + [m[0] for m in pm["macros"]]
    if any("." in n for n in names):
        f.append("dotted identifier")
    if any(n.startswith("__") for n in names):
        f.append("dunder identifier")
    hdr = set(names)
    if any(p in hdr for m in pm["macros"] for p in m[1]):
        f.append("macro parameter named like a let / alias")
    if any(m.get("stop") == -1 for m in pm["maps"]):
        f.append("reversal with stop -1")
    if opts["parse"]:
        f.append("parse flags: " + (",".join(opts["parse"]["flags"]) or "none"))
        f.append("parse override_dict: " + opts["parse"]["ov"])
        if opts["parse"]["ru"]:
            f.append("parse return_usepulses=True")
    if opts["fil"]:
        f.append("fill_in_let override_dict: " + opts["fil"])
    f.append("expand_macros preserve_definitions: " + opts["pd"])
    if pm["emulate"] and opts["run_it"]:
        f.append("run_jaqal_circuit: " + opts["run"])
    if opts["pipeline"]:
        f.append("emulator pipeline view")
    return f


def schedule(seed, n, thorough):
    """the case descriptors of a run: families in a fixed rotation, the sizes of each family in a fixed order starting at
    an offset that depends on the seed, so that a small n already crosses every threshold"""
    cnt = {}
    out = []
    for i in range(n):
        fam = SCHEDULE[(i + seed) % len(SCHEDULE)]
        j = cnt.get(fam, 0)
        cnt[fam] = j + 1
        sizes, kinds = SIZES[fam], KINDS[fam]
        size = sizes[(j + 3 * seed) % len(sizes)]
        kind = kinds[(j + j // len(sizes) + seed) % len(kinds)]
        out.append({"id": i, "family": fam, "size": size, "kind": kind, "rs": f"{seed}:{i}",
                    "entry": "sexpr" if (i + seed) % 4 == 3 else "text", "thorough": bool(thorough)})
    return out


def run(seed: int, n: int, driver: str = DEFAULT_DRIVER, thorough: bool = False) -> dict:
    E.lib()
    if thorough or "pygsti" in sys.modules:
        E.load_label()
    if thorough:
        n = n * 5
    oracle = {k: {"cases": 0, "failures": [], "total": 0} for k in ORACLES}
    dist, samples, distinct = {}, [], set()

    def bump(k, v=1):
        dist[k] = dist.get(k, 0) + v

    for case in schedule(seed, n, thorough):
        checks, info, pm, opts = check_case(case)
        bump("cases")
        for s in set(info):
            bump("info: " + s)
        if pm is None:
            continue
        failed = set()
        for name, ok, detail in checks:
            oracle[name]["cases"] += 1
            if not ok:
                oracle[name]["total"] += 1
                if name not in failed and len(oracle[name]["failures"]) < 20:
                    failed.add(name)
                    oracle[name]["failures"].append({"case": case, "detail": detail + " | program: " + short(text_of(pm), 500)})
        for f in features(case, pm, opts):
            bump(f)
        distinct.add(json.dumps([pm["lets"], pm["reg"], pm["maps"], pm["macros"], pm["body"]], sort_keys=True, default=str))
        if len(samples) < 4:
            samples.append({"case": case, "text": short(text_of(pm), 600)})
    return {"corr": {}, "oracle": oracle, "distribution": dict(sorted(dist.items())), "samples": samples,
            "nontrivial": len(distinct)}


def replay(case: dict, driver: str = DEFAULT_DRIVER) -> dict:
    E.lib()
    E.load_label()
    case = dict(case.get("case", case)) if "family" not in case else dict(case)
    checks, info, pm, opts = check_case(case)
    fails = [f"{name}: {detail}" for name, ok, detail in checks if not ok]
    out = {"oracle_ok": not fails, "detail": "; ".join(fails[:4]) or "ok"}
    if pm is not None:
        out["text"] = short(text_of(pm), 3000)
        out["options"] = short(str(opts), 600)
    return out


def main():
    ap = argparse.ArgumentParser()
    ap.add_argument("--seed", type=int, default=0)
    ap.add_argument("--n", type=int, default=48)
    ap.add_argument("--thorough", action="store_true")
    a = ap.parse_args()
    res = run(a.seed, a.n, thorough=a.thorough)
    bad = 0
    for name, d in res["oracle"].items():
        bad += d["total"]
        print(f"oracle {name:32} cases {d['cases']:6}  failures {d['total']}")
        for x in d["failures"][:3]:
            print("    ", x["detail"][:1200])
            print("     case:", short(x["case"], 400))
    for k, v in res["distribution"].items():
        print(f"  {k}: {v}")
    print("nontrivial:", res["nontrivial"])
    sys.exit(0 if bad == 0 else 1)


if __name__ == "__main__":
    main()
