#!/venv/bin/python
"""C10 at SCALE, with unusual identifiers, and through every default / optional parameter (fourth-round stream).

    PYTHONPATH=/verif /venv/bin/python /verif/harness/agents/c10_scale.py [--seed 0] [--n 66] [--thorough]

`n` is the number of generated programs in both tiers (recommended: 66 quick, 200 thorough; the thorough tier also lifts
the quick tier's size limits and runs more histories / flag combinations per program).

Oracles only.  Every program is generated from a small structured SPEC of this script; the text is printed from the
spec, and the expected meaning is computed from the spec by an independent reference (`ref_meaning`: let = its value
(or the override in force), map = the qubits it selects, macro call = its body with the arguments bound, same-kind
nested blocks spliced, subcircuit blocks spelled `prepare_all … measure_all` iff expand_subcircuits is in the history).
The meaning of a library circuit is read off its OBJECTS by this script (`obj_meaning`: attributes only, no library
pass, no resolve_qubit), so a result that still has lets / aliases / macro calls has a meaning without completing it
with the passes under test.

What is scaled (ONE dimension per case crosses 8 / 16 / 32 / 64 / 128 / 256 / 1000, everything else stays small):
  macro_chain   macros calling macros N deep (arguments swapped at every level; N <= 110: the library recurses)
  macro_wide    N macro definitions          lets_wide    N lets            alias_chain  alias of alias … N deep (<= 130)
  alias_wide    N aliases (random tree)      nest         N nested blocks   stmts        N statements in ONE block
  calls         N calls of three macros      params       macro with N parameters, native gate with N arguments
  counts        loop / subcircuit counts and register size N, strided and reversed slices over it
  long_names    identifiers N characters long
Names are drawn per case from a STYLE — plain, dotted (`cal.x`), pairs that differ by a dotted prefix / suffix, dunder,
prefixes / extensions of keywords and of prepare_all / measure_all, look-alikes of the library's internal markers
(`__in_context__`, `p0`, `array_item`, `gate`, `circuit` …), the formal parameter names of the native gates (`p0` … `p13`,
`q k c t a b`), numbered (`a2` / `a10`), case variants — and are assigned
in RANDOM order, so the order of declaration is never the alphabetical one (an alias is usually declared after an alias
that sorts behind it); header statements are interleaved as far as define-before-use allows.
DEFAULTS: every pass is called through all its call shapes (fill_in_let(c) / (c, None) / (c, {}) / positional /
keyword; expand_macros(c) / positional / keyword preserve_definitions; expand_subcircuits(c) / with the bounding names
spelled out); parse_jaqal_string / parse_jaqal_file × the three flags × override_dict absent / None / {} / given ×
return_usepulses.  Override VALUES: int, float, integral float, bool-free numpy int64 / int32 / float64.

oracle
  meaning_after_history   after EVERY prefix of a history (2 random orders of one multiset of passes + one history with
                          repetitions and trips through text `parse(generate(c))`): obj_meaning(result) == the reference
                          meaning of the spec under that prefix (hence all orders agree: commutation up to meaning)
  idempotent              P(P(x)) == P(x) for the real `==` (both directions) and equal structure, at every step
  legal_after_pass        every prefix result: generate_jaqal_program succeeds, the text parses (same gate set), the
                          re-parsed circuit has the meaning of the result
  flags_equal_passes      parse with flags / override / return_usepulses / string|file vs the passes applied by hand to
                          the plain parse: same error class, or `==` both ways, equal structure, the reference meaning
  input_not_modified      the plain parse has the same structure and meaning after all histories as before
  applicable              a pass refuses (JaqalError) a plain parse or a pass result of these programs — valid under the
                          overrides by construction — only where the check's assumptions say so: fill_in_map while the
                          macro table still holds a body that indexes a parameter / by a parameter (refusals under an
                          override of a let that occurs in an index / bound / size are counted, not judged)
  only_jaqal_errors       a pass / the generator / the parser raise nothing but JaqalError
Side condition for fill_in_map (bakes DECLARED let values into qubit references): an order in which fill_in_map precedes
the first fill_in_let only overrides lets that occur in no index, slice or size.
"""
import argparse
import json
import os
import random
import signal
import sys
import tempfile
from collections import Counter

DEFAULT_DRIVER = "/verif/lean/.lake/build/bin/jaqal-model"

KEYWORDS = {"register", "map", "let", "macro", "loop", "import", "usepulses", "from", "as", "branch", "subcircuit"}
BOUNDING = {"prepare_all", "measure_all"}
FAMILIES = ["macro_chain", "macro_wide", "lets_wide", "alias_chain", "alias_wide", "nest", "stmts", "calls", "params",
            "counts", "long_names"]
STYLES = ["plain", "dotted", "dotpairs", "dunder", "kwprefix", "internal", "numbered", "case", "formal"]
# sizes around the thresholds (and the sizes the missed seeds used)
SIZES = [7, 8, 9, 11, 12, 14, 15, 16, 17, 20, 24, 25, 26, 31, 32, 33, 34, 40, 48, 49, 63, 64, 65, 100, 127, 128, 129, 200,
         255, 256, 257, 1000]
CAP = {"macro_chain": 110, "alias_chain": 130, "nest": 100, "params": 257, "long_names": 1000}
# quick tier: most of the cases of these families stay below (the rest, and the thorough tier, go to CAP)
CAP_QUICK = {"alias_chain": 66, "macro_chain": 101, "nest": 66, "macro_wide": 257, "alias_wide": 257, "params": 129}
# native gates: name -> slots (q qubit, i integer, f number)
GATE_NAMES = ["X", "Y", "Z", "S", "SX", "N", "P", "PF", "CX", "CZ", "SWAP", "ISWAP", "HH", "NS", "CCX", "ROT3"]   # harness.gates
MENU_GATES = [("X", "q"), ("Y", "q"), ("SX", "q"), ("CX", "qq"), ("CZ", "qq"), ("P", "qi"), ("PF", "fq"), ("CCX", "qqq")]


def _imports():
    global T, GATES, parse_jaqal_string, parse_jaqal_file, generate_jaqal_program, np
    global expand_macros, fill_in_let, fill_in_map, expand_subcircuits, JaqalError
    global Constant, Parameter, Register, NamedQubit, BlockStatement, LoopStatement, GateStatement, Macro
    import numpy as np
    from harness import timeouts as T
    from harness.gates import GATES
    from jaqalpaq.parser import parse_jaqal_string, parse_jaqal_file
    from jaqalpaq.generator import generate_jaqal_program
    from jaqalpaq.core.algorithm import expand_macros, fill_in_let, expand_subcircuits
    from jaqalpaq.core.algorithm.fill_in_map import fill_in_map
    from jaqalpaq.core.constant import Constant
    from jaqalpaq.core.parameter import Parameter
    from jaqalpaq.core.register import Register, NamedQubit
    from jaqalpaq.core.block import BlockStatement, LoopStatement
    from jaqalpaq.core.gate import GateStatement
    from jaqalpaq.core.macro import Macro
    from jaqalpaq.error import JaqalError


# ------------------------------------------------------------------------------------------------ names

_KW_POOL = ["le", "lets", "let_", "letx", "loo", "loops", "loopy", "loop_", "ma", "maps", "mapp", "map_", "mac", "macr",
            "macros", "macro_", "reg", "registe", "registers", "register_", "fro", "from_", "froms", "a", "as_", "ass",
            "asx", "bran", "branchy", "branch_", "impor", "imports", "import_", "usepulse", "usepulsess", "sub",
            "subcircui", "subcircuits", "subcircuit_", "prepare", "prepare_al", "prepare_all_", "prepare_alll",
            "prepare_all.x", "measure", "measure_al", "measure_all_", "measure_all2", "measure_all.x", "loop.a",
            "let.x", "x.let", "map.map", "subcircuit.x", "x.subcircuit", "register.r", "macro.m", "from.as"]
_INTERNAL_POOL = ["p0", "p1", "p2", "p3", "p10", "p11", "array_item", "gate", "circuit", "sequential_block",
                  "parallel_block", "subcircuit_block", "unscheduled_block", "usepulses_", "all", "None", "True",
                  "False", "self", "cls", "lambda", "def", "class", "body", "statements", "iterations", "parameters",
                  "name", "alias_from", "alias_index", "native_gates", "__in_context__", "__in_context__parallel", "__in_context__subcircuit",
                  "__in_context__sequential", "inf", "nan", "e5", "E", "j",
                  "I", "case", "block", "sexpr", "context", "gate_def", "size", "value", "kind", "fundamental"]
_DUNDER_POOL = ["__macro__", "__c10", "__r0", "__x__", "_", "__", "___", "_0", "__init__", "__in_context__",
                "__name__", "_p0", "__class__", "__dict__", "_1_", "__0", "__let__", "__map", "__reg__", "_._", "__.__"]
_LETTERS = "abcdefghijklmnopqrstuvwxyz"


class Names:
    """fresh identifiers of one style; never a keyword, never twice the same"""

    def __init__(self, rng, style, length=None, reserved=()):
        self.rng, self.style, self.length = rng, style, length
        self.used = set(KEYWORDS) | set(reserved)
        self.count = 0
        self.bases = []
        self.stem = "".join(rng.choice(_LETTERS) for _ in range(rng.randrange(1, 3)))
        self.order = list(range(4000))
        rng.shuffle(self.order)

    def _plain(self):
        r = self.rng
        s = "".join(r.choice(_LETTERS + "ABCXYZ_") for _ in range(r.randrange(1, 4)))
        if r.random() < 0.3:
            s += str(r.randrange(100))
        if s[0].isdigit():
            s = "v" + s
        return s

    def _candidate(self):
        r, st = self.rng, self.style
        if st == "plain":
            return self._plain()
        if st == "dotted":
            segs = [self._plain()] + [r.choice([self._plain(), str(r.randrange(20)), "x", "cal", "1a"])
                                      for _ in range(r.randrange(1, 3))]
            return ".".join(segs)
        if st == "dotpairs":
            if self.bases and r.random() < 0.75:
                b = r.choice(self.bases)
                s = r.choice(["a", "x", b.split(".")[0], "0", "_"])
                c = r.choice([b + "." + s, (s if not s[0].isdigit() else "n" + s) + "." + b, b + "." + b, b + "_",
                              "_" + b, b + ".0"])
            else:
                c = self._plain()
            self.bases.append(c)
            return c
        if st == "dunder":
            if r.random() < 0.6:
                return r.choice(_DUNDER_POOL)
            return "__" + self._plain() + r.choice(["", "__", "_"])
        if st == "kwprefix":
            return r.choice(_KW_POOL) if r.random() < 0.8 else r.choice(sorted(KEYWORDS)) + r.choice(["s", "_", ".x", "0", "X"])
        if st == "internal":
            return r.choice(_INTERNAL_POOL)
        if st == "formal":
            # the names of the formal parameters of the native gates: p0, p1, … of an undeclared gate, q k c t a b of harness.gates
            return r.choice(["p%d" % i for i in range(14)] + ["q", "k", "c", "t", "a", "b"] * 2)
        if st == "numbered":
            self.count += 1
            return self.stem + str(self.order[self.count % len(self.order)])
        if st == "case":
            b = self._plain().lower()
            return "".join(ch.upper() if r.random() < 0.5 else ch for ch in b)
        if st == "long":
            # long names with a long common prefix: they differ at the very end or in the middle
            n = max(self.length or 300, 4)
            self.count += 1
            tag = str(self.order[self.count])
            if r.random() < 0.5:
                return ("L" * (n - len(tag))) + tag
            h = (n - len(tag)) // 2
            return "L" * h + tag + "L" * (n - len(tag) - h)
        raise KeyError(st)

    def fresh(self):
        for _ in range(6):
            c = self._candidate()
            if c not in self.used:
                self.used.add(c)
                return c
        # the style's pool is exhausted: extend a candidate in the manner of the style
        while True:
            self.count += 1
            c = self._candidate()
            k = self.order[self.count % len(self.order)]
            c = c + (".n%d" % k if self.style in ("dotted", "dotpairs", "kwprefix") else "_%d" % k)
            if c not in self.used:
                self.used.add(c)
                return c


# ------------------------------------------------------------------------------------------------ spec -> text

def fmt_num(v):
    if isinstance(v, float):
        t = repr(v)
        if "e" in t:
            m, e = t.split("e")
            if "." not in m:
                m += ".0"
            t = m + "e" + e
        return t
    return str(v)


def fmt_arg(a):
    if a[0] == "q":
        return "%s[%s]" % (a[1], a[2])
    if a[0] == "n":
        return a[1]
    return fmt_num(a[1])


def fmt_sel(sel):
    if sel is None:
        return ""
    if sel[0] == "i":
        return "[%s]" % sel[1]
    _s, start, stop, step = sel
    t = ("" if start is None else str(start)) + ":" + ("" if stop is None else str(stop))
    if step is not None:
        t += ":" + str(step)
    return "[" + t + "]"


def fmt_block(b, nl=False):
    kind, items = b[0], b[-1]
    sep = "\n" if nl else (" | " if kind == "par" else " ; ")
    inner = sep.join(fmt_stmt(s) for s in items)
    if kind == "par":
        return "< " + inner + " >"
    head = ""
    if kind == "sub":
        head = "subcircuit " + ("" if b[1] is None else "%s " % b[1])
    return head + "{ " + inner + " }"


def fmt_stmt(s):
    if s[0] == "g":
        return " ".join([s[1]] + [fmt_arg(a) for a in s[2]])
    if s[0] == "loop":
        return "loop %s %s" % (s[1], fmt_block(s[2]))
    return fmt_block(s, nl=len(s[-1]) > 40)


def spec_text(spec):
    out = []
    for u in spec.get("usepulses", []):
        out.append("from %s usepulses *" % u)
    for h in spec["header"]:
        if h[0] == "let":
            out.append("let %s %s" % (h[1], fmt_num(h[2])))
        elif h[0] == "reg":
            out.append("register %s[%s]" % (h[1], h[2]))
        else:
            out.append("map %s %s%s" % (h[1], h[2], fmt_sel(h[3])))
    for s in spec["body"]:
        if s[0] == "macro":
            out.append("macro %s %s" % (" ".join([s[1]] + s[2]), fmt_block(s[3])))
        else:
            out.append(fmt_stmt(s))
    return "\n".join(out) + "\n"


# ------------------------------------------------------------------------------------------------ reference meaning

class RefError(Exception):
    pass


def norm_num(v):
    """numbers compare by value: an integral float is the integer"""
    if isinstance(v, bool):
        v = int(v)
    if isinstance(v, int):
        return ["n", str(v)]
    f = float(v)
    if f == f and f not in (float("inf"), float("-inf")) and f == int(f):
        return ["n", str(int(f))]
    return ["n", repr(f)]


def _letval(v):
    """the value a let holds: like a declared value, an integral float counts as the integer"""
    if isinstance(v, bool):
        return int(v)
    if isinstance(v, int):
        return int(v)
    f = float(v)
    if f == f and f not in (float("inf"), float("-inf")) and f == int(f):
        return int(f)
    return f


def _as_index(v, what):
    if isinstance(v, float) and v == int(v):
        v = int(v)
    if isinstance(v, bool) or not isinstance(v, int):
        raise RefError(f"{what} {v!r} is not an integer")
    return v


def _slice(base, start, stop, step, strict=True):
    start = 0 if start is None else start
    stop = len(base) if stop is None else stop
    step = 1 if step is None else step
    if step == 0:
        raise RefError("zero step")
    idx = list(range(start, stop, step))
    if strict and (start < 0 or stop > len(base) or any(i < 0 or i >= len(base) for i in idx)):
        raise RefError("slice out of range")
    return [base[i] for i in idx]


def flatten(kind, items):
    out = []
    for x in items:
        if x[0] == kind and kind in ("seq", "par"):
            out.extend(flatten(kind, x[1]))
        else:
            out.append(x)
    return out


def norm_tree(x):
    """splice directly nested blocks of one kind, below this node"""
    if x[0] == "g":
        return x
    if x[0] == "loop":
        b = norm_tree(x[2])
        return ["loop", x[1], b]
    if x[0] == "sub":
        return ["sub", x[1], flatten("seq", [norm_tree(y) for y in x[2]])]
    return [x[0], flatten(x[0], [norm_tree(y) for y in x[1]])]


def _declared_lengths(spec):
    """the size of every register and array alias under the declared let values"""
    lets, out = {}, {}
    for h in spec["header"]:
        if h[0] == "let":
            lets[h[1]] = _letval(h[2])
        elif h[0] == "reg":
            out[h[1]] = list(range(lets[h[2]] if isinstance(h[2], str) else h[2]))
        elif h[3] is None:
            out[h[1]] = out[h[2]]
        elif h[3][0] == "s":
            b = [None if x is None else (lets[x] if isinstance(x, str) else x) for x in h[3][1:]]
            out[h[1]] = _slice(out[h[2]], b[0], b[1], b[2], strict=False)
    return {k: len(v) for k, v in out.items()}


PREPARE = ["g", "prepare_all", []]
MEASURE = ["g", "measure_all", []]


def ref_meaning(spec, ov, subs):
    """the meaning of the program of `spec` when the lets named in `ov` have the given values and (subs) every
    subcircuit block is spelled out; RefError when the program is not valid under these values"""
    lets, regs, macros = {}, {}, {}
    # an omitted slice stop is fixed when the text is parsed: it is the DECLARED size of the source (and follows an
    # override only when the source is the register itself, sized by a let)
    declared = {}
    let_sized = {h[1]: h[2] for h in spec["header"] if h[0] == "reg" and isinstance(h[2], str)}
    if ov and any(h[0] == "map" and h[3] is not None and h[3][0] == "s" and h[3][2] is None for h in spec["header"]):
        declared = _declared_lengths(spec)
    for h in spec["header"]:
        if h[0] == "let":
            v = ov.get(h[1], h[2])
            lets[h[1]] = _letval(v)
        elif h[0] == "reg":
            n = _as_index(lets[h[2]] if isinstance(h[2], str) else h[2], "register size")
            if n < 1:
                raise RefError("register size")
            regs[h[1]] = list(range(n))
        else:
            base = regs[h[2]]
            if not isinstance(base, list):
                raise RefError("map of a qubit")
            sel = h[3]

            def val(x):
                return None if x is None else _as_index(lets[x] if isinstance(x, str) else x, "bound")
            if sel is None:
                regs[h[1]] = base
            elif sel[0] == "i":
                k = val(sel[1])
                if not 0 <= k < len(base):
                    raise RefError("index out of range")
                regs[h[1]] = ("q", base[k])
            else:
                stop = val(sel[2])
                if stop is None and h[2] in declared and h[2] not in let_sized:
                    stop = declared[h[2]]
                regs[h[1]] = _slice(base, val(sel[1]), stop, val(sel[3]))

    def lookup(name, env):
        if name in env:
            return env[name]
        if name in lets:
            return lets[name]
        if name in regs:
            return regs[name]
        raise RefError(f"unknown name {name}")

    def arg(a, env):
        if a[0] == "v":
            return a[1]
        if a[0] == "n":
            return lookup(a[1], env)
        base = lookup(a[1], env)
        if not isinstance(base, list):
            raise RefError(f"{a[1]} is not a register")
        i = a[2]
        if isinstance(i, str):
            i = lookup(i, env)
        i = _as_index(i, "qubit index")
        if not 0 <= i < len(base):
            raise RefError("qubit index out of range")
        return ("q", base[i])

    def tag(v):
        if isinstance(v, tuple):
            return ["q", v[1]]
        if isinstance(v, list):
            return ["r", list(v)]
        return norm_num(v)

    def count(c, env):
        if c is None:
            return 1
        return _as_index(lookup(c, env) if isinstance(c, str) else c, "count")

    def stmt(s, env):
        if s[0] == "g":
            vals = [arg(a, env) for a in s[2]]
            if s[1] in macros:
                params, body = macros[s[1]]
                if len(params) != len(vals):
                    raise RefError("argument count")
                return block(body, dict(zip(params, vals)))
            return ["g", s[1], [tag(v) for v in vals]]
        if s[0] == "loop":
            return ["loop", str(count(s[1], env)), block(s[2], env)]
        return block(s, env)

    def block(b, env):
        if b[0] == "sub":
            items = [stmt(x, env) for x in b[2]]
            if subs:
                return ["seq", [PREPARE] + items + [MEASURE]]
            return ["sub", str(count(b[1], env)), items]
        return [b[0], [stmt(x, env) for x in b[1]]]

    def validate(b, params):
        """the global qubit references in the body of a macro must be in range even if the macro is never called"""
        for x in b[-1]:
            if x[0] == "g":
                for a in x[2]:
                    if a[0] == "q" and a[1] not in params and (not isinstance(a[2], str) or a[2] not in params):
                        arg(a, {})
            elif x[0] == "loop":
                validate(x[2], params)
            else:
                validate(x, params)

    top = []
    for s in spec["body"]:
        if s[0] == "macro":
            validate(s[3], set(s[2]))
            macros[s[1]] = (s[2], s[3])
        else:
            top.append(stmt(s, {}))
    return flatten("seq", [norm_tree(x) for x in top])


# ------------------------------------------------------------------------------------------------ meaning of library objects

class ObjError(Exception):
    pass


def obj_meaning(c):
    """the meaning of a library Circuit, read off its objects (no library pass, no resolve_qubit): Constant -> its
    value, alias -> the qubits it selects, call of a name in circuit.macros -> that macro's body with the arguments
    bound by position, any other gate statement -> a native gate"""
    memo = {}

    def num(v, env):
        while True:
            if isinstance(v, Constant):
                v = v.value
            elif isinstance(v, Parameter):
                if v.name not in env:
                    raise ObjError(f"unbound parameter {v.name}")
                v = env[v.name]
            else:
                return v

    def reg(r, env):
        if isinstance(r, Parameter):
            v = env.get(r.name)
            if not isinstance(v, list):
                raise ObjError(f"parameter {r.name} is not bound to a register")
            return v
        if not isinstance(r, Register):
            raise ObjError(f"not a register: {r!r}")
        if id(r) in memo:
            return memo[id(r)][1]
        if r.alias_from is None:
            n = _as_index(num(r.size, env), "register size")
            out = list(range(n))
        else:
            base = reg(r.alias_from, env)
            sl = r.alias_slice
            if sl is None:
                out = base
            else:
                def b(x):
                    return None if x is None else _as_index(num(x, env), "bound")
                out = _slice(base, b(sl.start), b(sl.stop), b(sl.step))
        memo[id(r)] = (r, out)      # keep r alive: ids are only unique among live objects
        return out

    def value(v, env):
        if isinstance(v, NamedQubit):
            base = reg(v.alias_from, env)
            i = _as_index(num(v.alias_index, env), "qubit index")
            if not 0 <= i < len(base):
                raise ObjError(f"qubit index {i} out of range in {v.name}")
            return ("q", base[i])
        if isinstance(v, Register):
            return reg(v, env)
        if isinstance(v, (Constant, Parameter)):
            return num(v, env)
        return v

    def tag(v):
        if isinstance(v, tuple):
            return ["q", v[1]]
        if isinstance(v, list):
            return ["r", list(v)]
        if isinstance(v, (int, float)) or type(v).__module__ == "numpy":
            return norm_num(v)
        raise ObjError(f"gate argument of type {type(v).__name__}")

    def stmt(s, env):
        if isinstance(s, GateStatement):
            vals = [value(v, env) for v in s.parameters.values()]
            m = c.macros.get(s.name)
            if m is not None:
                names = [p.name for p in m.parameters]
                if len(names) != len(vals):
                    raise ObjError(f"call of {s.name} with {len(vals)} arguments for {len(names)} parameters")
                return block(m.body, dict(zip(names, vals)))
            return ["g", s.name, [tag(v) for v in vals]]
        if isinstance(s, LoopStatement):
            return ["loop", str(_as_index(num(s.iterations, env), "count")), block(s.statements, env)]
        if isinstance(s, BlockStatement):
            return block(s, env)
        raise ObjError(f"statement of type {type(s).__name__}")

    def block(b, env):
        items = [stmt(x, env) for x in b.statements]
        if b.subcircuit:
            return ["sub", str(_as_index(num(b.iterations, env), "count")), items]
        return ["par" if b.parallel else "seq", items]

    top = [stmt(s, {}) for s in c.body.statements]
    return flatten("seq", [norm_tree(x) for x in top])


def obj_sig(c):
    """the structure of a library Circuit as written (nothing evaluated), declarations in their order"""
    def val(v):
        if isinstance(v, Constant):
            return ["let", v.name, repr(v.value)]
        if isinstance(v, Parameter):
            return ["param", v.name]
        if isinstance(v, NamedQubit):
            return ["q", v.name, getattr(v.alias_from, "name", None), val(v.alias_index)]
        if isinstance(v, Register):
            return ["r", v.name]
        if v is None:
            return None
        return [type(v).__name__, repr(v)]

    def stmt(s):
        if isinstance(s, GateStatement):
            return ["g", s.name, [[k, val(v)] for k, v in s.parameters.items()]]
        if isinstance(s, LoopStatement):
            return ["loop", val(s.iterations), stmt(s.statements)]
        if isinstance(s, BlockStatement):
            return ["sub" if s.subcircuit else "par" if s.parallel else "seq", val(s.iterations) if s.subcircuit else None,
                    [stmt(x) for x in s.statements]]
        return ["?", type(s).__name__]

    regs = []
    for r in c.registers.values():
        if isinstance(r, NamedQubit):
            regs.append(["qubit", r.name, r.alias_from.name, val(r.alias_index)])
        elif r.alias_from is None:
            regs.append(["reg", r.name, val(r.size)])
        else:
            sl = r.alias_slice
            regs.append(["map", r.name, r.alias_from.name, None if sl is None else [val(sl.start), val(sl.stop), val(sl.step)]])
    return {"usepulses": [str(u.module) for u in c.usepulses],
            "lets": [[k.name, repr(k.value)] for k in c.constants.values()],
            "registers": regs,
            "macros": [[m.name, [p.name for p in m.parameters], stmt(m.body)] for m in c.macros.values()],
            "body": [stmt(s) for s in c.body.statements]}


# ------------------------------------------------------------------------------------------------ program generator

class Gen:
    """one program under construction; the declared values are tracked so that every index is in range by construction"""

    def __init__(self, rng, style, mode, length=None):
        self.rng, self.mode = rng, mode
        reserved = set(BOUNDING) | set(GATE_NAMES) | {"Wide"}
        self.names = Names(rng, style, length, reserved)
        self.header = []
        self.body = []
        self.int_lets = {}       # small non-negative integer lets usable as indices / counts
        self.num_lets = {}       # any numeric lets (gate arguments only)
        self.count_lets = set()  # lets used as a loop / subcircuit count (an override keeps them positive)
        self.idx_lets = set()    # lets that occur in an index, slice bound, size or count position of a map / qubit reference
        self.arrays = {}         # array name -> list of fundamental indices (declared values)
        self.qubits = {}         # single-qubit alias -> fundamental index
        self.macros = {}         # name -> (param kinds string, block kind)
        self.menu = list(MENU_GATES)
        self.reg = None
        self.usepulses = []

    # ---- header
    def let(self, value, index_like=False, name=None):
        name = name or self.names.fresh()
        self.header.append(["let", name, value])
        if index_like:
            self.int_lets[name] = value
        else:
            self.num_lets[name] = value
        return name

    def register(self, size, by_let=False):
        name = self.names.fresh()
        if by_let:
            l = self.let(size, True)
            self.idx_lets.add(l)
            self.header.append(["reg", name, l])
        else:
            self.header.append(["reg", name, size])
        self.arrays[name] = list(range(size))
        self.reg = name
        return name

    def bound(self, v, p_let=0.3):
        """an integer bound, written as a literal or (sometimes) as a let of that value"""
        if v is None or v < 0 or self.rng.random() >= p_let:
            return v
        same = [n for n, x in self.int_lets.items() if x == v]
        if same and self.rng.random() < 0.7:
            n = self.rng.choice(same)
        else:
            n = self.let(v, True)
        self.idx_lets.add(n)
        return n

    def map_whole(self, src):
        name = self.names.fresh()
        self.header.append(["map", name, src, None])
        self.arrays[name] = self.arrays[src]
        return name

    def map_qubit(self, src, k=None):
        name = self.names.fresh()
        base = self.arrays[src]
        k = self.rng.randrange(len(base)) if k is None else k
        self.header.append(["map", name, src, ["i", self.bound(k)]])
        self.qubits[name] = base[k]
        return name

    def map_slice(self, src, start, stop, step, omit=True, p_let=0.3):
        name = self.names.fresh()
        base = self.arrays[src]
        new = _slice(base, start, stop, step)
        r = self.rng
        ws = None if (omit and start == 0 and r.random() < 0.4) else self.bound(start, p_let)
        we = None if (omit and stop == len(base) and (step or 1) > 0 and r.random() < 0.4) else self.bound(stop, p_let)
        wt = None if (step in (None, 1) and r.random() < 0.6) else (step if step is None or step < 0 else self.bound(step, p_let))
        self.header.append(["map", name, src, ["s", ws, we, wt]])
        self.arrays[name] = new
        return name

    def shuffle_header(self):
        """interleave the header statements as far as define-before-use allows"""
        r = self.rng
        items = self.header
        defined_at = {}
        deps = []
        for i, h in enumerate(items):
            d = set()
            if h[0] == "reg" and isinstance(h[2], str):
                d.add(h[2])
            if h[0] == "map":
                d.add(h[2])
                if h[3] is not None:
                    d.update(x for x in h[3][1:] if isinstance(x, str))
            deps.append(d)
            defined_at[h[1]] = i
        out, placed, rest = [], set(), list(range(len(items)))
        while rest:
            ready = [i for i in rest if all(x in placed for x in deps[i])]
            # mostly keep going in the written order, sometimes jump
            i = ready[0] if r.random() < 0.5 else r.choice(ready)
            rest.remove(i)
            placed.add(items[i][1])
            out.append(items[i])
        self.header = out

    # ---- arguments
    def q_arg(self, params, arrays=None):
        r = self.rng
        qp = [p for p, k in params.items() if k == "q"]
        rp = [p for p, k in params.items() if k[0] == "r"]
        c = r.random()
        if qp and c < 0.6:
            return ["n", r.choice(qp)]
        if rp and c < 0.8:
            p = r.choice(rp)
            n = int(params[p][1:])
            ip = [x for x, k in params.items() if k[0] == "j" and int(k[1:]) <= n]
            if ip and r.random() < 0.4:
                return ["q", p, r.choice(ip)]
            return ["q", p, r.randrange(n)]
        if self.qubits and c < 0.25:
            return ["n", r.choice(sorted(self.qubits))]
        names = arrays or sorted(self.arrays)
        a = r.choice(names)
        n = len(self.arrays[a])
        k = r.randrange(n)
        if r.random() < 0.25:
            same = [l for l, x in self.int_lets.items() if x == k]
            if same:
                l = r.choice(same)
                self.idx_lets.add(l)
                return ["q", a, l]
        return ["q", a, k]

    def i_arg(self, params):
        r = self.rng
        ip = [p for p, k in params.items() if k == "i" or k[0] == "j"]
        c = r.random()
        if ip and c < 0.5:
            return ["n", r.choice(ip)]
        if self.int_lets and c < 0.75:
            return ["n", r.choice(sorted(self.int_lets))]
        return ["v", r.choice([0, 1, 2, 3, 5, -1, 7, 64, 255, 256, 1000, 65535])]

    def f_arg(self, params):
        r = self.rng
        fp = [p for p, k in params.items() if k == "f"]
        c = r.random()
        if fp and c < 0.5:
            return ["n", r.choice(fp)]
        if self.num_lets and c < 0.75:
            return ["n", r.choice(sorted(self.num_lets))]
        if c < 0.85:
            return self.i_arg(params)
        return ["v", r.choice([0.5, -0.25, 1.5, 2.0, 0.0, 3.141592653589793, 1e-06, 2.5e+20, -7.75])]

    def args(self, slots, params):
        return [self.q_arg(params) if s == "q" else self.i_arg(params) if s == "i" else self.f_arg(params) for s in slots]

    def native(self, params=None):
        g, slots = self.rng.choice(self.menu)
        return ["g", g, self.args(slots, params or {})]

    def call(self, name, params=None):
        kinds, _bk = self.macros[name]
        params = params or {}
        out = []
        for k in kinds:
            if k == "q":
                out.append(self.q_arg(params))
            elif k == "i":
                out.append(self.i_arg(params))
            elif k == "f":
                out.append(self.f_arg(params))
            elif k[0] == "j":         # an integer used as an index below int(k[1:])
                n = int(k[1:])
                same = [l for l, x in self.int_lets.items() if 0 <= x < n]
                if same and self.rng.random() < 0.3:
                    l = self.rng.choice(same)
                    self.idx_lets.add(l)
                    out.append(["n", l])
                else:
                    out.append(["v", self.rng.randrange(n)])
            else:                      # "r<n>": a register of at least n qubits (the fundamental one: fill_in_map refuses whole aliases)
                n = int(k[1:])
                ok = [a for a in [self.reg] if len(self.arrays[a]) >= n]
                if not ok:
                    raise RefError("no register large enough")
                out.append(["n", ok[0]])
        return ["g", name, out]

    def macro(self, kinds, block, name=None, params=None):
        name = name or self.names.fresh()
        self.body.append(["macro", name, params, block])
        self.macros[name] = (kinds, block[0])
        return name

    def fresh_params(self, kinds):
        return [self.names.fresh() for _ in kinds]

    def stmt(self, params=None, ctx="seq", depth=0, allow_sub=False):
        """a small random statement legal in a block of kind `ctx`"""
        r = self.rng
        params = params or {}
        c = r.random()
        callable_ = [m for m, (k, bk) in self.macros.items() if not params or r.random() < 0.5]
        if callable_ and c < 0.3:
            try:
                return self.call(r.choice(callable_), params)
            except RefError:
                pass
        if depth >= 2 or c < 0.6:
            return self.native(params)
        if ctx == "par":
            return ["seq", [self.stmt(params, "seq", depth + 1) for _ in range(r.randrange(1, 3))]]
        c = r.random()
        if c < 0.35:
            return ["par", [self.stmt(params, "par", depth + 1) for _ in range(r.randrange(1, 4))]]
        if c < 0.7 or not allow_sub:
            kind = "par" if r.random() < 0.2 else "seq"
            cnt = self.count_value(r.choice([1, 2, 3]))
            return ["loop", cnt, [kind, [self.stmt(params, kind, depth + 1) for _ in range(r.randrange(1, 3))]]]
        return ["sub", r.choice([None, 1, 3, self.count_value(2)]), [self.stmt(params, "seq", depth + 1) for _ in range(r.randrange(1, 3))]]

    def count_value(self, v):
        same = [l for l, x in self.int_lets.items() if x == v]
        if same and self.rng.random() < 0.3:
            l = self.rng.choice(same)
            self.count_lets.add(l)
            return l
        return v

    def background(self, nreg=None):
        """the small part every program has: a few lets, the register, one or two aliases, one macro"""
        r = self.rng
        for v in r.sample([0, 1, 2, 3], r.randrange(1, 4)):
            self.let(v, True)
        for v in r.sample([0.5, -1.25, 7, 2.0, 100, 1e-3], r.randrange(0, 3)):
            self.let(v)
        n = nreg or r.randrange(4, 9)
        reg = self.register(n, by_let=r.random() < 0.2)
        if r.random() < 0.6:
            a = self.map_slice(reg, 1, n, None)
            if r.random() < 0.5:
                self.map_qubit(a)
        if r.random() < 0.4:
            self.map_qubit(reg)
        if self.mode == "nogates" and r.random() < 0.7:
            self.menu.append((self.names.fresh(), r.choice(["qf", "q", "qqfi", "fq"])))
        if r.random() < 0.25:
            self.usepulses.append(r.choice(["qscout.v1.std", "a.b", "pulses", ".local.gates"]))
        return reg

    def small_macro(self):
        r = self.rng
        kinds = r.choice([["q"], ["q", "q"], ["q", "i"], ["q", "f"], ["f", "q", "q"]])
        ps = self.fresh_params(kinds)
        params = dict(zip(ps, kinds))
        kind = "par" if r.random() < 0.15 else "seq"
        return self.macro(kinds, [kind, [self.stmt(params, kind, 1) for _ in range(r.randrange(1, 3))]], params=ps)

    def spec(self):
        return {"usepulses": self.usepulses, "header": self.header, "body": self.body}


# ------------------------------------------------------------------------------------------------ the scaled families

def fam_macro_chain(g, n):
    r = g.rng
    g.background()
    kinds = ["q", "q", r.choice(["i", "f"])]
    ps = g.fresh_params(kinds)
    two = "CX" if r.random() < 0.5 else "CZ"
    last = ["P", [["n", ps[0]], ["n", ps[2]]]] if kinds[2] == "i" else ["PF", [["n", ps[2]], ["n", ps[0]]]]
    prev = g.macro(kinds, ["seq", [["g", two, [["n", ps[0]], ["n", ps[1]]]], ["g"] + last]], params=ps)
    wraps = 0
    for i in range(1, n):
        ps = g.fresh_params(kinds)
        a, b = (ps[1], ps[0]) if r.random() < 0.6 else (ps[0], ps[1])      # the two qubits usually swap at a level
        call = ["g", prev, [["n", a], ["n", b], ["n", ps[2]]]]
        c = r.random()
        if c < 0.06:
            call = ["loop", g.count_value(2), ["seq", [call]]]
        elif c < 0.12 and wraps < 8:
            wraps += 1
            call = ["par", [call, ["seq", [["g", "X", [["n", ps[0]]]]]]]]
        items = [call]
        if r.random() < 0.4:
            items.insert(r.randrange(2), ["g", r.choice(["X", "Y", "SX"]), [["n", r.choice(ps[:2])]]])
        prev = g.macro(kinds, ["seq", items], params=ps)
    g.body.append(g.call(prev))
    g.body.append(["loop", 2, ["seq", [g.call(prev), g.native()]]])
    g.body.append(["par", [g.call(prev), ["seq", [g.native()]]]])
    if r.random() < 0.5:
        g.body.append(["sub", r.choice([None, 5]), [g.call(prev)]])


def fam_macro_wide(g, n):
    r = g.rng
    g.background()
    made = []
    depth = {}
    for i in range(n):
        kinds = r.choice([["q"], ["q", "q"], ["q", "i"], ["f", "q"]])
        ps = g.fresh_params(kinds)
        params = dict(zip(ps, kinds))
        items = [g.native(params) for _ in range(r.randrange(1, 3))]
        d = 0
        if made and r.random() < 0.4:
            m = r.choice(made[-4:])
            if depth[m] < 6:
                items.insert(r.randrange(len(items) + 1), g.call(m, params))
                d = depth[m] + 1
        kind = "par" if (r.random() < 0.1 and d == 0) else "seq"
        m = g.macro(kinds, [kind, items], params=ps)
        made.append(m)
        depth[m] = d
    picks = [made[0], made[-1]] + [r.choice(made) for _ in range(min(n, 40))]
    r.shuffle(picks)
    for m in picks:
        s = g.call(m)
        c = r.random()
        if c < 0.15:
            s = ["loop", 2, ["seq", [s]]]
        elif c < 0.25:
            s = ["par", [s, ["seq", [g.native()]]]]
        g.body.append(s)


def fam_lets_wide(g, n):
    r = g.rng
    reg = g.background(nreg=r.randrange(4, 12))
    size = len(g.arrays[reg])
    made = []
    for i in range(n):
        c = r.random()
        if c < 0.4:
            made.append(g.let(r.randrange(size), True))
        elif c < 0.7:
            made.append(g.let(r.choice([r.randrange(-5, 300), 2 ** 31, -2 ** 40, 65536, 10 ** 15])))
        else:
            made.append(g.let(r.choice([r.random() * 10 - 5, float(r.randrange(50)), 1e-9 * r.randrange(1, 9), -0.0, 2.5e+30])))
    g.small_macro()
    picks = [made[0], made[-1], made[len(made) // 2]] + [r.choice(made) for _ in range(min(n, 60))]
    for l in picks:
        if l in g.int_lets and r.random() < 0.6:
            g.idx_lets.add(l)
            s = ["g", "X", [["q", reg, l]]]
        elif l in g.int_lets:
            s = ["g", "P", [g.q_arg({}), ["n", l]]]
        else:
            s = ["g", "PF", [["n", l], g.q_arg({})]]
        if r.random() < 0.1:
            s = ["loop", g.count_value(2), ["seq", [s]]]
        g.body.append(s)
    for _ in range(3):
        g.body.append(g.stmt(allow_sub=True))


def fam_alias_chain(g, n):
    r = g.rng
    for v in r.sample([0, 1, 2, 3], 2):
        g.let(v, True)
    reg = g.register(n + 6, by_let=r.random() < 0.3)
    chain = [reg]
    for i in range(n):
        src = chain[-1]
        ln = len(g.arrays[src])
        c = r.random()
        if ln <= 5 or c < 0.45:
            a = g.map_whole(src) if r.random() < 0.6 else g.map_slice(src, 0, ln, None)
        elif c < 0.75:
            a = g.map_slice(src, 1, ln, None, p_let=0.15)
        elif c < 0.95:
            a = g.map_slice(src, 0, ln - 1, None, p_let=0.15)
        else:
            a = g.map_slice(src, ln - 1, 0, -1, omit=False, p_let=0)       # reversed, drops one
        chain.append(a)
        if r.random() < 0.08:
            g.map_qubit(a)
    g.small_macro()
    for a in [chain[-1], chain[len(chain) // 2], chain[1]] + [r.choice(chain) for _ in range(4)]:
        g.body.append(["g", "X", [g.q_arg({}, [a])]])
    g.body.append(["g", "CX", [g.q_arg({}, [chain[-1]]), g.q_arg({}, [chain[0]])]])
    for _ in range(3):
        g.body.append(g.stmt(allow_sub=True))


def fam_alias_wide(g, n):
    r = g.rng
    for v in r.sample([0, 1, 2, 3, 4], 3):
        g.let(v, True)
    reg = g.register(r.randrange(12, 41), by_let=r.random() < 0.3)
    made = [reg]
    depth = {reg: 0}
    for i in range(n):
        cands = [a for a in made[-5:] + [reg, r.choice(made)] if depth[a] < 10 and len(g.arrays[a]) >= 2]
        src = r.choice(cands or [reg])
        ln = len(g.arrays[src])
        c = r.random()
        if c < 0.15:
            g.map_qubit(src)
            continue
        if c < 0.3:
            a = g.map_whole(src)
        elif c < 0.9:
            start = r.randrange(0, ln - 1)
            step = r.choice([1, 1, 2, 3])
            stop = r.randrange(start + 1, ln + 1)
            a = g.map_slice(src, start, stop, step, p_let=0.2)
        else:
            start = r.randrange(1, ln)
            a = g.map_slice(src, start, r.randrange(-1, start) if r.random() < 0.0 else r.randrange(0, start), -r.choice([1, 2]), omit=False, p_let=0)
        if len(g.arrays[a]) == 0:
            # an empty alias is legal, but nothing can be taken from it
            depth[a] = 99
        else:
            depth[a] = depth[src] + 1
        made.append(a)
    g.small_macro()
    usable = [a for a in made if len(g.arrays[a]) > 0]
    for a in [usable[-1], usable[0]] + [r.choice(usable) for _ in range(min(n, 30))]:
        g.body.append(["g", "X", [g.q_arg({}, [a])]])
    for _ in range(3):
        g.body.append(g.stmt(allow_sub=True))


def fam_nest(g, n):
    r = g.rng
    g.background()
    m = g.small_macro()
    if r.random() < 0.3:
        # loops only, so that a subcircuit block (legal in no parallel block) can stand at the very bottom
        cur = ["sub", r.choice([None, 3, g.count_value(2)]), [g.native(), g.call(m)]]
        for lv in range(n - 1):
            items = [cur]
            if r.random() < 0.5:
                items.insert(r.randrange(2), g.call(m) if r.random() < 0.2 else g.native())
            cur = ["loop", g.count_value(r.choice([1, 2, 3])), ["seq", items]]
        g.body.append(cur)
        g.body.append(g.stmt())
        return
    inner_kind = r.choice(["seq", "par"])
    cur = [inner_kind, [g.native(), g.call(m), g.native()]]
    subs_at = r.randrange(n) if r.random() < 0.5 else None
    levels = 1
    in_par_above = False
    while levels < n:
        kind = cur[0] if cur[0] in ("seq", "par") else "seq"
        sib = g.call(m) if r.random() < 0.2 else g.native()
        if cur[0] == "loop" or cur[0] == "sub":
            # a loop or a subcircuit stands in a sequential block
            new = ["seq", [cur, sib] if r.random() < 0.5 else [sib, cur]]
        elif kind == "par":
            if r.random() < 0.25:
                new = ["loop", g.count_value(r.choice([1, 2])), cur]
            else:
                new = ["seq", [sib, cur] if r.random() < 0.5 else [cur, sib]]
        else:
            if r.random() < 0.35:
                new = ["loop", g.count_value(r.choice([1, 2, 3])), cur]
            else:
                new = ["par", [cur, sib] if r.random() < 0.5 else [sib, cur]]
        cur = new
        levels += 1
    # a subcircuit block may only stand outside every parallel block and every other subcircuit: put it on top
    if subs_at is not None:
        if cur[0] == "par":
            cur = ["seq", [cur]]
            g.body.append(["sub", r.choice([None, 2, 64]), cur[1]])
        elif cur[0] == "seq":
            g.body.append(["sub", r.choice([None, 2, 64]), cur[1]])
        else:
            g.body.append(["sub", None, [cur]])
    else:
        g.body.append(cur)
    g.body.append(g.stmt())


def fam_stmts(g, n):
    r = g.rng
    g.background()
    m = g.small_macro()
    where = r.choice(["top", "loop", "par", "macro", "sub", "seq_in_par", "loop_par"])
    if where == "macro":
        kinds = ["q", "i"]
        ps = g.fresh_params(kinds)
        params = dict(zip(ps, kinds))
        items = [g.call(m, params) if r.random() < 0.1 else g.native(params) for _ in range(n)]
        big = g.macro(kinds, ["seq", items], params=ps)
        g.body.append(g.call(big))
        g.body.append(["loop", 2, ["seq", [g.call(big)]]])
        return
    items = [g.call(m) if r.random() < 0.1 else g.native() for _ in range(n)]
    if where == "top":
        g.body.extend(items)
    elif where == "loop":
        g.body.append(["loop", g.count_value(3), ["seq", items]])
    elif where == "loop_par":
        g.body.append(["loop", 2, ["par", items]])
    elif where == "par":
        g.body.append(["par", items])
    elif where == "sub":
        g.body.append(["sub", r.choice([None, 200]), items])
    else:
        g.body.append(["par", [g.native(), ["seq", items]]])
    g.body.append(g.stmt(allow_sub=(where != "sub")))


def fam_calls(g, n):
    r = g.rng
    g.background()
    ms = [g.small_macro() for _ in range(3)]
    pool = [g.call(r.choice(ms)) for _ in range(r.randrange(2, 6))]      # few distinct calls: most are repeated verbatim
    items = [r.choice(pool) if r.random() < 0.85 else g.call(r.choice(ms)) for _ in range(n)]
    cut = r.randrange(n)
    g.body.extend(items[:cut])
    g.body.append(["loop", g.count_value(2), ["seq", items[cut:] or [g.native()]]])
    g.body.append(["sub", None, [r.choice(pool), r.choice(pool)]])


def fam_params(g, n):
    r = g.rng
    reg = g.background(nreg=r.randrange(4, 9))
    size = len(g.arrays[reg])
    kinds = []
    # parameters used as a register or as an index make fill_in_map inapplicable before expand_macros: only sometimes
    menu = ["q", "q", "q", "i", "f", "j%d" % size, "r%d" % size] if r.random() < 0.3 else ["q", "q", "i", "f"]
    for i in range(n):
        kinds.append(r.choice(menu))
    if "q" not in kinds:
        kinds[0] = "q"
    ps = g.fresh_params(kinds)
    params = dict(zip(ps, kinds))
    order = list(ps)
    r.shuffle(order)
    items = []
    for p in order:                      # every parameter is used at least once
        k = params[p]
        if k == "q":
            items.append(["g", "X", [["n", p]]] if r.random() < 0.6 else ["g", "CX", [["n", p], g.q_arg(params)]])
        elif k == "i":
            items.append(["g", "P", [g.q_arg(params), ["n", p]]])
        elif k == "f":
            items.append(["g", "PF", [["n", p], g.q_arg(params)]])
        elif k[0] == "j":
            items.append(["g", "Y", [["q", reg, p]]])
        else:
            items.append(["g", "SX", [["q", p, r.randrange(size)]]])
    big = g.macro(kinds, ["seq", items], params=ps)
    g.body.append(g.call(big))
    g.body.append(["loop", 2, ["seq", [g.call(big), g.native()]]])
    if g.mode == "nogates":
        # an undeclared native gate with n arguments (its definition gets n anonymous parameters)
        slots = "".join(r.choice("qif") for _ in range(n))
        g.body.append(["g", "Wide", g.args(slots, {})])
        g.body.append(["loop", 2, ["seq", [["g", "Wide", g.args(slots, {})]]]])


def fam_counts(g, n):
    r = g.rng
    for v in (n, 2, 1):
        g.let(v, True)
    big = [l for l, x in g.int_lets.items() if x == n][0]
    reg = g.register(n, by_let=r.random() < 0.5)
    ev = g.map_slice(reg, 0, n, 2, p_let=0.3)
    od = g.map_slice(reg, 1, n, r.choice([2, 3]), p_let=0.3)
    rv = g.map_slice(reg, n - 1, 0, -1, omit=False, p_let=0)
    last = g.map_qubit(reg, n - 1)
    tail = g.map_slice(ev, len(g.arrays[ev]) // 2, len(g.arrays[ev]), None)
    m = g.small_macro()
    for a in (ev, od, rv, tail):
        ln = len(g.arrays[a])
        g.body.append(["g", "CX", [["q", a, ln - 1], ["q", a, 0]]])
    g.body.append(["g", "X", [["n", last]]])
    g.count_lets.add(big)
    g.body.append(["loop", r.choice([n, big]), ["seq", [g.native(), g.call(m)]]])
    g.body.append(["sub", r.choice([n, big]), [g.native(), ["loop", n, ["par", [g.native()]]]]])
    g.body.append(["g", "P", [g.q_arg({}), ["v", n]]])


def fam_long_names(g, n):
    r = g.rng
    reg = g.background(nreg=r.randrange(6, 10))
    size = len(g.arrays[reg])
    # several names in every role, so that names confused with one another (they share a very long prefix or suffix)
    # change the meaning: aliases with different offsets, lets with different values, macros with different bodies
    als = [g.map_slice(reg, k, size, None, omit=False) for k in r.sample(range(0, size - 1), 3)]
    als.append(g.map_slice(als[0], 1, len(g.arrays[als[0]]), None) if len(g.arrays[als[0]]) > 2 else g.map_whole(als[1]))
    qs = [g.map_qubit(reg, k) for k in r.sample(range(size), 2)]
    ints = [g.let(v, True) for v in r.sample(range(0, 4), 3)]
    nums = [g.let(v) for v in r.sample([0.5, 1.5, -2.25, 7, 100, 3.0], 3)]
    ms = [g.small_macro() for _ in range(3)]
    for a in als:
        g.body.append(["g", "X", [["q", a, 0]]])
        g.body.append(["g", "CX", [["q", a, len(g.arrays[a]) - 1], ["n", r.choice(qs)]]])
    for l in ints:
        g.body.append(["g", "P", [g.q_arg({}), ["n", l]]])
    for l in nums:
        g.body.append(["g", "PF", [["n", l], g.q_arg({})]])
    for m in ms:
        g.body.append(g.call(m))
    for _ in range(3):
        g.body.append(g.stmt(allow_sub=True))
    g.body.append(["loop", g.count_value(2), ["seq", [g.call(r.choice(ms))]]])


FAM = {"macro_chain": fam_macro_chain, "macro_wide": fam_macro_wide, "lets_wide": fam_lets_wide,
       "alias_chain": fam_alias_chain, "alias_wide": fam_alias_wide, "nest": fam_nest, "stmts": fam_stmts,
       "calls": fam_calls, "params": fam_params, "counts": fam_counts, "long_names": fam_long_names}


def build_spec(gp):
    """the program of the generator parameters {family, size, style, mode, gseed}: (spec, {"idx": lets in index
    positions, "count": lets used as counts, "lets": declared values})"""
    rng = random.Random("c10_scale:%s:%s:%s:%s:%s" % (gp["family"], gp["size"], gp["style"], gp["mode"], gp["gseed"]))
    g = Gen(rng, gp["style"], gp["mode"], length=gp["size"] if gp["family"] == "long_names" else None)
    FAM[gp["family"]](g, gp["size"])
    if rng.random() < 0.7:
        g.shuffle_header()
    if rng.random() < 0.3:
        # macro definitions may stand between body statements: move some statements in front of the first macro they do not use
        firstm = next((i for i, s in enumerate(g.body) if s[0] == "macro"), None)
        if firstm is not None:
            g.body.insert(firstm, g.native())
    lets = {h[1]: h[2] for h in g.header if h[0] == "let"}
    regparam = any(k[0] in "jr" for kinds, _bk in g.macros.values() for k in kinds)
    return g.spec(), {"idx": sorted(g.idx_lets), "count": sorted(g.count_lets), "lets": lets, "regparam": regparam}


# ------------------------------------------------------------------------------------------------ the real code

class _Timeout(Exception):
    pass


def _guard(f):
    """f() under the shared alarm budget -> ("ok", value) | ("err", class name, message)"""
    def on_alarm(_s, _f):
        raise _Timeout()
    try:
        old = signal.signal(signal.SIGALRM, on_alarm)
    except ValueError:
        old = None
    if old is not None:
        signal.alarm(int(T.limit()))
    try:
        return ("ok", f())
    except _Timeout:
        T.saw_hang()
        return ("err", "hang", "no answer within the alarm budget")
    except JaqalError as e:
        return ("err", "JaqalError", str(e)[:300])
    except RecursionError as e:
        return ("err", "RecursionError", str(e)[:300])
    except Exception as e:  # noqa
        return ("err", type(e).__name__, str(e)[:300])
    finally:
        if old is not None:
            signal.alarm(0)
            signal.signal(signal.SIGALRM, old)


def dec_value(kind, v):
    if kind == "int":
        return int(v)
    if kind == "float":
        return float(v)
    if kind == "np.int64":
        return np.int64(v)
    if kind == "np.int32":
        return np.int32(v)
    if kind == "np.float64":
        return np.float64(v)
    raise KeyError(kind)


def dec_ov(ov):
    return {n: dec_value(k, v) for n, k, v in ov}


def ov_plain(ov):
    """the override as plain numbers, for the reference"""
    return {n: (int(v) if k in ("int", "np.int64", "np.int32") else float(v)) for n, k, v in ov}


def parse(text, mode, **kw):
    return parse_jaqal_string(text, inject_pulses=GATES if mode == "gates" else None, autoload_pulses=False, **kw)


def apply_pass(p, c, mode):
    k = p[0]
    if k == "let":
        v = p[2]
        if v == "default":
            return fill_in_let(c)
        if v == "none":
            return fill_in_let(c, None)
        if v == "none_kw":
            return fill_in_let(c, override_dict=None)
        if v == "empty":
            return fill_in_let(c, {})
        if v == "empty_kw":
            return fill_in_let(c, override_dict={})
        if v == "pos":
            return fill_in_let(c, dec_ov(p[1]))
        return fill_in_let(c, override_dict=dec_ov(p[1]))
    if k == "macros":
        if p[2] == "default":
            return expand_macros(c)
        if p[2] == "pos":
            return expand_macros(c, bool(p[1]))
        return expand_macros(c, preserve_definitions=bool(p[1]))
    if k == "subs":
        if p[1] == "names":
            return expand_subcircuits(c, "prepare_all", "measure_all")
        if p[1] == "none_kw":
            return expand_subcircuits(c, prepare_def=None, measure_def=None)
        return expand_subcircuits(c)
    if k == "map":
        return fill_in_map(c)
    if k == "text":
        return parse(generate_jaqal_program(c), mode)
    raise KeyError(k)


# ------------------------------------------------------------------------------------------------ histories

def gen_ov(rng, info, spec):
    """(overrides of the lets that occur in no index / bound / size, overrides of the others that keep the program valid)"""
    free, idx = [], []
    lets, idx_lets, count_lets = info["lets"], set(info["idx"]), set(info["count"])
    names = sorted(lets)
    rng.shuffle(names)
    for n in names[:40]:
        v = lets[n]
        if n in idx_lets:
            if rng.random() < 0.5:
                nv = v + rng.choice([1, -1, 1, 2])
                kind = rng.choice(["int", "int", "float", "np.int64", "np.int32", "np.float64"])
                idx.append([n, kind, float(nv) if "float" in kind else nv])
        elif rng.random() < 0.6:
            if isinstance(v, int):
                nv = v + rng.choice([1, -1, 5, 100, 0])
                if n in count_lets and nv < 1:
                    nv = v + 1
                kind = rng.choice(["int", "int", "float", "np.int64", "np.int32", "np.float64"])
                if abs(nv) >= 2 ** 31 and kind == "np.int32":
                    kind = "np.int64"
                free.append([n, kind, float(nv) if "float" in kind else nv])
            else:
                nv = rng.choice([v * 2, v + 0.5, 0.25, float(int(v)) if abs(v) < 1e15 else v, -v])
                free.append([n, rng.choice(["float", "float", "np.float64"]), nv])
    # keep only index overrides under which the program stays valid (all together, else one by one, else none)
    def valid(cand):
        try:
            ref_meaning(spec, ov_plain(free + cand), False)
            return True
        except RefError:
            return False
    if idx and not valid(idx):
        idx = [o for o in idx if valid([o])][:1]
    return free, idx


LET_EMPTY_VARIANTS = ["default", "none", "none_kw", "empty", "empty_kw"]


def mk_pass(rng, kind, ov):
    if kind == "let":
        if ov:
            return ["let", ov, rng.choice(["kw", "pos"])]
        return ["let", [], rng.choice(LET_EMPTY_VARIANTS)]
    if kind == "macros":
        pres = rng.random() < 0.35
        return ["macros", pres, rng.choice(["kw", "pos"] if pres else ["default", "kw", "pos"])]
    if kind == "subs":
        return ["subs", rng.choice(["default", "default", "names", "none_kw"])]
    return [kind]


def gen_histories(rng, free, idx, thorough):
    kinds = ["let", "macros", "subs", "map"]
    k = rng.choice([2, 3, 3, 4, 4])
    chosen = rng.sample(kinds, k)
    with_ov = rng.random() < 0.7

    def order_of(seq):
        """the passes of a sequence of kinds; the override of an order in which fill_in_map precedes the first
        fill_in_let leaves the index lets alone (side condition)"""
        out = []
        first_let = next((i for i, x in enumerate(seq) if x == "let"), None)
        first_map = next((i for i, x in enumerate(seq) if x == "map"), None)
        ov = []
        if with_ov:
            ov = list(free) + (list(idx) if (first_map is None or (first_let is not None and first_let < first_map)) else [])
        seen_let = False
        for x in seq:
            if x == "let":
                # a repeated fill_in_let may carry other overrides: nothing is left for them to act on
                out.append(mk_pass(rng, "let", ov if not seen_let else rng.choice([ov, [], list(free)[:1]])))
                seen_let = True
            elif x == "text":
                out.append(["text"])
            else:
                out.append(mk_pass(rng, x, None))
        return out

    o1 = list(chosen)
    rng.shuffle(o1)
    o2 = list(chosen)
    for _ in range(5):
        rng.shuffle(o2)
        if o2 != o1:
            break
    o3 = list(o1)
    for _ in range(rng.randrange(1, 5)):
        o3.insert(rng.randrange(len(o3) + 1), rng.choice(o3 + ["text"]) if rng.random() < 0.8 else rng.choice(kinds))
    hs = [order_of(o1), order_of(o2), order_of(o3)]
    if thorough:
        o4 = list(kinds)
        rng.shuffle(o4)
        hs.append(order_of(o4 + [rng.choice(kinds)]))
    return hs


FLAG_COMBOS = [(em, el, elm) for em in (False, True) for el in (False, True) for elm in (False, True)]


def gen_flag_cases(rng, free, idx, thorough):
    out = []
    for em, el, elm in (FLAG_COMBOS if thorough else rng.sample(FLAG_COMBOS, 3)):
        ovk = rng.choice(["absent", "none", "empty", "given", "given"])
        out.append({"expand_macro": em, "expand_let": el, "expand_let_map": elm, "override": ovk,
                    "ov": (list(free) + list(idx)) if ovk == "given" else [],
                    "return_usepulses": rng.choice([None, False, True, True]),
                    "entry": rng.choice(["string", "string", "file"])})
    return out


# ------------------------------------------------------------------------------------------------ one case

ORACLES = ("meaning_after_history", "idempotent", "legal_after_pass", "flags_equal_passes", "input_not_modified",
           "applicable", "only_jaqal_errors")


class Acc:
    def __init__(self):
        self.oracle = {k: {"cases": 0, "failures": []} for k in ORACLES}
        self.dist = Counter()
        self.samples = []
        self.nontrivial = set()

    def check(self, name, ok, case, detail):
        self.oracle[name]["cases"] += 1
        if not ok:
            if len(self.oracle[name]["failures"]) < 20:
                self.oracle[name]["failures"].append({"case": case, "detail": detail[:3000]})
            else:
                self.oracle[name]["more_failures"] = self.oracle[name].get("more_failures", 0) + 1


def _short(path):
    return path if len(path) <= 60 else "(depth %d) …%s" % (path.count("/"), path[-50:])


def first_diff(a, b, path=""):
    """where two meaning trees differ (for the detail of a failure)"""
    if type(a) != type(b):
        return f"{_short(path)}: {a!r} vs {b!r}"[:400]
    if isinstance(a, list):
        for i, (x, y) in enumerate(zip(a, b)):
            d = first_diff(x, y, f"{path}/{i}")
            if d:
                return d
        if len(a) != len(b):
            return f"{_short(path)}: {len(a)} items vs {len(b)} items; first extra: {(a[len(b):] or b[len(a):])[0]!r}"[:400]
        return None
    return None if a == b else f"{_short(path)}: {a!r} vs {b!r}"[:400]


def safe_meaning(c):
    try:
        return ("ok", obj_meaning(c))
    except (ObjError, RefError) as e:
        return ("bad", f"{type(e).__name__}: {e}")


def hist_label(h):
    return "+".join(p[0] for p in h)


def make_case(gp, text, oracle, **what):
    t = text if len(text) <= 6000 else text[:3000] + "\n… (%d characters; regenerate with replay) …\n" % len(text) + text[-1500:]
    return {"gen": gp, "oracle": oracle, "what": what, "text": t}


def weight(gp):
    """a rough cost of the checks of one program relative to a small one (alias chains cost cubic time in the library,
    every level of a macro chain or a nest is rebuilt by every pass)"""
    n, f = gp["size"], gp["family"]
    if f == "alias_chain":
        return (n / 45.0) ** 3
    if f in ("macro_chain", "nest"):
        return n / 40.0
    if f == "alias_wide":
        return n / 150.0
    return n / 300.0


def process(acc, gp, thorough):
    """all the checks of one generated program.  A HEAVY program (weight > 1) gets the meaning check after every prefix
    but the idempotence and legality checks only after the first fill_in_let and at the end of each history, and fewer
    histories / flagged parses (quick: 2 / 1, thorough: 3 / 3; weight > 8: 1 / 1 and 2 / 1) than a light one (3 / 3, thorough 4 / 8)"""
    spec, info = build_spec(gp)
    w = weight(gp)
    heavy = w > 1
    text = spec_text(spec)
    mode = gp["mode"]
    rng = random.Random("c10_scale:hist:%s:%s:%s" % (gp["family"], gp["size"], gp["gseed"]))
    free, idx = gen_ov(rng, info, spec)
    histories = gen_histories(rng, free, idx, thorough)
    flag_cases = gen_flag_cases(rng, free, idx, thorough)
    if heavy:
        if w > 8:
            histories = histories[2:3] if not thorough else histories[:1] + histories[2:3]
            flag_cases = flag_cases[:1]
        else:
            histories = histories[:1] + histories[2:3] if not thorough else histories[:3]
            flag_cases = flag_cases[:1] if not thorough else flag_cases[:3]
    if heavy:
        acc.dist["heavy programs (reduced checks)"] += 1
    refs = {}

    def ref(ov, subs):
        key = (json.dumps(ov, sort_keys=True, default=str), subs)
        if key not in refs:
            try:
                refs[key] = ("ok", ref_meaning(spec, ov_plain(ov), subs))
            except RefError as e:
                refs[key] = ("bad", str(e))
        return refs[key]

    r = _guard(lambda: parse(text, mode))
    acc.dist["family:" + gp["family"]] += 1
    acc.dist["style:" + gp["style"]] += 1
    acc.dist["mode:" + mode] += 1
    acc.dist["size:%s" % size_bucket(gp["size"])] += 1
    acc.dist["family×size:%s:%s" % (gp["family"], size_bucket(gp["size"]))] += 1
    if r[0] != "ok":
        acc.dist["plain parse refused:" + r[1]] += 1
        acc.check("only_jaqal_errors", r[1] == "JaqalError", make_case(gp, text, "only_jaqal_errors", step="plain parse"),
                  f"the plain parse raises {r[1]}: {r[2]}")
        return
    c = r[1]
    m0 = safe_meaning(c)
    want0 = ref([], False)
    if want0[0] != "ok" or m0 != want0:
        # the generator of this script and the parser disagree on the plain program: not this property's business,
        # but nothing below would mean anything
        acc.dist["plain parse does not have the reference meaning (case skipped)"] += 1
        return
    sig0 = obj_sig(c)
    acc.nontrivial.add(text)
    if len(acc.samples) < 4:
        acc.samples.append(make_case(gp, text, None, histories=histories[:2], flags=flag_cases[:1]))

    # ---- histories
    for h in histories:
        acc.dist["history:" + hist_label(h)] += 1
        acc.dist["history length %d" % len(h)] += 1
        cur = c
        ov_in_force, subs, let_seen, table_kept = [], False, False, True
        for i, p in enumerate(h):
            prefix = h[: i + 1]
            rr = _guard(lambda: apply_pass(p, cur, mode))
            acc.dist["pass:%s:%s" % (p[0] + ("/" + str(p[2]) if p[0] in ("let", "macros") else "/" + str(p[1]) if p[0] == "subs" else ""),
                                     "ok" if rr[0] == "ok" else rr[1])] += 1
            if rr[0] != "ok":
                if p[0] == "text":
                    # the result so far could not be written or read back: already reported by legal_after_pass
                    break
                acc.check("only_jaqal_errors", rr[1] == "JaqalError", make_case(gp, text, "only_jaqal_errors", prefix=prefix),
                          f"{p[0]} raises {rr[1]}: {rr[2]}")
                acc.dist["not applicable:" + p[0]] += 1
                if rr[1] == "JaqalError":
                    # fill_in_map is not applicable while the macro table holds a body that indexes a parameter or by a
                    # parameter; nothing else in these programs (valid under the overrides by construction) can be refused
                    expected = p[0] == "map" and info["regparam"] and table_kept
                    idx_names = {o[0] for o in idx}
                    if any(o[0] in idx_names for o in (p[1] if p[0] == "let" else ov_in_force)):
                        # whether the program stays valid under overrides of lets in index positions is judged by the
                        # reference, which may be more lenient than the library: not held against the pass
                        acc.dist["refused under overrides of index lets (not judged)"] += 1
                        break
                    acc.check("applicable", expected, make_case(gp, text, "applicable", prefix=prefix),
                              f"{p[0]} refuses the result of {hist_label(h[:i]) or 'the plain parse'}: {rr[2]}")
                break
            acc.oracle["applicable"]["cases"] += 1
            if p[0] == "macros" and not p[1]:
                table_kept = False
            acc.oracle["only_jaqal_errors"]["cases"] += 1
            nxt = rr[1]
            if p[0] == "let" and not let_seen:
                let_seen = True
                ov_in_force = p[1]
            if p[0] == "subs":
                subs = True
            # meaning
            want = ref(ov_in_force, subs)
            got = safe_meaning(nxt)
            if want[0] == "ok":
                ok = got == want
                acc.check("meaning_after_history", ok, make_case(gp, text, "meaning_after_history", prefix=prefix),
                          "" if ok else (f"the result of {hist_label(prefix)} has no meaning: {got[1]}" if got[0] != "ok" else
                                         f"the result of {hist_label(prefix)} differs from the reference at {first_diff(got[1], want[1])} (result vs reference)"))
            first_let = p[0] == "let" and not any(q[0] == "let" for q in h[:i])
            full = (not heavy) or i == len(h) - 1 or first_let
            # idempotent
            if p[0] != "text" and full:
                r2 = _guard(lambda: apply_pass(p, nxt, mode))
                case = make_case(gp, text, "idempotent", prefix=prefix)
                if r2[0] != "ok":
                    acc.check("idempotent", False, case, f"the second application of {p[0]} raises {r2[1]}: {r2[2]}")
                else:
                    again = r2[1]
                    # (`==` of long alias chains costs as much as the pass: one direction for a heavy program)
                    eq = bool(again == nxt) and (heavy or bool(nxt == again))
                    same = obj_sig(again) == obj_sig(nxt)
                    acc.check("idempotent", eq and same, case, f"{p[0]} twice vs once: ==: {eq}, same structure: {same}")
            # legal
            if p[0] != "text" and full:
                case = make_case(gp, text, "legal_after_pass", prefix=prefix)
                rt = _guard(lambda: generate_jaqal_program(nxt))
                if rt[0] != "ok":
                    acc.check("legal_after_pass", False, case, f"the generator raises {rt[1]}: {rt[2]}")
                else:
                    rp = _guard(lambda: parse(rt[1], mode))
                    if rp[0] != "ok":
                        acc.check("legal_after_pass", False, case,
                                  f"the text generated from the result of {hist_label(prefix)} is rejected: {rp[1]}: {rp[2]}; header of the text: "
                                  + repr([l for l in rt[1].split("\n") if l.split(" ")[0] in ("let", "register", "map")][:12]))
                    else:
                        back = safe_meaning(rp[1])
                        ok = got[0] == "ok" and back == got
                        acc.check("legal_after_pass", ok, case,
                                  "" if ok else f"re-parsed meaning differs at {first_diff(back[1], got[1]) if back[0] == got[0] == 'ok' else (back, got)}")
            cur = nxt
    # ---- the input is still what it was
    sig1 = obj_sig(c)
    m1 = safe_meaning(c)
    acc.check("input_not_modified", sig1 == sig0 and m1 == m0, make_case(gp, text, "input_not_modified", histories=histories),
              f"the plain parse changed under the passes: same structure {sig1 == sig0}, same meaning {m1 == m0}")

    # ---- flags
    for fc in flag_cases:
        check_flags(acc, gp, text, mode, c, fc, ref, info)


def size_bucket(n):
    for t in (8, 16, 32, 64, 128, 256, 1000):
        if n < t:
            return "<%d" % t
    return ">=1000"


def check_flags(acc, gp, text, mode, c, fc, ref, info):
    kw = {}
    for k in ("expand_macro", "expand_let", "expand_let_map"):
        if fc[k]:
            kw[k] = True
        elif fc["entry"] == "file":
            kw[k] = False          # spelled out instead of left to the default
    ov = fc["ov"]
    if fc["override"] == "none":
        kw["override_dict"] = None
    elif fc["override"] == "empty":
        kw["override_dict"] = {}
    elif fc["override"] == "given":
        kw["override_dict"] = dec_ov(ov)
    if fc["return_usepulses"] is not None:
        kw["return_usepulses"] = fc["return_usepulses"]
    case = make_case(gp, text, "flags_equal_passes", flags=fc)

    def by_flags():
        if fc["entry"] == "file":
            fd, path = tempfile.mkstemp(suffix=".jaqal", prefix="c10_scale_")
            try:
                with os.fdopen(fd, "w") as f:
                    f.write(text)
                out = parse_jaqal_file(path, inject_pulses=GATES if mode == "gates" else None, autoload_pulses=False, **kw)
            finally:
                os.unlink(path)
        else:
            out = parse(text, mode, **kw)
        if fc["return_usepulses"]:
            if not (isinstance(out, tuple) and len(out) == 2):
                raise TypeError("return_usepulses=True did not return a pair")
            out = out[0]
        return out
    a = _guard(by_flags)
    hand = []
    if fc["expand_macro"]:
        hand.append(["macros", True, "kw"])
    if fc["expand_let_map"]:
        hand += [["let", ov, "kw"], ["map"]]
    elif fc["expand_let"]:
        hand.append(["let", ov, "kw"])

    def by_hand():
        x = c
        for p in hand:
            x = apply_pass(p, x, mode)
        return x
    b = _guard(by_hand)
    acc.dist["flags:%s%s%s" % ("M" if fc["expand_macro"] else "-", "L" if fc["expand_let"] else "-",
                               "A" if fc["expand_let_map"] else "-")] += 1
    acc.dist["flags:override_dict " + fc["override"]] += 1
    acc.dist["flags:entry " + fc["entry"]] += 1
    acc.dist["flags:return_usepulses %s" % fc["return_usepulses"]] += 1
    if a[0] != "ok" or b[0] != "ok":
        ea = None if a[0] == "ok" else a[1]
        eb = None if b[0] == "ok" else b[1]
        acc.dist["flags:refused:%s/%s" % (ea, eb)] += 1
        acc.check("flags_equal_passes", ea == eb, case, f"with the flags: {ea or 'a circuit'} ({'' if a[0] == 'ok' else a[2]}), by hand: {eb or 'a circuit'} ({'' if b[0] == 'ok' else b[2]})")
        if ea == "JaqalError" or eb == "JaqalError":
            expected = (fc["expand_let_map"] and info["regparam"]) or any(o[0] in info["idx"] for o in fc["ov"])
            acc.check("applicable", expected, make_case(gp, text, "applicable", flags=fc),
                      f"refused: with the flags: {'' if a[0] == 'ok' else a[2]}; by hand: {'' if b[0] == 'ok' else b[2]}")
        for e, who in ((ea, "the flagged parse"), (eb, "the passes")):
            if e not in (None, "JaqalError"):
                acc.check("only_jaqal_errors", False, case, f"{who} raise {e}")
        return
    x, y = a[1], b[1]
    eq = bool(x == y) and bool(y == x)
    same = obj_sig(x) == obj_sig(y)
    applied = fc["expand_let"] or fc["expand_let_map"]
    want = ref(ov if applied else [], False)
    got = safe_meaning(x)
    okm = want[0] != "ok" or got == want
    acc.check("flags_equal_passes", eq and same and okm, case,
              f"flagged parse vs passes by hand: ==: {eq}, same structure: {same}, reference meaning: {okm}"
              + ("" if okm else f" (differs at {first_diff(got[1], want[1]) if got[0] == 'ok' else got[1]})"))


# ------------------------------------------------------------------------------------------------ run / replay

GROUPS = [[7, 8, 9, 11, 12, 14], [15, 16, 17, 20, 24, 25, 26], [31, 32, 33, 34, 40, 48, 49], [63, 64, 65, 100],
          [127, 128, 129, 200], [255, 256, 257], [1000]]


def gen_params(seed, n, thorough):
    """the generator parameters of the cases of a run: the families in turn, the size groups in turn per family"""
    rng = random.Random("c10_scale:%d:%s" % (seed, thorough))
    out = []
    off = rng.randrange(len(GROUPS))
    for i in range(n):
        fam = FAMILIES[i % len(FAMILIES)]
        grp = GROUPS[(i // len(FAMILIES) + off + (i % len(FAMILIES))) % len(GROUPS)]
        cap = CAP.get(fam, 1000)
        capq = cap if thorough else CAP_QUICK.get(fam, cap)
        size = rng.choice(grp)
        if size > capq:
            # beyond what this family affords: sometimes the largest affordable size, mostly a smaller group again
            # (quick tier: one in five goes on to the thorough tier's limit)
            c = rng.random()
            if not thorough and c < 0.2:
                size = min(size, cap)
            elif c < 0.5:
                size = capq - rng.randrange(3)
            else:
                size = rng.choice([x for grp2 in GROUPS for x in grp2 if x <= capq])
        style = "long" if fam == "long_names" else rng.choice(STYLES)
        out.append({"family": fam, "size": size, "style": style, "mode": rng.choice(["gates", "nogates"]),
                    "gseed": rng.randrange(1 << 30)})
    return out


def run(seed: int, n: int, driver: str = DEFAULT_DRIVER, thorough: bool = False) -> dict:
    _imports()
    import time
    acc = Acc()
    t0 = time.time()
    soft, hard = (170, 220) if thorough else (14, 20)
    k = float(os.environ.get("C10_SCALE_TIME_FACTOR", "1"))        # e.g. 100 to validate every case on a loaded machine
    soft, hard = soft * k, hard * k
    for gp in gen_params(seed, n, thorough):
        # safety valve for a heavily loaded machine (the cases themselves depend on the seed only): past the soft limit
        # the heavy programs are left out, past the hard limit everything is; both are counted
        dt = time.time() - t0
        if dt > hard or (dt > soft and weight(gp) > 1):
            acc.dist["left out for time (%s limit)" % ("hard" if dt > hard else "soft")] += 1
            continue
        process(acc, gp, thorough)
    return {"corr": {}, "oracle": acc.oracle, "distribution": dict(sorted(acc.dist.items())),
            "samples": acc.samples, "nontrivial": len(acc.nontrivial)}


def replay(case: dict, driver: str = DEFAULT_DRIVER) -> dict:
    """re-run the program of a failure entry (regenerated from its generator parameters) through all the checks; the
    verdict is that of the oracle named in the entry"""
    _imports()
    out = {"model": None, "impl": None}
    fails = []
    ncases = 0
    for thorough in (False, True):
        acc = Acc()
        process(acc, case["gen"], thorough)
        for name, o in acc.oracle.items():
            if case.get("oracle") in (None, name):
                ncases += o["cases"]
                fails += [f for f in o["failures"] if f not in fails]
    exact = [f for f in fails if f["case"]["what"] == case.get("what")]
    fails = exact or fails
    out["oracle_ok"] = (not fails) if ncases else None
    out["detail"] = "; ".join(f["case"]["oracle"] + " " + json.dumps(f["case"]["what"], default=str)[:300] + ": " + f["detail"] for f in fails)[:4000]
    return out


def main():
    ap = argparse.ArgumentParser()
    ap.add_argument("--seed", type=int, default=0)
    ap.add_argument("--n", type=int, default=66)
    ap.add_argument("--thorough", action="store_true")
    ap.add_argument("--json", action="store_true")
    a = ap.parse_args()
    res = run(a.seed, a.n, None, a.thorough)
    bad = 0
    for k, r in res["oracle"].items():
        nf = len(r["failures"]) + r.get("more_failures", 0)
        bad += nf
        print(f"oracle {k:24s} cases {r['cases']:6d}  failures {nf}")
    print("nontrivial", res["nontrivial"])
    if a.json:
        print(json.dumps(res, indent=1, default=str))
    else:
        for k, v in res["distribution"].items():
            print(f"  {k}: {v}")
        for k, r in res["oracle"].items():
            for f in r["failures"][:3]:
                print("FAILURE", k, json.dumps({"gen": f["case"]["gen"], "what": f["case"]["what"]}, default=str)[:1500], f["detail"][:1500])
    sys.exit(1 if bad else 0)


if __name__ == "__main__":
    main()
