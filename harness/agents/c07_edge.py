#!/venv/bin/python
"""C07 on the VALUES and PATHS the other C07 generators never produce (oracles on the real code alone).

    PYTHONPATH=/verif /venv/bin/python /verif/harness/agents/c07_edge.py [--seed 0] [--n 800] [--thorough] [--object-level]

Why.  `build_diff.py` and `c07_entry.py` draw their literals from a handful of "ordinary" numbers (0..9, 0.5, 2.5, -1.5)
and never write two statements whose texts differ only in a way a sloppy key could miss.  C07 says the meaning of a
statement depends only on its own text and the bindings in scope - so a statement must keep ITS value even when a
nearly identical statement stands elsewhere in the program.  This script fills programs that are rich in name
collisions (the same shapes as `c07_entry.py`: parameters named like lets / the register / aliases, statement texts
re-used in every scope where they are valid) with

* CONFUSABLE literals: doubles that are adjacent or agree in 15 / 16 significant digits (0.3 / 0.30000000000000004),
  different texts of one value (1 / +1 / 01, 0.5 / 0.50000000000000001), int against integral float (1 / 1.0),
  signed zeros (0 / -0 / 0.0 / -0.0), integers around 2**53, 2**63, 2**64, 65535, 2**31 that collapse when read as a
  double or a machine word, extremes (1.7976931348623157e308, 5.0e-324, 1.0e-400) and 4299/4300-digit integers;
  every program takes its classical literals from one or two such families, and TWIN statements (the same statement
  with another member of the family) are planted next to the original, in the main body and in other macros, as gate
  statements and as macro calls;
* FALSY values wherever a value can stand: lets equal to 0 / 0.0 / -0.0, index 0 written 0 / -0 / +0 / 00, loop and
  subcircuit counts 0, arguments 0 / 0.0 / -0.0 through macro parameters (as argument, index, count), empty blocks
  and empty macro bodies;
* header bindings that would be INVALID where the parameter that shadows them is used (a non-integer let shadowed by
  a count / index parameter, a let shadowed by a register parameter, ...), so that a scope-blind check shows as a
  rejection of a valid program.

Reference.  The program is kept as a JSON tree; `lex_*` evaluates it lexically (inside a macro a name is the parameter
of that name if there is one, else the header binding; in the main body the header binding).  Numbers are kept EXACTLY
(("int", decimal) / ("float", hex)): 1 is not 1.0, 0.0 is not -0.0, adjacent doubles differ.  Header objects are
values by name (("hdr", name); an alias of one qubit is unfolded to `source[index]`); after let-filling a let is the number its header binding holds (a let statement keeps an
integral value as an int: `let a 2.0` binds 2).

Oracles (all on the real code alone)
* `C07_edge_lexical`  at every stage (parse, parse flags expand_macro / expand_let, expand_macros with and without
  preserve_definitions, fill_in_let before / after expand_macros) that returns a circuit: walking the real objects
  gives exactly the lexical reference - the main body with calls followed into the macros, and every macro still
  defined opened on its symbolic parameters; block structure included while no macro has been expanded, gate
  applications in order afterwards.  A Parameter that is not (==) the parameter of that name of the macro it stands
  in is a failure.
* `C07_edge_accepts`  every generated program is valid under lexical scoping; when a stage rejects (or crashes on) one,
  it must also reject the same program with all macro parameters renamed to fresh names (by C07 the renaming changes
  nothing).  Rejections of both are tabulated, not judged.

Object-level stream (OFF by default: `--object-level`, `C07_EDGE_OBJECT_LEVEL=1`, or `run(..., object_level=True)`).
C07 quantifies over programs (texts; `observe_at` names `parse_jaqal_string`).  S-expressions whose macro parameters are
ready-made TYPED `Parameter` objects cannot be written as Jaqal text (parsed parameters are all untyped and equal by
name), so they are outside the quantifier; the stream exists so that the integrator can decide.  It hands the same trees
to `build` (and to `CircuitBuilder`) as S-expressions with Parameter objects of kinds chosen per macro (two macros get
DIFFERENT kinds for the same parameter name) and judges them with the same two oracles under the names
`C07_edge_object_lexical` / `C07_edge_object_accepts`.

Sizes: quick n=800 (~8 s: 800 generated + 13 fixed programs, 8 stages each, ~6500 judged stages), thorough n=4000
(every one of the 11 stages, ~44000 judged stages, ~1.5 min; n is raised to 1200 when smaller).  The object-level
stream adds about 40 %.
Importable: `run(seed, n, driver, thorough) -> dict`, `replay(case, driver) -> dict`; `corr` is empty (no Lean model here).
"""
import argparse
import json
import math
import os
import random
import re
import signal
import sys
import warnings

sys.path.insert(0, os.path.dirname(os.path.dirname(os.path.dirname(os.path.abspath(__file__)))))

from harness import timeouts as T  # noqa: E402

DEFAULT_DRIVER = "/verif/lean/.lake/build/bin/jaqal-model"

NAMES = ["r", "q", "a", "b", "i", "n", "x", "s", "t"]
# usage letters: q qubit, r register, f any number, x index (0/1), c count
SIG = {"g": "q", "h": "qq", "u": "qf", "v": "fq", "tq": "qqf", "w": "r", "k": "f", "kk": "ff", "z": ""}
WEIGHT = {"g": 3, "h": 1, "u": 6, "v": 2, "tq": 1, "w": 1, "k": 6, "kk": 2, "z": 0.4}
PARAM_SORTS = ["reg", "reg", "qubit", "qubit", "idx", "idx", "cnt", "num", "num", "num"]
SORT_USAGE = {"reg": "r", "qubit": "q", "idx": "x", "cnt": "c", "num": "f"}
USAGE_SORTS = {"x": ("idx",), "c": ("idx", "cnt"), "f": ("idx", "cnt", "num")}

INT_RE = re.compile(r"[-+]?[0-9]+\Z")
NUM_RE = re.compile(r"[-+]?[0-9]+\.[0-9]+([eE][-+]?[0-9]+)?\Z")


# ---------------------------------------------------------------------------------------------------------------
# the library, imported lazily

_L = {}


def lib():
    if _L:
        return _L
    os.environ.setdefault("JAQALPAQ_RUN_EMULATOR", "1")
    from jaqalpaq.error import JaqalError
    from jaqalpaq.parser import parse_jaqal_string
    from jaqalpaq.core.algorithm import fill_in_let, expand_macros
    from jaqalpaq.core.circuitbuilder import build, CircuitBuilder, SequentialBlockBuilder, ParallelBlockBuilder
    from jaqalpaq.core.constant import Constant
    from jaqalpaq.core.parameter import Parameter, ParamType
    from jaqalpaq.core.register import Register, NamedQubit
    from jaqalpaq.core.gate import GateStatement
    from jaqalpaq.core.block import BlockStatement, LoopStatement
    from jaqalpaq.core.macro import Macro

    _L.update(JaqalError=JaqalError, parse=parse_jaqal_string, fill_in_let=fill_in_let, expand_macros=expand_macros,
              build=build, CircuitBuilder=CircuitBuilder, SequentialBlockBuilder=SequentialBlockBuilder,
              ParallelBlockBuilder=ParallelBlockBuilder, Constant=Constant, Parameter=Parameter, ParamType=ParamType,
              Register=Register, NamedQubit=NamedQubit, GateStatement=GateStatement, BlockStatement=BlockStatement,
              LoopStatement=LoopStatement, Macro=Macro)
    return _L


class Hang(BaseException):
    pass


def _on_alarm(_s, _f):
    raise Hang()


def guarded(f):
    """-> ("ok", value) | ("rej", message)   JaqalError: a legitimate rejection
                        | ("exc", class, message) | ("hang", "", "")"""
    L = lib()
    try:
        old = signal.signal(signal.SIGALRM, _on_alarm)
    except ValueError:  # not the main thread
        old = None
    if old is not None:
        signal.alarm(int(T.limit()))
    try:
        with warnings.catch_warnings():
            warnings.simplefilter("ignore")
            return ("ok", f())
    except Hang:
        T.saw_hang()
        return ("hang", "", "")
    except L["JaqalError"] as e:
        return ("rej", str(e)[:300])
    except RecursionError:
        return ("exc", "RecursionError", "")
    except Exception as e:  # noqa: BLE001
        return ("exc", type(e).__name__, str(e)[:200])
    finally:
        if old is not None:
            signal.alarm(0)
            signal.signal(signal.SIGALRM, old)


# ---------------------------------------------------------------------------------------------------------------
# literals

def is_int_text(text):
    return bool(INT_RE.match(text))


def py_number(text):
    """the Python number a Jaqal literal denotes"""
    if is_int_text(text):
        return int(text)
    if not NUM_RE.match(text):
        raise ValueError(f"not a Jaqal number: {text[:40]!r}")
    return float(text)


def exact(v):
    """a Python number, exactly and with its type"""
    if isinstance(v, bool):
        return ("bool", str(v))
    if isinstance(v, int):
        return ("int", str(v))
    if isinstance(v, float):
        return ("float", v.hex())
    return ("?", type(v).__name__)


def lit_value(text):
    return exact(py_number(text))


# What a literal means is not C07's business; that it means the SAME wherever it is written is.  So the reference takes
# the value of a literal text (and what a let statement binds to one) from the library itself, reading the literal in a
# program that holds nothing else; readings that differ from Python's own are tabulated, not judged.
_ISO = {}


def iso_literal(text, via):
    """the exact value the library gives the literal as the only gate argument of a one-statement program"""
    key = (via, "lit", text)
    if key not in _ISO:
        L = lib()
        if via == "text":
            out = guarded(lambda: L["parse"](f"register r[1]\nk {text}\n", autoload_pulses=False))
        else:
            out = guarded(lambda: L["build"](("circuit", ("register", "r", 1), ("gate", "k", py_number(text)))))
        _ISO[key] = exact(list(out[1].body.statements[0].parameters.values())[0]) if out[0] == "ok" else None
    return _ISO[key]


def iso_let(text, via):
    """the exact value `let a <text>` binds in a program that holds nothing else"""
    key = (via, "let", text)
    if key not in _ISO:
        L = lib()
        if via == "text":
            out = guarded(lambda: L["parse"](f"let a {text}\nregister r[1]\n", autoload_pulses=False))
        else:
            out = guarded(lambda: L["build"](("circuit", ("let", "a", py_number(text)), ("register", "r", 1))))
        _ISO[key] = exact(out[1].constants["a"].value) if out[0] == "ok" else None
    return _ISO[key]


def let_binding(text):
    """what `let a <text>` binds as Python reads it: a let keeps an integral value as an int (`let a 2.0` -> 2)"""
    v = py_number(text)
    if isinstance(v, float) and v == int(v):
        v = int(v)
    return exact(v)


def float_lit(x, fmt=None):
    """a Jaqal NUMBER literal of the double x (the lexer wants digits on both sides of a '.')"""
    s = repr(x) if fmt is None else format(x, fmt)
    if "e" in s:
        m, e = s.split("e")
        if "." not in m:
            m += ".0"
        s = m + "e" + e
    elif "." not in s:
        s += ".0"
    return s


FIXED_FAMILIES = [
    ["0.3", "0.30000000000000004", "0.29999999999999999", "0.3000000000000000"],
    ["0.1", "0.10000000000000002", "0.09999999999999999", "0.1000000000000000055511151231257827"],
    ["-1.0", "-1.0000000000000002", "-0.9999999999999999", "-1"],
    ["6.283185307179586", "6.283185307179587", "6.2831853071795862", "6.28318530717959"],
    ["1", "1.0", "+1", "01", "1.00", "1.0e0", "+1.0", "0.1e1"],
    ["0", "0.0", "-0.0", "-0", "+0", "00", "0.0e5", "-0.0e-5", "+0.0"],
    ["9007199254740992", "9007199254740993", "9007199254740992.0", "9007199254740993.0", "9007199254740994.0", "9007199254740991"],
    ["9223372036854775807", "9223372036854775808", "-9223372036854775808", "-9223372036854775809", "9223372036854775808.0"],
    ["18446744073709551615", "18446744073709551616", "18446744073709551617", "18446744073709551616.0", "0"],
    ["65535", "65536", "65535.0", "-65535", "131071"],
    ["4294967295", "4294967296", "2147483647", "2147483648", "-2147483648", "4294967296.0", "0"],
    ["1.7976931348623157e308", "1.7976931348623155e308", "1.0e308", "-1.7976931348623157e308"],
    ["5.0e-324", "4.0e-324", "1.0e-323", "0.0", "1.0e-400", "-1.0e-400", "2.2250738585072014e-308", "2.225073858507201e-308"],
    ["1.0e22", "1.0e23", "9.999999999999999e22", "10000000000000000000000", "100000000000000000000000"],
    ["0.5", "0.50000000000000001", "0.5000000000000001", "0.49999999999999994", "+0.5", "0.5e0", "5.0e-1"],
    ["123456789.12345678", "123456789.12345679", "123456789.1234568", "123456789.12345677"],
    ["3.141592653589793", "3.1415926535897931", "3.1415926535897936", "3.14159265358979", "3.141592653589794"],
    ["2.5", "2.4999999999999996", "2.5000000000000004", "-2.5", "2"],
]


def huge_family():
    return ["9" * 4299, "9" * 4298 + "8", "1" + "0" * 4299, "1" + "0" * 4298 + "1", "-" + "9" * 4299]


def random_family(rng):
    r = rng.random()
    if r < 0.3:
        base = rng.choice([2 ** 53, 2 ** 63, 2 ** 64, 65535, 2 ** 31, 2 ** 32, 2 ** 24, 10 ** rng.randrange(15, 40)])
        n = base + rng.randrange(-2, 3)
        fam = [str(n), str(n + 1), str(n - 1), "+" + str(n), float_lit(float(n)), str(-n)]
        if rng.random() < 0.5:
            fam.append(float_lit(math.nextafter(float(n), math.inf)))
        return fam
    if r < 0.5:
        x = rng.uniform(-10, 10)
    elif r < 0.65:
        x = rng.random()
    elif r < 0.8:
        x = 10.0 ** rng.uniform(-300, 300) * rng.choice([1, -1])
    elif r < 0.9:
        x = float(rng.randrange(1, 2 ** 53))
    else:
        x = math.ldexp(rng.random() + 0.5, rng.randrange(-1070, 1020))
    up = math.nextafter(x, math.inf)
    dn = math.nextafter(x, -math.inf)
    fam = [float_lit(x), float_lit(up), float_lit(dn), float_lit(x, ".16g"), float_lit(x, ".15g"), float_lit(x, ".17g"),
           float_lit(math.nextafter(up, math.inf)), float_lit(up, ".20g")]
    return fam


def dedupe(xs):
    out = []
    for x in xs:
        if x not in out:
            out.append(x)
    return out


def relation(t1, t2):
    """how two literal texts are confusable (for `distribution`)"""
    a, b = py_number(t1), py_number(t2)
    if t1 == t2:
        return "identical text"
    if exact(a) == exact(b):
        return "one value written in two ways"
    if a == b and type(a) is not type(b):
        return "int against the float that equals it"
    if a == b:
        return "0.0 against -0.0"
    if isinstance(a, float) and isinstance(b, float):
        if format(a, ".16g") == format(b, ".16g"):
            return "doubles agreeing in 16 significant digits"
        if format(a, ".15g") == format(b, ".15g"):
            return "doubles agreeing in 15 significant digits"
        if a == -b:
            return "a number and its negative"
        return "different doubles"
    if isinstance(a, int) and isinstance(b, int):
        try:
            if float(a) == float(b):
                return "ints that are equal as doubles"
        except OverflowError:
            pass
        if (a - b) % 2 ** 64 == 0 or (a - b) % 2 ** 32 == 0 or (a - b) % 2 ** 16 == 0:
            return "ints equal modulo a machine word"
        if len(str(abs(a))) > 4000 or len(str(abs(b))) > 4000:
            return "ints of about 4300 digits"
        if a == -b:
            return "a number and its negative"
        return "different ints"
    try:
        if float(a) == float(b):
            return "int and float equal once the int is rounded to a double"
    except OverflowError:
        pass
    return "different int and float"


# ---------------------------------------------------------------------------------------------------------------
# programs as JSON trees (the format of c07_entry.py; literals are TEXTS)
#
# prog = {"lets":   [[name, text, role]]             role: idx (binds 0/1) | cnt (binds 0..3) | num (any number) | size
#         "reg":    [name, size]                      size: int | name of the size let
#         "maps":   [[name, "whole", src] | [name, "slice", src, start, stop, step] | [name, "qubit", src, index]]
#         "macros": [[name, [param], [sort], "seq" | "par", [stmt]]]
#         "main":   [stmt]}
# stmt = ["gate", name, [arg]] | ["call", name, [arg]] | ["loop", count, "seq" | "par", [stmt]] | ["seq", [stmt]]
#      | ["par", [stmt]] | ["sub", count | None, [stmt]]
# arg / count = ["num", text] | ["id", name] | ["item", array name, ["num", text] | ["id", name]]


def r_arg(a, ren=None):
    ren = ren or {}
    if a[0] == "num":
        return a[1]
    if a[0] == "id":
        return ren.get(a[1], a[1])
    return f"{ren.get(a[1], a[1])}[{r_arg(a[2], ren)}]"


def r_block(kind, stmts, ren):
    if kind == "par":
        return "< " + " | ".join(r_stmt(s, ren) for s in stmts) + " >"
    return "{ " + "; ".join(r_stmt(s, ren) for s in stmts) + " }"


def r_stmt(s, ren=None):
    if s[0] in ("gate", "call"):
        return " ".join([s[1]] + [r_arg(a, ren) for a in s[2]])
    if s[0] == "loop":
        return f"loop {r_arg(s[1], ren)} " + r_block(s[2], s[3], ren)
    if s[0] in ("seq", "par"):
        return r_block(s[0], s[1], ren)
    if s[0] == "sub":
        return "subcircuit " + (r_arg(s[1], ren) + " " if s[1] is not None else "") + r_block("seq", s[2], ren)
    raise ValueError(s)


def alpha_map(k, params):
    return {p: f"pz{k}_{j}" for j, p in enumerate(params)}


def render(prog, alpha=False):
    """Jaqal text; alpha=True renames every macro parameter to a fresh name (pz<macro>_<k>)"""
    lines = []
    for name, text, _role in prog["lets"]:
        lines.append(f"let {name} {text}")
    lines.append(f"register {prog['reg'][0]}[{prog['reg'][1]}]")
    for m in prog["maps"]:
        if m[1] == "whole":
            lines.append(f"map {m[0]} {m[2]}")
        elif m[1] == "qubit":
            lines.append(f"map {m[0]} {m[2]}[{m[3]}]")
        else:
            start, stop, step = ("" if v is None else str(v) for v in m[3:6])
            lines.append(f"map {m[0]} {m[2]}[{start}:{stop}" + (f":{step}" if step else "") + "]")
    for k, (name, params, _sorts, kind, body) in enumerate(prog["macros"]):
        ren = alpha_map(k, params) if alpha else {}
        lines.append("macro " + " ".join([name] + [ren.get(p, p) for p in params]) + " " + r_block(kind, body, ren))
    for s in prog["main"]:
        lines.append(r_stmt(s))
    return "\n".join(lines) + "\n"


def ren_arg(a, ren):
    if a[0] == "num":
        return a
    if a[0] == "id":
        return ["id", ren.get(a[1], a[1])]
    return ["item", ren.get(a[1], a[1]), ren_arg(a[2], ren)]


def ren_stmts(stmts, ren):
    out = []
    for s in stmts:
        if s[0] in ("gate", "call"):
            out.append([s[0], s[1], [ren_arg(a, ren) for a in s[2]]])
        elif s[0] == "loop":
            out.append(["loop", ren_arg(s[1], ren), s[2], ren_stmts(s[3], ren)])
        elif s[0] in ("seq", "par"):
            out.append([s[0], ren_stmts(s[1], ren)])
        else:
            out.append(["sub", None if s[1] is None else ren_arg(s[1], ren), ren_stmts(s[2], ren)])
    return out


def alpha_prog(prog):
    """the same program with every macro parameter renamed to a fresh name, as a tree"""
    p2 = json.loads(json.dumps(prog))
    for k, m in enumerate(p2["macros"]):
        ren = alpha_map(k, m[1])
        m[4] = ren_stmts(m[4], ren)
        m[1] = [ren[p] for p in m[1]]
    return p2


# ---------------------------------------------------------------------------------------------------------------
# lexical reference evaluation of the JSON tree
#
# values: ("int", dec) | ("float", hex) | ("hdr", name) | ("P", name) | ("item", value, value)
# trees:  ("gate", name, (value, ...)) | ("loop", value, kind, [tree]) | ("blk", kind, [tree]) | ("sub", value, [tree])


class LexError(Exception):
    pass


def lex_arg(a, env, via):
    if a[0] == "num":
        v = iso_literal(a[1], via)
        if v is None:
            raise LexError(f"the literal {a[1][:40]} is rejected when it stands alone")
        return v
    if a[0] == "id":
        if a[1] not in env:
            raise LexError(f"undefined identifier {a[1]}")
        return env[a[1]]
    base = lex_arg(["id", a[1]], env, via)
    idx = lex_arg(a[2], env, via)
    if idx[0] == "float":
        raise LexError("float index")
    return ("item", base, idx)


def lex_stmts(stmts, env, prog, henv, via, depth=0):
    if depth > 40:
        raise LexError("macro nesting too deep")
    out = []
    for s in stmts:
        if s[0] == "gate":
            out.append(("gate", s[1], tuple(lex_arg(a, env, via) for a in s[2])))
        elif s[0] == "call":
            m = next((m for m in prog["macros"] if m[0] == s[1]), None)
            if m is None or len(m[1]) != len(s[2]):
                raise LexError(f"bad call of {s[1]}")
            env2 = dict(henv)
            env2.update({p: lex_arg(a, env, via) for p, a in zip(m[1], s[2])})
            out.append(("blk", m[3], lex_stmts(m[4], env2, prog, henv, via, depth + 1)))
        elif s[0] == "loop":
            out.append(("loop", lex_arg(s[1], env, via), s[2], lex_stmts(s[3], env, prog, henv, via, depth)))
        elif s[0] in ("seq", "par"):
            out.append(("blk", s[0], lex_stmts(s[1], env, prog, henv, via, depth)))
        elif s[0] == "sub":
            out.append(("sub", ("int", "1") if s[1] is None else lex_arg(s[1], env, via),
                        lex_stmts(s[2], env, prog, henv, via, depth)))
        else:
            raise LexError(f"bad statement {s[0]}")
    return out


def lex_program(prog, via="text"):
    """-> {"main": [tree], "macros": {name: [tree] opened on symbolic parameters}, "lets": {name: exact value}}"""
    henv = {}
    lets = {}
    for name, text, _role in prog["lets"]:
        henv[name] = ("hdr", name)
        lets[name] = iso_let(text, via)
        if lets[name] is None:
            raise LexError(f"`let {name} {text[:40]}` is rejected when it stands alone")
    henv[prog["reg"][0]] = ("hdr", prog["reg"][0])
    for m in prog["maps"]:
        if m[1] == "qubit":  # unfolded, see obj_value
            henv[m[0]] = ("item", henv[m[2]], ("hdr", m[3]) if isinstance(m[3], str) else ("int", str(m[3])))
        else:
            henv[m[0]] = ("hdr", m[0])
    macros = {}
    for name, params, _sorts, _kind, body in prog["macros"]:
        env = dict(henv)
        env.update({p: ("P", p) for p in params})
        macros[name] = lex_stmts(body, env, prog, henv, via)
    return {"main": lex_stmts(prog["main"], henv, prog, henv, via), "macros": macros, "lets": lets}


def map_value(v, lets):
    if v[0] == "hdr" and v[1] in lets:
        return lets[v[1]]
    if v[0] == "item":
        return ("item", map_value(v[1], lets), map_value(v[2], lets))
    return v


def fill_trees(trees, lets):
    """the trees with every let replaced by the number it binds"""
    out = []
    for t in trees:
        if t[0] == "gate":
            out.append(("gate", t[1], tuple(map_value(a, lets) for a in t[2])))
        elif t[0] == "loop":
            out.append(("loop", map_value(t[1], lets), t[2], fill_trees(t[3], lets)))
        elif t[0] == "blk":
            out.append(("blk", t[1], fill_trees(t[2], lets)))
        else:
            out.append(("sub", map_value(t[1], lets), fill_trees(t[2], lets)))
    return out


def flatten(trees):
    """the gate applications in program order; loops and subcircuits leave markers (their counts are identifiers too);
    sequential / parallel grouping is dropped (expand_macros splices blocks)"""
    out = []
    for t in trees:
        if t[0] == "gate":
            out.append(("gate", t[1], t[2]))
        elif t[0] == "loop":
            out.append(("loop", t[1]))
            out.extend(flatten(t[3]))
            out.append(("endloop",))
        elif t[0] == "blk":
            out.extend(flatten(t[2]))
        elif t[0] == "sub":
            out.append(("sub", t[1]))
            out.extend(flatten(t[2]))
            out.append(("endsub",))
    return out


def show(v):
    """compact text of a value / tree / flat entry"""
    if isinstance(v, (tuple, list)):
        if not v:
            return "()"
        h = v[0]
        if h == "int":
            return v[1] if len(v[1]) < 60 else f"{v[1][:12]}...{v[1][-6:]} ({len(v[1])} digits)"
        if h == "float":
            return repr(float.fromhex(v[1]))
        if h == "hdr":
            return v[1]
        if h == "P":
            return f"<param {v[1]}>"
        if h == "item":
            return f"{show(v[1])}[{show(v[2])}]"
        if h == "gate":
            return " ".join([v[1]] + [show(a) for a in v[2]])
        if h == "loop":
            return "loop " + show(v[1]) + (" " + show(("blk", v[2], v[3])) if len(v) > 2 else " (")
        if h == "blk":
            op, cl, sep = ("<", ">", " | ") if v[1] == "par" else ("{", "}", "; ")
            return op + " " + sep.join(show(t) for t in v[2]) + " " + cl
        if h == "sub":
            return "subcircuit " + show(v[1]) + (" " + show(("blk", "seq", v[2])) if len(v) > 2 else " (")
        if h in ("endloop", "endsub"):
            return ")"
        return "(" + " ".join(show(x) for x in v) + ")"
    return str(v)


def first_difference(got, want, what="statement"):
    for k in range(max(len(got), len(want))):
        g = got[k] if k < len(got) else None
        w = want[k] if k < len(want) else None
        if g != w:
            return (f"{what} #{k}: built `{show(g)[:300] if g is not None else '(nothing)'}`, "
                    f"lexically `{show(w)[:300] if w is not None else '(nothing)'}`")
    return ""


# ---------------------------------------------------------------------------------------------------------------
# evaluation of the REAL objects


class ObjError(Exception):
    pass


def obj_value(o, env, params, circuit, where):
    """env: parameter name -> value (None outside macros); params: parameter name -> the Parameter object in scope"""
    L = lib()
    if isinstance(o, (bool, int, float)):
        return exact(o)
    if isinstance(o, L["Constant"]):
        if o.name not in circuit.constants:
            raise ObjError(f"{where}: constant {o.name} is not a let of the circuit")
        return ("hdr", o.name)
    if isinstance(o, L["Parameter"]):
        if env is None or o.name not in env:
            raise ObjError(f"{where}: holds Parameter {o.name!r}, which is not a parameter in scope there")
        own = params.get(o.name)
        if own is not None and not (own == o):
            raise ObjError(f"{where}: holds {o!r}, but the parameter {o.name} in scope there is {own!r}")
        return env[o.name]
    if isinstance(o, L["NamedQubit"]):
        # an alias of one qubit (`map q r[i]`) is unfolded to what the header binds it to, on both sides: expand_macros
        # rewrites a named qubit inside a macro body to `r[i]`, which is the same qubit
        return ("item", obj_value(o.alias_from, env, params, circuit, where), obj_value(o.alias_index, env, params, circuit, where))
    if isinstance(o, L["Register"]):
        if o.name in circuit.registers:
            return ("hdr", o.name)
        raise ObjError(f"{where}: register {o.name} is not a register of the circuit")
    raise ObjError(f"{where}: unexpected {type(o).__name__} as a value")


def obj_stmts(stmts, env, params, circuit, where, depth=0):
    L = lib()
    if depth > 40:
        raise ObjError(f"{where}: macro nesting too deep")
    out = []
    for s in stmts:
        if isinstance(s, L["GateStatement"]):
            macro = circuit.macros.get(s.name)
            if macro is None and isinstance(s.gate_def, L["Macro"]):
                macro = s.gate_def
            args = [obj_value(v, env, params, circuit, f"{where}, statement `{s.name}`") for v in s.parameters.values()]
            if macro is not None:
                if len(args) != len(macro.parameters):
                    raise ObjError(f"{where}: call of {s.name} with {len(args)} arguments")
                env2 = {p.name: a for p, a in zip(macro.parameters, args)}
                params2 = {p.name: p for p in macro.parameters}
                out.append(("blk", "par" if macro.body.parallel else "seq",
                            obj_stmts(macro.body.statements, env2, params2, circuit,
                                      f"macro {macro.name} (called from {where})", depth + 1)))
            else:
                out.append(("gate", s.name, tuple(args)))
        elif isinstance(s, L["LoopStatement"]):
            out.append(("loop", obj_value(s.iterations, env, params, circuit, where), "par" if s.statements.parallel else "seq",
                        obj_stmts(s.statements.statements, env, params, circuit, where, depth)))
        elif isinstance(s, L["BlockStatement"]):
            if s.subcircuit:
                out.append(("sub", obj_value(s.iterations, env, params, circuit, where),
                            obj_stmts(s.statements, env, params, circuit, where, depth)))
            else:
                out.append(("blk", "par" if s.parallel else "seq", obj_stmts(s.statements, env, params, circuit, where, depth)))
        else:
            raise ObjError(f"{where}: unexpected statement {type(s).__name__}")
    return out


def obj_program(circuit):
    """-> {"main": [tree] | ObjError text, "macros": {name: [tree] | ObjError text}}"""
    res = {"macros": {}}
    try:
        res["main"] = obj_stmts(circuit.body.statements, None, {}, circuit, "main body")
    except ObjError as e:
        res["main"] = str(e)
    for name, m in circuit.macros.items():
        env = {p.name: ("P", p.name) for p in m.parameters}
        params = {p.name: p for p in m.parameters}
        try:
            res["macros"][name] = obj_stmts(m.body.statements, env, params, circuit, f"macro {name}")
        except ObjError as e:
            res["macros"][name] = str(e)
    return res


# ---------------------------------------------------------------------------------------------------------------
# stages
#
# text stream:   a stage = (parse flags, passes);  passes: "L" fill_in_let, "M" expand_macros, "Mp" expand_macros(preserve)
# object stream: flags = ("sx",) build(S-expression) | ("cb",) CircuitBuilder; then the same passes

TEXT_STAGES = [
    ((), []), ((), ["M"]), ((), ["Mp"]), ((), ["L"]), ((), ["L", "M"]), ((), ["M", "L"]), ((), ["Mp", "L"]),
    (("expand_macro",), []), (("expand_let",), []), (("expand_let",), ["M"]), (("expand_let", "expand_macro"), []),
]
QUICK_TEXT_STAGES = [TEXT_STAGES[k] for k in (0, 1, 2, 3, 4, 5, 7, 10)]
# no fill_in_let here: it rebuilds a macro from the NAMES of its parameters, so the parameter list of the result is
# untyped while the body keeps the typed objects (expansion goes by name and still works) - not a scoping matter
OBJECT_STAGES = [(("sx",), []), (("sx",), ["M"]), (("sx",), ["Mp"]), (("cb",), []), (("cb",), ["M"])]


def stage_name(flags, passes):
    head = "build(S-expression)" if "sx" in flags else "CircuitBuilder" if "cb" in flags else "parse(" + ",".join(flags) + ")"
    return head + "".join("." + p for p in passes)


def stage_filled(flags, passes):
    return "expand_let" in flags or "L" in passes


def stage_expanded(flags, passes):
    return "expand_macro" in flags or "M" in passes or "Mp" in passes


KINDS = {"reg": "REGISTER", "qubit": "QUBIT", "idx": "INT", "cnt": "INT", "num": "FLOAT"}


def sx_arg(a):
    if a[0] == "num":
        return py_number(a[1])
    if a[0] == "id":
        return a[1]
    return ("array_item", a[1], sx_arg(a[2]))


def sx_stmt(s):
    if s[0] in ("gate", "call"):
        return ("gate", s[1], *[sx_arg(a) for a in s[2]])
    if s[0] == "loop":
        return ("loop", sx_arg(s[1]), sx_block(s[2], s[3]))
    if s[0] in ("seq", "par"):
        return sx_block(s[0], s[1])
    return ("subcircuit_block", "" if s[1] is None else sx_arg(s[1]), *[sx_stmt(x) for x in s[2]])


def sx_block(kind, stmts):
    return ("parallel_block" if kind == "par" else "sequential_block", *[sx_stmt(s) for s in stmts])


def sx_params(prog, k, typing):
    """the parameter list of macro k: names, or Parameter objects of the kinds `typing[k]` gives (None: untyped object,
    "str": a plain name)"""
    L = lib()
    _name, params, sorts, _kind, _body = prog["macros"][k]
    out = []
    for j, (p, srt) in enumerate(zip(params, sorts)):
        mode = typing[k][j] if typing else "str"
        if mode == "str":
            out.append(p)
        elif mode == "none":
            out.append(L["Parameter"](p, None))
        else:
            out.append(L["Parameter"](p, getattr(L["ParamType"], KINDS[srt])))
    return out


def sx_header(prog):
    out = []
    for name, text, _role in prog["lets"]:
        out.append(("let", name, py_number(text)))
    out.append(("register", prog["reg"][0], prog["reg"][1]))
    for m in prog["maps"]:
        if m[1] == "whole":
            out.append(("map", m[0], m[2]))
        elif m[1] == "qubit":
            out.append(("map", m[0], m[2], m[3]))
        else:
            out.append(("map", m[0], m[2], m[3], m[4], m[5]))
    return out


def to_sexpr(prog, typing):
    out = ["circuit"] + sx_header(prog)
    for k, m in enumerate(prog["macros"]):
        out.append(("macro", m[0], *sx_params(prog, k, typing), sx_block(m[3], m[4])))
    out.extend(sx_stmt(s) for s in prog["main"])
    return tuple(out)


def to_circuitbuilder(prog, typing):
    L = lib()
    cb = L["CircuitBuilder"]()
    for name, text, _role in prog["lets"]:
        cb.let(name, py_number(text), unevaluated=True)
    cb.register(prog["reg"][0], prog["reg"][1], unevaluated=True)
    for m in prog["maps"]:
        if m[1] == "whole":
            cb.map(m[0], m[2], unevaluated=True)
        elif m[1] == "qubit":
            cb.map(m[0], m[2], m[3], unevaluated=True)
        else:
            cb.map(m[0], m[2], slice(m[3], m[4], m[5]), unevaluated=True)
    for k, m in enumerate(prog["macros"]):
        body = L["ParallelBlockBuilder"]() if m[3] == "par" else L["SequentialBlockBuilder"]()
        body.expression.extend(sx_stmt(s) for s in m[4])
        cb.macro(m[0], sx_params(prog, k, typing), body, unevaluated=True)
    for s in prog["main"]:
        cb.expression.append(sx_stmt(s))
    return cb


def do_first(prog, flags, typing):
    L = lib()
    if "sx" in flags:
        return L["build"](to_sexpr(prog, typing))
    if "cb" in flags:
        return to_circuitbuilder(prog, typing).build()
    return L["parse"](render(prog), autoload_pulses=False, **{k: True for k in flags})


def do_pass(c, p):
    L = lib()
    if p == "L":
        return L["fill_in_let"](c)
    if p == "M":
        return L["expand_macros"](c)
    if p == "Mp":
        return L["expand_macros"](c, preserve_definitions=True)
    raise ValueError(p)


class StageRunner:
    """runs the stages of one program, sharing prefixes"""

    def __init__(self, prog, typing=None):
        self.prog, self.typing = prog, typing
        self.cache = {}

    def outcome(self, flags, passes):
        key = (tuple(flags), tuple(passes))
        if key in self.cache:
            return self.cache[key]
        if not passes:
            out = guarded(lambda: do_first(self.prog, flags, self.typing))
        else:
            prev = self.outcome(flags, passes[:-1])
            if prev[0] != "ok":
                out = ("prefix",) + tuple(prev)
            else:
                out = guarded(lambda: do_pass(prev[1], passes[-1]))
        self.cache[key] = out
        return out


def with_prefixes(stages):
    seen, out = set(), []
    for flags, seq in stages:
        for k in range(len(seq) + 1):
            key = (tuple(flags), tuple(seq[:k]))
            if key not in seen:
                seen.add(key)
                out.append((list(key[0]), list(key[1])))
    return out


# ---------------------------------------------------------------------------------------------------------------
# generator


class Gen:
    def __init__(self, rng):
        self.rng = rng

    def pick(self, xs):
        xs = list(xs)
        return xs[self.rng.randrange(len(xs))]

    def wpick(self, pairs):
        pairs = list(pairs)
        tot = sum(w for _x, w in pairs)
        r = self.rng.random() * tot
        for x, w in pairs:
            r -= w
            if r < 0:
                return x
        return pairs[-1][0]

    def chance(self, p):
        return self.rng.random() < p

    # ---- literal pools
    def choose_families(self):
        fams = []
        for _ in range(self.pick([1, 1, 2])):
            r = self.rng.random()
            if r < 0.15:
                fams.append(list(FIXED_FAMILIES[self.pick([4, 5, 5])]))  # ones and zeros
            elif r < 0.55:
                fams.append(list(self.pick(FIXED_FAMILIES)))
            elif r < 0.58:
                fams.append(huge_family())
            else:
                fams.append(dedupe(random_family(self.rng)))
        self.fams = fams
        self.family_of = {}
        for k, f in enumerate(fams):
            for t in f:
                self.family_of.setdefault(t, k)

    def f_literal(self):
        if self.chance(0.85):
            return self.pick(self.pick(self.fams))
        return self.pick(["0", "1", "0.0", "-0.0", "2", "0.5"])

    def x_literal(self):
        return self.pick(["0", "1", "0", "1", "0", "-0", "+0", "00", "+1", "01"])

    def c_literal(self):
        if self.chance(0.06):
            return self.pick(["9007199254740993", "18446744073709551616", "4294967296", "65536"])
        return self.pick(["0", "0", "0", "1", "2", "3", "+0", "-0", "00", "+2"])

    # ---- header
    def header(self):
        rng = self.rng
        names = list(NAMES)
        rng.shuffle(names)
        if self.chance(0.6):
            names.remove("r")
            names.insert(0, "r")
        rname = names.pop(0)
        size = rng.randrange(2, 5)
        lets, maps, scope = [], [], {}
        reg = [rname, size]
        if self.chance(0.2):
            nm = names.pop(0)
            lets.append([nm, self.pick([str(size), f"{size}.0", f"+{size}", f"0{size}"]), "size"])
            scope[nm] = "num"
            reg = [rname, nm]
        scope[rname] = ("reg", size)
        for _ in range(self.pick([1, 2, 2, 3, 3])):
            role = self.pick(["idx", "idx", "cnt", "num", "num", "num"])
            if role == "idx":
                text = self.pick(["0", "1", "0", "-0", "+0", "0.0", "-0.0", "1.0", "00", "0.0e3"])
            elif role == "cnt":
                text = self.pick(["0", "0", "1", "2", "3", "0.0", "-0.0", "2.0", "+0", "-0"])
            else:
                text = self.f_literal() if self.chance(0.7) else self.pick(["0.5", "2.5", "-1.5", "-1", "0.0", "-0.0", "0"])
            nm = names.pop(0)
            lets.append([nm, text, role])
            scope[nm] = role
        idx_lets = [l[0] for l in lets if l[2] == "idx"]
        for _ in range(self.pick([0, 0, 1, 1, 2])):
            if len(names) <= 1:
                break
            srcs = [(k, v[1]) for k, v in scope.items() if isinstance(v, tuple)]
            src, ssize = self.pick(srcs)
            kind = self.pick(["whole", "slice", "qubit", "qubit"])
            nm = names.pop(0)
            if kind == "slice" and ssize >= 3:
                start = self.pick([None, 0, 1])
                stop = self.pick([None, ssize])
                if len(range(start or 0, ssize)) >= 2:
                    maps.append([nm, "slice", src, start, stop, self.pick([None, None, 1])])
                    scope[nm] = ("reg", len(range(start or 0, ssize)))
                    continue
                kind = "whole"
            if kind == "qubit":
                index = self.pick(idx_lets) if idx_lets and self.chance(0.4) else rng.randrange(2)
                maps.append([nm, "qubit", src, index])
                scope[nm] = "qubit"
            else:
                maps.append([nm, "whole", src])
                scope[nm] = ("reg", ssize)
        return lets, reg, maps, scope

    # ---- validity of a statement text in a scope (so that texts can be re-used)
    def arg_ok(self, a, usage, scope):
        if usage == "q":
            if a[0] == "id":
                return scope.get(a[1]) == "qubit"
            if a[0] != "item" or not isinstance(scope.get(a[1]), tuple):
                return False
            if a[2][0] == "num":
                return is_int_text(a[2][1]) and 0 <= int(a[2][1]) < scope[a[1]][1]
            return scope.get(a[2][1]) == "idx"
        if usage == "r":
            return a[0] == "id" and isinstance(scope.get(a[1]), tuple)
        if a[0] == "item":
            return False
        if a[0] == "num":
            if usage == "x":
                return is_int_text(a[1]) and int(a[1]) in (0, 1)
            if usage == "c":
                return is_int_text(a[1]) and int(a[1]) >= 0
            return True
        return scope.get(a[1]) in USAGE_SORTS[usage]

    def usages(self, s, macros):
        if s[0] == "gate":
            return SIG[s[1]]
        m = macros.get(s[1])
        return None if m is None else [SORT_USAGE[x] for x in m[2]]

    def fits(self, s, scope, macros):
        us = self.usages(s, macros)
        return us is not None and len(us) == len(s[2]) and all(self.arg_ok(a, u, scope) for a, u in zip(s[2], us))

    # ---- arguments
    def ident(self, scope, ok, params, prefer=None):
        c = [(n, (6 if n == prefer else 3 if n in params else 1)) for n, s in scope.items() if ok(s)]
        return self.wpick(c) if c else None

    def gen_arg(self, usage, scope, params, prefer=None):
        if usage == "q":
            qid = self.ident(scope, lambda s: s == "qubit", params, prefer)
            if qid is not None and (qid == prefer or self.chance(0.3)):
                return ["id", qid]
            base = self.ident(scope, lambda s: isinstance(s, tuple), params, prefer)
            iid = self.ident(scope, lambda s: s == "idx", params)
            if iid is not None and self.chance(0.45):
                return ["item", base, ["id", iid]]
            return ["item", base, ["num", self.x_literal()]]
        if usage == "r":
            return ["id", self.ident(scope, lambda s: isinstance(s, tuple), params, prefer)]
        sorts = USAGE_SORTS[usage]
        nm = self.ident(scope, lambda s: s in sorts, params, prefer)
        if nm is not None and (nm == prefer or self.chance(0.4)):
            return ["id", nm]
        if usage == "x":
            return ["num", self.x_literal()]
        if usage == "c":
            return ["num", self.c_literal()]
        return ["num", self.f_literal()]

    def gen_gate(self, scope, params):
        name = self.wpick(WEIGHT.items())
        return ["gate", name, [self.gen_arg(u, scope, params) for u in SIG[name]]]

    def gen_call(self, scope, params, macros):
        m = self.pick(macros.values())
        args = []
        for p, srt in zip(m[1], m[2]):
            prefer = p if self.chance(0.5) else None
            args.append(self.gen_arg(SORT_USAGE[srt], scope, params, prefer))
        return ["call", m[0], args]

    def gen_simple(self, scope, params, macros):
        if self.pool and self.chance(0.4):
            c = [s for s in self.pool if self.fits(s, scope, macros)]
            if c:
                self.reused += 1
                return json.loads(json.dumps(self.pick(c)))
        s = self.gen_call(scope, params, macros) if macros and self.chance(0.35) else self.gen_gate(scope, params)
        self.pool.append(s)
        return s

    def gen_stmt(self, scope, params, macros, ctx, depth):
        r = self.rng.random()
        if depth <= 0 or r < 0.62:
            return self.gen_simple(scope, params, macros)
        k = self.pick([0, 1, 2, 2, 3])
        if k == 0:
            self.empties += 1
        if ctx == "par":
            return ["seq", [self.gen_stmt(scope, params, macros, "seq", depth - 1) for _ in range(k)]]
        if r < 0.82:
            kind = "par" if self.chance(0.25) else "seq"
            cparams = [p for p in params if scope.get(p) in ("idx", "cnt")]
            prefer = self.pick(cparams) if cparams and self.chance(0.6) else None
            return ["loop", self.gen_arg("c", scope, params, prefer), kind,
                    [self.gen_stmt(scope, params, macros, kind, depth - 1) for _ in range(k)]]
        return ["par", [self.gen_stmt(scope, params, macros, "par", depth - 1) for _ in range(k)]]

    # ---- whole program
    def program(self):
        rng = self.rng
        self.pool, self.reused, self.empties = [], 0, 0
        self.choose_families()
        lets, reg, maps, hscope = self.header()
        hnames = list(hscope)
        macros = {}
        for k in range(self.pick([1, 2, 2, 3, 3, 4])):
            params = []
            earlier = [p for m in macros.values() for p in m[1]]
            for _ in range(self.pick([0, 1, 1, 2, 2, 2, 3])):
                r = rng.random()
                if earlier and r < 0.3:
                    p = self.pick(earlier)
                elif r < 0.8:
                    p = self.pick(hnames)
                else:
                    p = self.pick(NAMES)
                if p not in params:
                    params.append(p)
            sorts = [self.pick(PARAM_SORTS) for _ in params]
            scope = dict(hscope)
            scope.update({p: (("reg", 2) if s == "reg" else s) for p, s in zip(params, sorts)})
            if not any(isinstance(v, tuple) for v in scope.values()):
                j = self.pick([j for j, p in enumerate(params) if isinstance(hscope.get(p), tuple)])
                sorts[j] = "reg"
                scope[params[j]] = ("reg", 2)
            kind = "par" if self.chance(0.12) else "seq"
            nstmt = self.pick([0, 1, 2, 2, 3, 4])
            if nstmt == 0:
                self.empties += 1
            body = [self.gen_stmt(scope, params, macros, kind, 2) for _ in range(nstmt)]
            macros[f"m{k}"] = [f"m{k}", params, sorts, kind, body]
        main = []
        for m in macros.values():
            for _ in range(self.pick([0, 1, 1, 2])):
                main.append(self.gen_call(hscope, [], {m[0]: m}))
        for _ in range(self.pick([1, 2, 3, 4])):
            main.append(self.gen_stmt(hscope, [], macros, "seq", 2))
        rng.shuffle(main)
        main = [s if not self.chance(0.12) else ["sub", self.pick([None, None, self.gen_arg("c", hscope, [])]),
                                                 [s] if s[0] != "seq" else s[1]] for s in main]
        prog = {"lets": lets, "reg": reg, "maps": maps, "macros": list(macros.values()), "main": main}
        twins = self.add_twins(prog, hscope)
        return prog, hscope, twins

    # ---- twins: the same statement with another member of the literal's family, planted elsewhere
    def scope_of(self, prog, hscope, k):
        if k is None:
            return dict(hscope)
        m = prog["macros"][k]
        scope = dict(hscope)
        scope.update({p: (("reg", 2) if s == "reg" else s) for p, s in zip(m[1], m[2])})
        return scope

    def add_twins(self, prog, hscope):
        """-> list of {"where", "relation", "original", "twin"}"""
        places = []  # (macro index | None, containing statement list, position, statement)

        def collect(stmts, k, in_sub):
            for pos, s in enumerate(stmts):
                if s[0] in ("gate", "call"):
                    places.append((k, stmts, pos, s))
                elif s[0] == "loop":
                    collect(s[3], k, in_sub)
                elif s[0] in ("seq", "par"):
                    collect(s[1], k, in_sub)
                elif s[0] == "sub":
                    collect(s[2], k, True)

        for k, m in enumerate(prog["macros"]):
            collect(m[4], k, False)
        collect(prog["main"], None, False)
        macros = {m[0]: m for m in prog["macros"]}
        cands = []
        for place in places:
            s = place[3]
            us = self.usages(s, macros)
            for j, (a, u) in enumerate(zip(s[2], us)):
                if a[0] == "num" and u == "f" and a[1] in self.family_of:
                    cands.append((place, j))
        out = []
        self.rng.shuffle(cands)
        if self.chance(0.5):  # a macro call first, when there is one
            cands.sort(key=lambda c: c[0][3][0] != "call")
        for (k, stmts, pos, s), j in cands[: self.pick([1, 2, 2, 3])]:
            fam = self.fams[self.family_of[s[2][j][1]]]
            others = [t for t in fam if t != s[2][j][1]]
            if not others:
                continue
            twin = json.loads(json.dumps(s))
            v0 = py_number(s[2][j][1])
            same = [t for t in others if py_number(t) == v0]  # 1 / 1.0, 0.0 / -0.0, 1 / +1: equal for `==` and as dict keys
            twin[2][j] = ["num", self.pick(same if same and self.chance(0.5) else others)]
            rel = relation(s[2][j][1], twin[2][j][1])
            r = self.rng.random()
            if r < 0.4:  # right next to the original (before or after)
                pos2 = next(p for p, x in enumerate(stmts) if x is s)
                stmts.insert(pos2 + self.pick([0, 1]), twin)
                where = "next to the original"
            else:
                hosts = []
                if self.fits(twin, hscope, macros) and k is not None:
                    hosts.append(None)
                for k2, m2 in enumerate(prog["macros"]):
                    before = {x[0]: x for x in prog["macros"][:k2]}
                    if k2 != k and self.fits(twin, self.scope_of(prog, hscope, k2), before):
                        hosts.append(k2)
                if not hosts:
                    pos2 = next(p for p, x in enumerate(stmts) if x is s)
                    stmts.insert(pos2 + self.pick([0, 1]), twin)
                    where = "next to the original"
                else:
                    k2 = self.pick(hosts)
                    if k2 is None:
                        prog["main"].insert(self.rng.randrange(len(prog["main"]) + 1), twin)
                        where = "original in a macro, twin in the main body"
                    else:
                        body = prog["macros"][k2][4]
                        if prog["macros"][k2][3] == "par" and self.chance(0.5):
                            body.insert(self.rng.randrange(len(body) + 1), ["seq", [twin]])
                        else:
                            body.insert(self.rng.randrange(len(body) + 1), twin)
                        where = "original in the main body, twin in a macro" if k is None else "original and twin in two macros"
            out.append({"where": where, "relation": rel, "kind": s[0], "original": r_stmt(s), "twin": r_stmt(twin)})
        return out

    def typing(self, prog):
        """kinds for the object stream: per macro and parameter "kind" (the kind of its sort) | "none" | "str"; a
        parameter name that two macros share gets different kinds where the sorts allow it"""
        out, seen = [], {}
        for _name, params, sorts, _kind, _body in prog["macros"]:
            row = []
            for p, srt in zip(params, sorts):
                mode = self.pick(["kind", "kind", "kind", "none", "str"])
                if p in seen and seen[p][0] == srt and (mode == "kind") == (seen[p][1] == "kind"):
                    mode = "none" if seen[p][1] == "kind" else "kind"
                seen[p] = (srt, mode)
                row.append(mode)
            out.append(row)
        return out


# ---------------------------------------------------------------------------------------------------------------
# fixed programs that must be covered whatever the seed (hand-written JSON trees)


def _n(t):
    return ["num", t]


def _id(n):
    return ["id", n]


def _it(a, i):
    return ["item", a, _n(i) if (i[:1].isdigit() or i[:1] in "+-") else _id(i)]


def _G(name, *args):
    return ["gate", name, list(args)]


def _C(name, *args):
    return ["call", name, list(args)]


def fixed_programs():
    P = []

    def prog(lets, reg, maps, macros, main):
        P.append({"lets": lets, "reg": reg, "maps": maps, "macros": macros, "main": main})

    # adjacent doubles in every placement
    for a, b in (("0.3", "0.30000000000000004"), ("0.10000000000000002", "0.1"), ("-1.0000000000000002", "-1.0"),
                 ("6.283185307179586", "6.283185307179587"), ("1.7976931348623157e308", "1.7976931348623155e308"),
                 ("2.225073858507201e-308", "2.2250738585072014e-308")):
        prog([], ["r", 2], [],
             [["m", ["q"], ["qubit"], "seq", [_G("u", _id("q"), _n(a))]],
              ["k2", ["q"], ["qubit"], "seq", [_G("u", _id("q"), _n(b)), ["loop", _n("2"), "seq", [_G("u", _id("q"), _n(a))]]]],
              ["f", ["t"], ["num"], "seq", [_G("u", _it("r", "0"), _id("t"))]]],
             [_G("u", _it("r", "0"), _n(a)), _G("u", _it("r", "0"), _n(b)), _C("m", _it("r", "1")), _C("k2", _it("r", "1")),
              _C("f", _n(a)), _C("f", _n(b)), ["loop", _n("2"), "seq", [_G("u", _it("r", "0"), _n(b))]],
              ["par", [_G("u", _it("r", "0"), _n(a)), _G("u", _it("r", "1"), _n(b))]]])
    # int against float, signed zeros, written in several ways
    prog([["z", "0.0", "num"], ["nz", "-0.0", "num"], ["o", "1.0", "num"]], ["r", 2], [],
         [["m", ["a"], ["num"], "seq", [_G("k", _id("a")), _G("kk", _id("a"), _id("z"))]],
          ["e", ["a"], ["num"], "seq", []]],
         [_G("k", _n(t)) for t in ("1", "1.0", "+1", "01", "0", "0.0", "-0.0", "-0", "+0", "00")]
         + [_C("m", _n(t)) for t in ("0", "0.0", "-0.0", "1", "1.0")] + [_C("e", _n("0")), _C("e", _n("0.0"))]
         + [_G("k", _id("z")), _G("k", _id("nz")), _G("k", _id("o"))])
    # integers that collapse as doubles / machine words
    prog([], ["r", 2], [],
         [["m", ["a"], ["num"], "seq", [_G("k", _id("a")), _G("k", _n("9007199254740993"))]]],
         [_G("k", _n(t)) for t in ("9007199254740992", "9007199254740993", "9007199254740992.0", "18446744073709551616", "0",
                                   "4294967296", "65536", "9223372036854775808", "-9223372036854775808")]
         + [_C("m", _n("9007199254740992")), _C("m", _n("9007199254740993")), _C("m", _n("9007199254740993.0"))])
    # 4299 / 4300 digits
    h = huge_family()
    prog([], ["r", 2], [], [["m", ["a"], ["num"], "seq", [_G("k", _id("a")), _G("k", _n(h[1]))]]],
         [_G("k", _n(h[0])), _G("k", _n(h[1])), _G("k", _n(h[2])), _G("k", _n(h[3])), _C("m", _n(h[0])), _C("m", _n(h[1]))])
    # falsy arguments through parameters: as argument, index and count; header names of the same name bind something else
    prog([["i", "1", "idx"], ["n", "2", "cnt"], ["a", "0.5", "num"]], ["r", 2], [],
         [["m", ["a", "i", "n"], ["num", "idx", "cnt"], "seq",
           [_G("u", _it("r", "i"), _id("a")), ["loop", _id("n"), "seq", [_G("g", _it("r", "i"))]]]]],
         [_C("m", _n("0"), _n("0"), _n("0")), _C("m", _n("0.0"), _n("0"), _n("0")), _C("m", _n("-0.0"), _n("1"), _n("0")),
          _C("m", _id("a"), _id("i"), _id("n")), _G("u", _it("r", "i"), _id("a")),
          ["loop", _id("n"), "seq", [_G("g", _it("r", "i"))]], ["loop", _n("0"), "seq", []], ["sub", _n("0"), []]])
    # a header binding that is invalid where the parameter that shadows it is used
    prog([["n", "0.5", "num"], ["i", "2.5", "num"], ["q", "-1", "num"]], ["r", 2], [],
         [["rep", ["n"], ["cnt"], "seq", [["loop", _id("n"), "seq", [_G("u", _it("r", "0"), _id("n"))]]]],
          ["at", ["i"], ["idx"], "seq", [_G("g", _it("r", "i")), _G("k", _id("i"))]],
          ["on", ["q", "i"], ["reg", "idx"], "seq", [_G("g", _it("q", "i")), _G("w", _id("q")), _G("g", _it("q", "0"))]],
          ["one", ["q"], ["qubit"], "seq", [_G("g", _id("q"))]]],
         [_C("rep", _n("3")), _C("rep", _n("0")), _C("at", _n("0")), _C("at", _n("1")), _C("on", _id("r"), _n("0")),
          _C("one", _it("r", "1")), _G("k", _id("n")), _G("k", _id("i")), _G("k", _id("q"))])
    prog([["angle", "0.25", "num"]], ["r", 2], [],
         [["shots", ["angle"], ["cnt"], "seq", [["sub", _id("angle"), [_G("g", _it("r", "1"))]]]]],
         [_C("shots", _n("7")), _C("shots", _n("0")), _G("k", _id("angle"))])
    # index 0 written in several ways, in several scopes
    prog([["i", "0.0", "idx"], ["j", "-0.0", "idx"]], ["r", 3], [["a", "slice", "r", 1, None, None], ["q", "qubit", "r", "i"]],
         [["m", ["r"], ["reg"], "seq", [_G("g", _it("r", "0")), _G("g", _it("r", "-0")), _G("g", _it("r", "i")), _G("g", _it("r", "j"))]],
          ["k2", ["i"], ["idx"], "seq", [_G("g", _it("r", "i")), _G("g", _it("a", "i")), _G("g", _it("r", "j")), _G("g", _id("q"))]]],
         [_G("g", _it("r", "0")), _G("g", _it("r", "-0")), _G("g", _it("r", "+0")), _G("g", _it("r", "00")), _G("g", _it("r", "i")),
          _G("g", _it("r", "j")), _G("g", _it("a", "0")), _C("m", _id("a")), _C("m", _id("r")), _C("k2", _n("0")), _C("k2", _n("1")),
          _C("k2", _id("j")), _G("g", _id("q"))])
    return P


# ---------------------------------------------------------------------------------------------------------------
# oracles on one (program, stage)


def judge_semantics(prog, lx, flags, passes, circuit):
    """-> list of failure details (empty: the circuit means what the program means lexically)"""
    filled, expanded = stage_filled(flags, passes), stage_expanded(flags, passes)
    want_main = fill_trees(lx["main"], lx["lets"]) if filled else lx["main"]
    want_macros = {k: (fill_trees(v, lx["lets"]) if filled else v) for k, v in lx["macros"].items()}
    got = obj_program(circuit)
    fails = []

    def compare(got_trees, want_trees, where):
        if isinstance(got_trees, str):
            fails.append(got_trees)
            return
        if expanded:
            d = first_difference(flatten(got_trees), flatten(want_trees), "gate application")
        else:
            d = first_difference(got_trees, want_trees, "statement")
        if d:
            fails.append(f"{where}, {d}")

    compare(got["main"], want_main, "main body")
    for name, trees in got["macros"].items():
        if name in want_macros:
            compare(trees, want_macros[name], f"macro {name}")
        else:
            fails.append(f"the circuit has a macro {name} the program does not define")
    if not expanded or "Mp" in passes:
        for name in want_macros:
            if name not in got["macros"]:
                fails.append(f"macro {name} is missing from the circuit")
    return fails


def judge_rejection(prog, flags, passes, out, typing):
    """the stage did not return a circuit: does the alpha-renamed program go through?  -> (failure detail | None, tag)"""
    what = out[0] + (" " + " ".join(map(str, out[1:])) if len(out) > 1 else "")
    alpha = StageRunner(alpha_prog(prog), typing).outcome(list(flags), list(passes))
    if alpha[0] == "ok":
        return (f"{stage_name(flags, passes)} gives `{what[:300]}` but accepts the same program with its macro parameters "
                f"renamed to fresh names"), "rejected: judged"
    if alpha[0] == "prefix":
        return None, f"rejected: {out[0]}, the renamed program fails earlier ({alpha[1]})"
    return None, f"rejected: {out[0]}" + (f" {out[1]}" if out[0] == "exc" else "") + f", the renamed program {alpha[0]} too"


# ---------------------------------------------------------------------------------------------------------------
# main entry points

ORACLES = ("C07_edge_lexical", "C07_edge_accepts")
OBJECT_ORACLES = ("C07_edge_object_lexical", "C07_edge_object_accepts")


def _bump(res, key, by=1):
    res["distribution"][key] = res["distribution"].get(key, 0) + by


def _fail(res, oracle, case, detail):
    lst = res["oracle"][oracle]["failures"]
    if len(lst) < 20:
        lst.append({"case": case, "detail": detail})


def _case(oracle, prog, flags, passes, typing=None):
    text = render(prog)
    c = {"oracle": oracle, "prog": prog, "flags": list(flags), "passes": list(passes), "stage": stage_name(flags, passes),
         "text": text if len(text) < 3000 else text[:3000] + " ..."}
    if typing is not None:
        c["typing"] = typing
    return c


def run_program(res, prog, stages, typing=None, obj=False):
    lex_name, acc_name = OBJECT_ORACLES if obj else ORACLES
    try:
        lx = lex_program(prog, "sx" if obj else "text")
    except (LexError, ValueError) as e:  # the generator promised a lexically valid program
        _bump(res, f"generator: invalid program ({e})")
        return
    runner = StageRunner(prog, typing)
    for flags, passes in with_prefixes(stages):
        out = runner.outcome(flags, passes)
        name = stage_name(flags, passes)
        if out[0] == "prefix":
            continue
        if out[0] != "ok":
            detail, tag = judge_rejection(prog, flags, passes, out, typing)
            _bump(res, ("object: " if obj else "") + tag)
            res["oracle"][acc_name]["cases"] += 1
            if detail:
                _fail(res, acc_name, _case(acc_name, prog, flags, passes, typing), detail)
            continue
        _bump(res, f"stage accepted: {name}")
        res["oracle"][lex_name]["cases"] += 1
        for d in judge_semantics(prog, lx, flags, passes, out[1])[:2]:
            _fail(res, lex_name, _case(lex_name, prog, flags, passes, typing), f"after {name}: {d}")


def features(prog):
    f = []
    lets = {l[0]: l for l in prog["lets"]}
    regs = [prog["reg"][0]]
    als = [m[0] for m in prog["maps"]]
    seen = {}
    for m in prog["macros"]:
        for p, s in zip(m[1], m[2]):
            if p in lets:
                f.append(f"collision: {s} parameter named like a let")
                b = let_binding(lets[p][1])
                if b[0] == "float" and s in ("idx", "cnt"):
                    f.append("collision: index / count parameter named like a non-integer let")
                if b == ("int", "0"):
                    f.append("collision: parameter named like a let that binds 0")
            if p in regs:
                f.append(f"collision: {s} parameter named like the register")
            if p in als:
                f.append(f"collision: {s} parameter named like an alias")
            if p in seen and seen[p] != s:
                f.append("collision: two macros share a parameter name with different sorts")
            seen.setdefault(p, s)
    for _n2, text, _role in prog["lets"]:
        if let_binding(text) == ("int", "0"):
            f.append("let that binds 0 (written " + ("as a float)" if not is_int_text(text) else "as an int)"))
    return dedupe(f)


def object_level_default():
    return os.environ.get("C07_EDGE_OBJECT_LEVEL", "") not in ("", "0")


def run(seed: int, n: int, driver: str = DEFAULT_DRIVER, thorough: bool = False, object_level=None) -> dict:
    lib()
    if object_level is None:
        object_level = object_level_default()
    rng = random.Random(seed)
    _ISO.clear()
    names = ORACLES + (OBJECT_ORACLES if object_level else ())
    res = {"corr": {}, "oracle": {o: {"cases": 0, "failures": []} for o in names},
           "distribution": {}, "samples": [], "nontrivial": 0}
    if thorough:
        n = max(n, 1200)
    stages = TEXT_STAGES if thorough else QUICK_TEXT_STAGES
    distinct = set()
    gen0 = Gen(random.Random(seed + 1))
    for prog in fixed_programs():
        run_program(res, prog, TEXT_STAGES)
        distinct.add(render(prog))
        _bump(res, "programs: fixed")
        if object_level:
            for _ in range(2):
                run_program(res, prog, OBJECT_STAGES, typing=gen0.typing(prog), obj=True)
    for k in range(n):
        gen = Gen(rng)
        prog, _hscope, twins = gen.program()
        text = render(prog)
        distinct.add(text)
        _bump(res, "programs: generated")
        _bump(res, f"macros per program: {len(prog['macros'])}")
        _bump(res, "statement texts re-used from the pool", gen.reused)
        _bump(res, "empty blocks / empty macro bodies", gen.empties)
        for f in features(prog):
            _bump(res, f)
        for tw in twins:
            _bump(res, f"twin ({tw['kind']}): {tw['where']}")
            _bump(res, f"twin literals: {tw['relation']}")
        run_program(res, prog, stages)
        if object_level:
            typing = gen.typing(prog)
            _bump(res, "object: programs")
            run_program(res, prog, OBJECT_STAGES if thorough else OBJECT_STAGES[:2] + OBJECT_STAGES[3:4], typing=typing, obj=True)
        if k < 5:
            res["samples"].append({"text": text if len(text) < 2000 else text[:2000] + " ...", "twins": twins})
    res["nontrivial"] = len(distinct)
    for (via, what, text), v in _ISO.items():
        _bump(res, f"reference: {what} texts read alone ({via})")
        if v is None:
            _bump(res, f"reference: {what} text rejected when it stands alone (programs with it are skipped)")
        elif v != (lit_value(text) if what == "lit" else let_binding(text)):
            _bump(res, f"reference: {what} text the library reads differently from Python (not judged)")
    return res


def replay(case: dict, driver: str = DEFAULT_DRIVER) -> dict:
    lib()
    prog = case["prog"]
    flags, passes = case.get("flags", []), case.get("passes", [])
    typing = case.get("typing")
    oracle = case.get("oracle", "C07_edge_lexical")
    out = StageRunner(prog, typing).outcome(list(flags), list(passes))
    impl = {"outcome": out[0] if out[0] != "ok" else "accepted", "message": " ".join(map(str, out[1:]))[:300] if out[0] != "ok" else ""}
    if oracle.endswith("_accepts"):
        if out[0] in ("ok", "prefix"):
            return {"oracle_ok": True, "detail": "the stage accepts the program (or an earlier stage fails)", "stage_outcome": impl}
        detail, tag = judge_rejection(prog, flags, passes, out, typing)
        return {"oracle_ok": detail is None, "detail": detail or tag, "stage_outcome": impl}
    if out[0] != "ok":
        return {"oracle_ok": None, "detail": f"the stage does not return a circuit: {impl}", "stage_outcome": impl}
    details = judge_semantics(prog, lex_program(prog, "text" if typing is None and not set(flags) & {"sx", "cb"} else "sx"),
                              flags, passes, out[1])
    return {"oracle_ok": not details, "detail": "; ".join(details), "stage_outcome": impl}


def main():
    ap = argparse.ArgumentParser()
    ap.add_argument("--driver", default=DEFAULT_DRIVER)
    ap.add_argument("--seed", type=int, default=0)
    ap.add_argument("--n", type=int, default=800)
    ap.add_argument("--thorough", action="store_true")
    ap.add_argument("--object-level", action="store_true")
    ap.add_argument("--json", action="store_true")
    a = ap.parse_args()
    res = run(a.seed, a.n, a.driver, a.thorough, object_level=True if a.object_level else None)
    if a.json:
        print(json.dumps(res, indent=1))
    bad = 0
    for name, r in res["oracle"].items():
        print(f"oracle {name}: {r['cases']} cases, {len(r['failures'])} failures (first 20 kept)")
        for d in r["failures"][:4]:
            print("  FAIL", d["detail"][:600])
            print("       stage", d["case"].get("stage"), "typing", d["case"].get("typing"))
            print("       " + d["case"]["text"][:1500].replace("\n", "\n       "))
            rp = replay(d["case"])
            print("       replay:", rp["oracle_ok"], str(rp["detail"])[:200])
        bad += len(r["failures"])
    print("distinct programs:", res["nontrivial"])
    for k in sorted(res["distribution"]):
        print(f"  {res['distribution'][k]:7d}  {k}")
    sys.exit(1 if bad else 0)


if __name__ == "__main__":
    main()
