#!/venv/bin/python
"""C06, seventh round: reversed slices down to element 0, depth >= 3, every consumer at every stage, long-lived objects
(oracles only, no Lean driver).

    PYTHONPATH=/verif JAQALPAQ_RUN_EMULATOR=1 /venv/bin/python -W ignore /verif/harness/agents/c06_deep.py [--seed 0] [--n 60] [--thorough]

All programs use ONE fixed naming scheme (register r, aliases x y z w v u, single-qubit aliases s0 s1 .., lets k0 k1 ..,
macros m1 m2 m3 h sh ..), so any two of them share their names and map them differently.  Every expectation comes from
the reference in this file: a register denotes the list [start + i*step for i in range(count)] of fundamental indices,
composed along its chain (count = len(range(start, stop, step))); a macro call binds the VALUES of its arguments.

families (`family` names the dimension that is forced, the others are random)
  slices   alias chains of depth 1..4 over registers of 1..6 qubits; every (start, stop, step) that selects a non-empty
           part of its source, above all negative steps that run down to element 0 (stop -1: r[3:-1:-1], r[4:-1:-2]),
           partial last steps (q[4:0:-3], q[0:4:3]), a count of exactly 1, bounds literal / let-valued / defaulted, a
           let-valued register size, whole-register aliases in the middle, aliases of such aliases, single-qubit
           aliases; the body applies a gate to EVERY index of the last alias (0 .. size-1)
  deep     macro in macro in macro with the same parameter names in another order and the outer parameter used AFTER
           the inner call, parallel in sequential in parallel, loops (count 1, let-valued), macros indexed by an integer
           parameter, a let two or more levels below the alias that is used
  shadow   a macro whose parameter is named like the fundamental register (or like an alias) and uses only that
           parameter, while aliases are referenced OUTSIDE it: main program, another macro, arguments of its calls
  pairs    two or three programs (independent ones, and near twins that differ in ONE let value / bound / register
           size) through ONE UnitarySerializedEmulator object (A, B, A again, B ..) and all other consumers on A, B, A
  kind     fill_in_let with an override of a let that is a bound / index / size: integral (int or 2.0) -> the program
           with that value; non-integral -> no consumer may give an index to a reference that has none

stages (every case): the circuit AS PARSED; fill_in_let; expand_macros; fill_in_map of each of the three;
fill_in_let / expand_macros of fill_in_map; run of the parsed circuit, of fill_in_map (parse -> fill_in_map -> run) and
of fill_in_let -> fill_in_map.

oracles
  C06d_yields    a pass / run on a valid program returns (JaqalError only for fill_in_map on a macro body indexed by a
                 parameter: documented as not applicable)
  C06d_resolve   NamedQubit.resolve_qubit of every reference == (fundamental register, the reference's index)
  C06d_used      get_used_qubit_indices of every statement and of the circuit == the set of reference indices
  C06d_fill      fill_in_map rewrites every reference that does not depend on a parameter to r[index]
  C06d_emulator  state vector of run_jaqal_circuit == the gates applied here to the reference indices
  C06d_backend   the same with ONE backend object used for several programs, each against its OWN reference
  C06d_kind      under a non-integral override no consumer returns an index for a reference that denotes none, and no
                 consumer ever returns an index that is not an int
"""
import argparse
import copy
import json
import os
import random
import signal
import sys
import time
import warnings
from fractions import Fraction

DEFAULT_DRIVER = "/verif/lean/.lake/build/bin/jaqal-model"
ORACLES = ("C06d_yields", "C06d_resolve", "C06d_used", "C06d_fill", "C06d_emulator", "C06d_backend", "C06d_kind")
FAMILIES = ("slices", "deep", "shadow", "pairs", "kind")
EMU_MAX = 5
_L = {}


def lib():
    if _L:
        return _L
    os.environ["JAQALPAQ_RUN_EMULATOR"] = "1"
    root = os.path.dirname(os.path.dirname(os.path.dirname(os.path.abspath(__file__))))
    if not os.path.isfile(os.path.join(root, "harness", "gates.py")):
        root = "/verif"
    if root not in sys.path:
        sys.path.insert(0, root)
    import numpy as np
    from harness import timeouts as T
    from harness import gates as HG
    from jaqalpaq.error import JaqalError
    from jaqalpaq.parser import parse_jaqal_string
    from jaqalpaq.core.algorithm import expand_macros, fill_in_let
    from jaqalpaq.core.algorithm.fill_in_map import fill_in_map
    from jaqalpaq.core.algorithm.used_qubit_visitor import get_used_qubit_indices
    from jaqalpaq.core.parameter import Parameter
    from jaqalpaq.core.register import Register, NamedQubit
    from jaqalpaq.core.gate import GateStatement
    from jaqalpaq.core.block import BlockStatement, LoopStatement
    from jaqalpaq.core.macro import Macro
    from jaqalpaq.run import run_jaqal_circuit
    from jaqalpaq.emulator.unitary import UnitarySerializedEmulator
    _L.update(np=np, T=T, HG=HG, GATES=dict(HG.GATES), U={k: v.ideal_unitary for k, v in HG.GATES.items()},
              JaqalError=JaqalError, parse=parse_jaqal_string, expand_macros=expand_macros, fill_in_let=fill_in_let,
              fill_in_map=fill_in_map, used=get_used_qubit_indices, Parameter=Parameter, Register=Register,
              NamedQubit=NamedQubit, GateStatement=GateStatement, BlockStatement=BlockStatement,
              LoopStatement=LoopStatement, Macro=Macro, run=run_jaqal_circuit, Emu=UnitarySerializedEmulator)
    return _L


class Hang(BaseException):
    pass


def _on_alarm(_s, _f):
    raise Hang()


def guarded(f):
    """-> ("ok", value) | ("rej", message) for JaqalError | ("exc", class, message) | ("hang", "", "")"""
    L = lib()
    try:
        old = signal.signal(signal.SIGALRM, _on_alarm)
    except ValueError:
        old = None
    if old is not None:
        signal.alarm(int(L["T"].limit()))
    try:
        with warnings.catch_warnings():
            warnings.simplefilter("ignore")
            return ("ok", f())
    except Hang:
        L["T"].saw_hang()
        return ("hang", "", "")
    except L["JaqalError"] as e:
        return ("rej", str(e)[:200])
    except RecursionError:
        return ("exc", "RecursionError", "")
    except Exception as e:  # noqa: BLE001
        return ("exc", type(e).__name__, str(e)[:200])
    finally:
        if old is not None:
            signal.alarm(0)
            signal.signal(signal.SIGALRM, old)


def short(x, k=300):
    s = x if isinstance(x, str) else json.dumps(x, default=str)
    return s[:k]


# ------------------------------------------------------------------------------------------------------------------
# the reference
#
# program P = {"lets": [[name, int]], "reg": [name, size], "maps": [map], "macros": [[name, [[pname, kind]], [stmt]]],
#              "body": [stmt], "emulate": bool}
#   map  = {"name", "src", "kind": "whole"} | {.., "kind": "qubit", "index": v} | {.., "kind": "slice", "start", "stop", "step"}
#   stmt = ["gate", gname, [arg]] | ["call", mname, [arg]] | ["loop", count, [stmt]] | ["par", [stmt]] | ["seq", [stmt]]
#   arg  = ["q", register, index] | ["n", name] | ["i", v]         v / index / count = int | identifier (let or parameter)

class Den:
    def __init__(self, P):
        self.P = P
        self.lets = {n: int(t) for n, t in P["lets"]}
        self.R = P["reg"][0]
        self.regs = {self.R: ("fund", self.gval(P["reg"][1]))}
        self.qal = {}
        self.ok = self.regs[self.R][1] >= 1
        for m in P["maps"]:
            if m["kind"] == "whole":
                self.regs[m["name"]] = ("whole", m["src"])
            elif m["kind"] == "qubit":
                q = self.elem(m["src"], self.gval(m["index"]))
                self.ok = self.ok and q is not None
                self.qal[m["name"]] = q
            else:
                n = self.length(m["src"])
                start = 0 if m["start"] is None else self.gval(m["start"])
                stop = n if m["stop"] is None else self.gval(m["stop"])
                step = 1 if m["step"] is None else self.gval(m["step"])
                if step == 0:
                    self.ok = False
                    step = 1
                els = list(range(start, stop, step))
                # a slice this stream calls valid: non-empty, inside its source, stop not beyond the ends (-1 .. n)
                self.ok = self.ok and bool(els) and 0 <= min(els) and max(els) < n and -1 <= stop <= n and 0 <= start
                self.regs[m["name"]] = ("slice", m["src"], start, step, len(els))
        self.macros = {m[0]: m for m in P["macros"]}

    def gval(self, v):
        return self.lets[v] if isinstance(v, str) else int(v)

    def val(self, v, env):
        if isinstance(v, str):
            if v in env:
                assert env[v][0] == "i"
                return env[v][1]
            return self.lets[v]
        return int(v)

    def length(self, name):
        r = self.regs[name]
        return r[1] if r[0] == "fund" else self.length(r[1]) if r[0] == "whole" else r[4]

    def elem(self, name, i):
        if not (0 <= i < self.length(name)):
            return None
        r = self.regs[name]
        if r[0] == "fund":
            return i
        if r[0] == "whole":
            return self.elem(r[1], i)
        return self.elem(r[1], r[2] + i * r[3])

    def qubit(self, a, env):
        if a[0] == "q":
            return self.elem(a[1], self.val(a[2], env))
        if a[1] in env:
            assert env[a[1]][0] == "q"
            return env[a[1]][1]
        return self.qal[a[1]]

    def bind(self, mname, args, env):
        _, params, _ = self.macros[mname]
        assert len(params) == len(args)
        return {p: (("q", self.qubit(a, env)) if k == "q" else ("i", self.val(a[1], env))) for (p, k), a in zip(params, args)}

    def ops(self, stmts, env, unroll, out=None):
        """gate applications [(name, [qubit], [classical])] in program order"""
        out = [] if out is None else out
        for s in stmts:
            if s[0] == "gate":
                qs = [self.qubit(a, env) for a in s[2] if a[0] != "i"]
                cs = [self.val(a[1], env) for a in s[2] if a[0] == "i"]
                out.append((s[1], qs, cs))
            elif s[0] == "call":
                self.ops(self.macros[s[1]][2], self.bind(s[1], s[2], env), unroll, out)
            elif s[0] == "loop":
                for _ in range(self.val(s[1], env) if unroll else 1):
                    self.ops(s[2], env, unroll, out)
            else:
                self.ops(s[1], env, unroll, out)
        return out

    def uses(self, stmts, env):
        return {q for _, qs, _ in self.ops(stmts, env, False) for q in qs}

    def valid(self, stmts, env):
        """every reference is an element of its alias, a gate acts on different qubits, parallel branches are disjoint"""
        for s in stmts:
            if s[0] in ("gate", "call"):
                qs = [self.qubit(a, env) for a in s[2] if a[0] != "i"]
                if None in qs:
                    return False
                if s[0] == "gate" and len(set(qs)) != len(qs):
                    return False
                if s[0] == "call" and not self.valid(self.macros[s[1]][2], self.bind(s[1], s[2], env)):
                    return False
            elif s[0] == "loop":
                if self.val(s[1], env) < 1 or not self.valid(s[2], env):
                    return False
            else:
                if not self.valid(s[1], env):
                    return False
                if s[0] == "par":
                    seen = set()
                    for x in s[1]:
                        qs = self.uses([x], env)
                        if qs & seen:
                            return False
                        seen |= qs
        return True


def program_valid(P):
    try:
        d = Den(P)
        return d.ok and d.valid(P["body"], {})
    except (KeyError, AssertionError, ValueError, TypeError):
        return False


def index_by_param(P):
    def has(stmts, params):
        for s in stmts:
            if s[0] in ("gate", "call"):
                if any(a[0] == "q" and a[2] in params for a in s[2]):
                    return True
            elif has(s[2] if s[0] == "loop" else s[1], params):
                return True
        return False
    return any(has(body, {p for p, _ in params}) for _, params, body in P["macros"])


def text_arg(a):
    return f"{a[1]}[{a[2]}]" if a[0] == "q" else str(a[1])


def text_stmt(s):
    if s[0] in ("gate", "call"):
        return " ".join([s[1]] + [text_arg(a) for a in s[2]])
    if s[0] == "loop":
        return f"loop {s[1]} {{ " + " ; ".join(text_stmt(x) for x in s[2]) + " }"
    if s[0] == "par":
        return "< " + " | ".join(text_stmt(x) for x in s[1]) + " >"
    return "{ " + " ; ".join(text_stmt(x) for x in s[1]) + " }"


def text_of(P):
    b = lambda v: "" if v is None else str(v)        # noqa: E731
    lines = [f"let {n} {t}" for n, t in P["lets"]]
    lines.append(f"register {P['reg'][0]}[{P['reg'][1]}]")
    for m in P["maps"]:
        if m["kind"] == "whole":
            lines.append(f"map {m['name']} {m['src']}")
        elif m["kind"] == "qubit":
            lines.append(f"map {m['name']} {m['src']}[{m['index']}]")
        else:
            sl = b(m["start"]) + ":" + b(m["stop"]) + ("" if m["step"] is None else ":" + b(m["step"]))
            lines.append(f"map {m['name']} {m['src']}[{sl}]")
    for name, params, body in P["macros"]:
        lines.append(f"macro {name} " + "".join(p + " " for p, _ in params) + "{ " + " ; ".join(text_stmt(s) for s in body) + " }")
    if P["emulate"]:
        lines.append("prepare_all")
    lines += [text_stmt(s) for s in P["body"]]
    if P["emulate"]:
        lines.append("measure_all")
    return "\n".join(lines) + "\n"


def ref_state(L, n, ops):
    np = L["np"]
    v = np.zeros(2**n, dtype=complex)
    v[0] = 1
    for name, qs, cs in ops:
        u = L["U"][name]
        if u is None:
            continue
        m = np.asarray(u(*cs))
        w = np.zeros_like(v)
        for i in range(2**n):
            if v[i] == 0:
                continue
            col = sum(((i >> q) & 1) << j for j, q in enumerate(qs))
            base = i
            for q in qs:
                base &= ~(1 << q)
            for row in range(2 ** len(qs)):
                a = m[row, col]
                if a != 0:
                    o = base
                    for j, q in enumerate(qs):
                        if (row >> j) & 1:
                            o |= 1 << q
                    w[o] += a * v[i]
        v = w
    return v


# ------------------------------------------------------------------------------------------------------------------
# generator

ALIASES = ["x", "y", "z", "w", "v", "u"]
G1 = ["X", "X", "X", "Y", "SX", "S", "Z", "N"]
G2 = ["CX", "CX", "NS", "SWAP", "CZ", "ISWAP", "HH"]


def all_slices(n):
    """every (start, stop, step) with -1 <= stop <= n that selects a non-empty part of 0..n-1"""
    out = []
    for step in list(range(1, n + 1)) + list(range(-1, -n - 1, -1)):
        for start in range(n):
            for stop in range(-1, n + 1):
                els = range(start, stop, step)
                if els and 0 <= els[-1] < n:
                    out.append((start, stop, step))
    return out


def pick_slice(rng, n, force=None):
    S = all_slices(n)
    if force == "rev0":
        T = [s for s in S if s[2] < 0 and s[1] == -1]
    elif force == "rev":
        T = [s for s in S if s[2] < 0]
    elif force == "partial":
        T = [s for s in S if abs(s[2]) > 1 and (s[1] - s[0]) % s[2] != 0]
    elif force == "one":
        T = [s for s in S if len(range(*s)) == 1]
    elif force == "long":
        T = [s for s in S if len(range(*s)) >= max(1, n - 1)]
    else:
        T = S
    return rng.choice(T or S)


class Gen:
    def __init__(self, rng, thorough):
        self.rng = rng
        self.thorough = thorough
        self.lets = []

    def let_for(self, v):
        for n, t in self.lets:
            if int(t) == v and self.rng.random() < 0.5:
                return n
        n = f"k{len(self.lets)}"
        self.lets.append([n, int(v)])
        return n

    def rep(self, v, plet=0.35):
        return self.let_for(v) if self.rng.random() < plet else int(v)


def gen_maps(g, family, want_rev0):
    """-> (reg, maps): a chain of aliases over r; the LAST register alias is the one the body indexes completely"""
    rng = g.rng
    n = rng.choice([1, 2, 3, 4, 4, 5, 5, 5] + ([6] if g.thorough else []))
    reg = ["r", g.let_for(n) if rng.random() < 0.25 else n]
    depth = rng.choice([1, 2, 3, 3, 4] if family in ("slices", "deep") else [1, 2, 3])
    maps = []
    lens = {"r": n}
    prev = "r"
    names = list(ALIASES)
    rev0_at = rng.randrange(depth) if want_rev0 else -1
    for d in range(depth):
        name = names.pop(0)
        src = prev if rng.random() < 0.8 else rng.choice(list(lens))
        L = lens[src]
        if d != rev0_at and 0 < d < depth - 1 and rng.random() < 0.4 or (d != rev0_at and rng.random() < 0.1):
            maps.append({"name": name, "src": src, "kind": "whole"})
            lens[name] = L
        else:
            force = "rev0" if d == rev0_at else rng.choice([None, None, "rev", "rev0", "partial", "one", "long", "long", "long"])
            if force == "one" and d < depth - 1:
                force = "long"
            start, stop, step = pick_slice(rng, L, force)
            m = {"name": name, "src": src, "kind": "slice", "start": g.rep(start), "stop": g.rep(stop), "step": g.rep(step)}
            if step > 0:
                if start == 0 and rng.random() < 0.3:
                    m["start"] = None
                if stop == L and rng.random() < 0.3:
                    m["stop"] = None
                if step == 1 and rng.random() < 0.5:
                    m["step"] = None
            maps.append(m)
            lens[name] = len(range(start, stop, step))
        prev = name
    last = prev
    for j in range(rng.choice([0, 1, 1, 2])):
        src = rng.choice(list(lens))
        maps.append({"name": f"s{j}", "src": src, "kind": "qubit", "index": g.rep(rng.randrange(lens[src]), 0.25)})
    return reg, maps, last


def refs_table(P):
    """fundamental qubit -> the ways to write it in the main program"""
    d = Den(P)
    tab = {}
    for name in d.regs:
        for i in range(d.length(name)):
            tab.setdefault(d.elem(name, i), []).append(["q", name, i])
    for name, q in d.qal.items():
        tab.setdefault(q, []).append(["n", name])
    return d, tab


def gen_program(rng, family, thorough):
    g = Gen(rng, thorough)
    reg, maps, last = gen_maps(g, family, want_rev0=rng.random() < (0.6 if family == "slices" else 0.35))
    P = {"lets": g.lets, "reg": reg, "maps": maps, "macros": [], "body": [], "emulate": True}
    d, tab = refs_table(P)
    n = d.length("r")
    P["emulate"] = n <= EMU_MAX
    deep_names = [m["name"] for m in maps]

    def ref(q, plet=0.2):
        c = tab[q]
        pref = [a for a in c if a[1] in deep_names[-2:]] or [a for a in c if a[1] != "r"] or c
        a = list(rng.choice(pref if rng.random() < 0.8 else c))
        if a[0] == "q" and rng.random() < plet:
            a[2] = g.let_for(a[2])
        return a

    qubits = sorted(tab)

    def gate(qs=None, allow2=True):
        pool = qs if qs is not None else qubits
        if allow2 and len(pool) >= 2 and rng.random() < 0.45:
            a, b = rng.sample(pool, 2)
            return ["gate", rng.choice(G2), [ref(a), ref(b)]]
        q = rng.choice(pool)
        nm = rng.choice(G1 + ["P", "PF"])
        if nm == "P":
            return ["gate", "P", [ref(q), ["i", g.rep(rng.randrange(4), 0.3)]]]
        if nm == "PF":
            return ["gate", "PF", [["i", rng.randrange(4)], ref(q)]]
        return ["gate", nm, [ref(q)]]

    body = []
    # a gate on EVERY index of the last alias (index 0 .. size-1), in the alias's own order
    for i in range(d.length(last)):
        if rng.random() < 0.75 or i in (0, d.length(last) - 1):
            body.append(["gate", rng.choice(["X", "X", "SX", "Y"]), [["q", last, i if rng.random() < 0.8 else g.let_for(i)]]])
    macros = []
    if family in ("deep", "shadow") or rng.random() < 0.4:
        # m1 a { G a ; G const } ; m2 b a { m1 b ; G2 a b ; G a } ; m3 a b { m2 b a ; < G a | { G b ; G b } > ; m1 b ; G b }
        cq = rng.choice(qubits)
        macros.append(["m1", [["a", "q"]], [["gate", rng.choice(["X", "SX", "Y"]), [["n", "a"]]], gate([cq], False)]])
        macros.append(["m2", [["b", "q"], ["a", "q"]],
                       [["call", "m1", [["n", "b"]]], ["gate", rng.choice(G2), [["n", "a"], ["n", "b"]]],
                        ["gate", rng.choice(["X", "S", "SX"]), [["n", "a"]]]]])
        macros.append(["m3", [["a", "q"], ["b", "q"]],
                       [["call", "m2", [["n", "b"], ["n", "a"]]], ["par", [["gate", rng.choice(["X", "SX"]), [["n", "a"]]], ["seq", [["gate", "S", [["n", "b"]]], ["gate", "Y", [["n", "b"]]]]]]],
                        ["call", "m1", [["n", "b"]]], ["gate", "X", [["n", "b"]]]]])
        # h i b { G last[i] ; G b }   (index through an integer parameter)
        use_h = rng.random() < (0.5 if family == "deep" else 0.25)
        if use_h:
            macros.append(["h", [["i", "i"], ["b", "q"]],
                           [["gate", rng.choice(["X", "SX"]), [["q", last, "i"]]], ["gate", "Y", [["n", "b"]]],
                            ["gate", "P", [["q", last, "i"], ["i", "i"]]]]])
            macros.append(["hh", [["b", "q"], ["i", "i"]], [["call", "h", [["i", "i"], ["n", "b"]]], ["gate", "X", [["n", "b"]]]]])
        if len(qubits) >= 2:
            a, b = rng.sample(qubits, 2)
            body.append(["call", "m3", [ref(a), ref(b)]])
            body.append(["call", "m2", [ref(b), ref(a)]])
        body.append(["call", "m1", [ref(rng.choice(qubits))]])
        if use_h:
            i = rng.randrange(d.length(last))
            body.append(["call", "h", [["i", g.rep(i, 0.4)], ref(rng.choice(qubits))]])
            i = rng.randrange(d.length(last))
            body.append(["call", "hh", [ref(rng.choice(qubits)), ["i", g.rep(i, 0.4)]]])
    if family == "shadow":
        # the parameter is named like the fundamental register / like an alias and the body uses only the parameter
        pn = rng.choice(["r", "r", "r", deep_names[0], deep_names[-1]])
        macros.append(["sh", [[pn, "q"]], [["gate", "X", [["n", pn]]], ["gate", rng.choice(["SX", "S", "X"]), [["n", pn]]]]])
        where = rng.sample(["main", "arg", "other"], rng.randrange(1, 4))
        if "arg" in where:
            body.append(["call", "sh", [ref(rng.choice(qubits))]])
        if "other" in where:
            q = rng.choice(qubits)
            macros.append(["ot", [["c", "q"]], [gate([q], False), ["gate", "X", [["n", "c"]]], ["call", "sh", [["n", "c"]]]]])
            body.append(["call", "ot", [ref(rng.choice(qubits))]])
        if "main" in where:
            body.append(gate())
        if rng.random() < 0.5:
            body.append(["call", "sh", [["q", "r", rng.randrange(n)]]])
    P["macros"] = macros
    # parallel in sequential in parallel, loops
    k = rng.randrange(2, 6) if family != "deep" else rng.randrange(3, 7)
    for _ in range(k):
        t = rng.random()
        if t < 0.4 or len(qubits) < 2:
            body.append(gate())
        elif t < 0.55:
            body.append(["loop", g.rep(rng.choice([1, 1, 2, 3]), 0.4), [gate(), gate()]])
        else:
            qs = list(qubits)
            rng.shuffle(qs)
            cut = rng.randrange(1, len(qs))
            A, B = qs[:cut], qs[cut:]
            inner = ["seq", [gate(A)]]
            if len(A) >= 2:
                c2 = rng.randrange(1, len(A))
                inner = ["seq", [gate(A), ["par", [gate(A[:c2]), ["seq", [gate(A[c2:]), gate(A[c2:])]]]], gate(A)]]
            br = [inner, gate(B)]
            if macros and rng.random() < 0.4:
                br[1] = ["seq", [gate(B), ["call", "sh" if family == "shadow" else "m1", [ref(rng.choice(B))]]]]
            body.append(["par", br])
    P["body"] = body
    return P


def gen_valid(rng, family, thorough):
    for _ in range(60):
        P = gen_program(rng, family, thorough)
        if program_valid(P):
            return P
    # a plain fallback that is always valid
    return {"lets": [["k0", -1]], "reg": ["r", 4], "maps": [{"name": "x", "src": "r", "kind": "slice", "start": 3, "stop": "k0", "step": -1}],
            "macros": [], "body": [["gate", "X", [["q", "x", 3]]], ["gate", "CX", [["q", "x", 3], ["q", "x", 0]]]], "emulate": True}


def mutate(rng, P):
    """a near twin: the same text but for ONE let value / literal bound / the register size (names shared, mapped differently)"""
    base = Den(P).ops(P["body"], {}, True)
    for _ in range(200):
        Q = copy.deepcopy(P)
        t = rng.random()
        if t < 0.4 and Q["lets"]:
            e = rng.choice(Q["lets"])
            e[1] = e[1] + rng.choice([-3, -2, -1, 1, 2]) if rng.random() < 0.7 else -e[1]
        elif t < 0.85:
            sl = [m for m in Q["maps"] if m["kind"] == "slice"]
            if not sl:
                continue
            m = rng.choice(sl)
            if rng.random() < 0.4 and all(isinstance(m[f], int) for f in ("start", "stop", "step")):
                # the same elements the other way round
                els = list(range(m["start"], m["stop"], m["step"]))
                m["start"], m["stop"], m["step"] = els[-1], els[0] - (1 if m["step"] > 0 else -1), -m["step"]
            else:
                f = rng.choice(["start", "stop", "step"])
                if not isinstance(m[f], int):
                    continue
                m[f] = m[f] + rng.choice([-2, -1, 1, 2])
        else:
            if not isinstance(Q["reg"][1], int):
                continue
            Q["reg"][1] = Q["reg"][1] + rng.choice([-1, 1])
        if not program_valid(Q):
            continue
        dq = Den(Q)
        if dq.length("r") > EMU_MAX:
            continue
        Q["emulate"] = P["emulate"]
        if dq.ops(Q["body"], {}, True) != base or dq.length("r") != Den(P).length("r"):
            return Q
    return None


def bound_lets(P):
    """let name -> roles in which it is used where an integer is needed for a reference"""
    roles = {}
    if isinstance(P["reg"][1], str):
        roles.setdefault(P["reg"][1], set()).add("size")
    for m in P["maps"]:
        if m["kind"] == "qubit" and isinstance(m["index"], str):
            roles.setdefault(m["index"], set()).add("index")
        if m["kind"] == "slice":
            for f in ("start", "stop", "step"):
                if isinstance(m[f], str):
                    roles.setdefault(m[f], set()).add(f)

    def walk(stmts):
        for s in stmts:
            if s[0] in ("gate", "call"):
                for a in s[2]:
                    if a[0] == "q" and isinstance(a[2], str):
                        roles.setdefault(a[2], set()).add("index")
            else:
                walk(s[2] if s[0] == "loop" else s[1])
    walk(P["body"])
    for _, params, mb in P["macros"]:
        walk(mb)
    names = {n for n, _ in P["lets"]}
    return {k: v for k, v in roles.items() if k in names}


def gen_case(rng, idx, thorough=False, family=None):
    family = family or FAMILIES[idx % len(FAMILIES)]
    case = {"id": idx, "family": family}
    if family == "pairs":
        A = gen_valid(rng, rng.choice(["slices", "deep", "shadow"]), thorough)
        for _ in range(20):
            if A["emulate"]:
                break
            A = gen_valid(rng, "slices", thorough)
        progs = [A]
        tw = mutate(rng, A)
        if tw is not None:
            progs.append(tw)
        if tw is None or rng.random() < 0.6:
            for _ in range(20):
                B = gen_valid(rng, rng.choice(["slices", "deep"]), thorough)
                if B["emulate"]:
                    progs.append(B)
                    break
        if rng.random() < 0.4 and len(progs) >= 2:
            tw2 = mutate(rng, progs[-1])
            if tw2 is not None:
                progs.append(tw2)
        rng.shuffle(progs)
        case["P"] = progs[0]
        case["more"] = progs[1:]
        k = len(progs)
        order = list(range(k)) + [0] + ([rng.randrange(k)] if rng.random() < 0.5 else [])
        case["order"] = order
        return case
    if family == "kind":
        for _ in range(40):
            P = gen_valid(rng, rng.choice(["slices", "deep"]), thorough)
            roles = bound_lets(P)
            if roles and not any(m["kind"] == "slice" and m["stop"] is None for m in P["maps"]):
                break
        else:
            P = gen_valid(rng, "slices", thorough)
            roles = bound_lets(P)
        case["P"] = P
        if roles:
            frozen = any(m["kind"] == "slice" and m["stop"] is None for m in P["maps"])
            name = rng.choice(sorted(roles))
            val = dict(map(tuple, P["lets"]))[name]
            if not frozen:
                for _ in range(40):
                    nv = val + rng.choice([-3, -2, -1, 1, 2, 3]) if rng.random() < 0.8 else -val
                    Q = copy.deepcopy(P)
                    for e in Q["lets"]:
                        if e[0] == name:
                            e[1] = nv
                    if program_valid(Q) and Den(Q).length("r") <= EMU_MAX:
                        case["ov"] = [name, nv, rng.random() < 0.3]      # [let, value, written as float]
                        break
            case["bad"] = [name, val + rng.choice([0.5, -0.5, 0.25, 1.5])]
        return case
    case["P"] = gen_valid(rng, family, thorough)
    return case


# ------------------------------------------------------------------------------------------------------------------
# the checks

class Check:
    def __init__(self, P, checks, tag=""):
        self.P = P
        self.den = Den(P)
        self.checks = checks
        self.tag = tag

    def rec(self, name, ok, detail=""):
        self.checks.append((name, bool(ok), "" if ok else short(self.tag + detail, 900)))

    def flat(self, s):
        L = lib()
        if isinstance(s, L["GateStatement"]):
            return [s]
        if isinstance(s, L["LoopStatement"]):
            return self.flat(s.statements)
        out = []
        for x in s.statements:
            out += self.flat(x)
        return out

    def top(self, c):
        st = list(c.body.statements)
        return st[1:-1] if self.P["emulate"] else st

    def resolved(self, q, ctx):
        r = guarded(lambda: q.resolve_qubit(dict(ctx)) if ctx is not None else q.resolve_qubit())
        if r[0] == "ok":
            reg, k = r[1]
            return ("ok", getattr(reg, "name", None), k, bool(getattr(reg, "fundamental", False)))
        return r

    def is_index(self, got, k):
        return got[0] == "ok" and got[1] == self.den.R and got[3] and type(got[2]) is int and got[2] == k

    def used_is(self, view, obj, ctx, want, what):
        r = guarded(lambda: {k: set(v) for k, v in lib()["used"](obj, context=None if ctx is None else dict(ctx)).items() if v})
        exp = {self.den.R: set(want)} if want else {}
        ok = r[0] == "ok" and r[1] == exp and all(type(x) is int for v in r[1].values() for x in v)
        self.rec("C06d_used", ok, f"{view}: get_used_qubit_indices({what}) = {short(str(r[1:]), 200)}, the references denote "
                 f"{self.den.R}{sorted(want)}" + (f" (context {short(str(ctx), 160)})" if ctx else ""))

    def depends_on_param(self, q):
        L = lib()
        return isinstance(q.alias_index, L["Parameter"]) or isinstance(q.alias_from, L["Parameter"])

    def fund_ok(self, v, k):
        L = lib()
        af = v.alias_from
        return (isinstance(af, L["Register"]) and af.fundamental and af.name == self.den.R
                and type(v.alias_index) is int and v.alias_index == k)

    def walk(self, view, c, asts, stmts, env, ctx, fundamental, depth=0):
        L = lib()
        den = self.den
        GS, NQ, PR = L["GateStatement"], L["NamedQubit"], L["Parameter"]
        stmts = list(stmts)
        if len(asts) != len(stmts):
            self.rec("C06d_resolve", False, f"{view}: {len(stmts)} statements where the program has {len(asts)}")
            return
        for a, s in zip(asts, stmts):
            what = text_stmt(a)
            if a[0] in ("gate", "call"):
                if not isinstance(s, GS) or s.name != a[1] or len(s.parameters) != len(a[2]):
                    self.rec("C06d_resolve", False, f"{view}: statement {s!s:.80} where the program has `{what}`")
                    continue
                if (a[0] == "call") != isinstance(s.gate_def, L["Macro"]):
                    self.rec("C06d_resolve", False, f"{view}: `{what}`: gate_def is {type(s.gate_def).__name__}")
                    continue
                for aa, v in zip(a[2], s.parameters.values()):
                    if aa[0] == "i":
                        continue
                    k = den.qubit(aa, env)
                    if isinstance(v, PR):
                        continue
                    if not isinstance(v, NQ):
                        self.rec("C06d_resolve", False, f"{view}: `{what}`: argument {v!s:.60} is no qubit")
                        continue
                    got = self.resolved(v, ctx)
                    self.rec("C06d_resolve", self.is_index(got, k),
                             f"{view}: `{what}`: {v.name} resolves to {got[1:3] if got[0] == 'ok' else got}, the reference "
                             f"denotes {den.R}[{k}]" + (f" (context {short(str(ctx), 160)})" if ctx else ""))
                    if fundamental and not self.depends_on_param(v):
                        self.rec("C06d_fill", self.fund_ok(v, k), f"{view}: `{what}`: argument is {v!s:.90}, expected {den.R}[{k}] of the fundamental register")
                self.used_is(view, s, ctx, den.uses([a], env), f"`{what}`")
                if a[0] == "call" and depth < 4:
                    _, params, mbody = den.macros[a[1]]
                    env2 = den.bind(a[1], a[2], env)
                    ctx2 = {}
                    for (p, kind), aa, v in zip(params, a[2], s.parameters.values()):
                        if isinstance(v, PR):
                            ctx2[p] = (ctx or {}).get(v.name, v)
                        elif isinstance(v, NQ) and self.depends_on_param(v):
                            ctx2[p] = c.registers[den.R][env2[p][1]]
                        else:
                            ctx2[p] = v
                    mac = s.gate_def
                    if [q.name for q in mac.parameters] != [p for p, _ in params]:
                        self.rec("C06d_resolve", False, f"{view}: macro {a[1]} has parameters {[q.name for q in mac.parameters]}")
                        continue
                    self.walk(view + f" > {a[1]}", c, mbody, mac.body.statements, env2, ctx2, fundamental, depth + 1)
                    self.used_is(view + f" > {a[1]}", mac.body, ctx2, den.uses(mbody, env2), f"body of {a[1]}")
            elif a[0] == "loop":
                if not isinstance(s, L["LoopStatement"]):
                    self.rec("C06d_resolve", False, f"{view}: statement {s!s:.80} where the program has `{what}`")
                    continue
                self.used_is(view, s, ctx, den.uses([a], env), f"`{what}`")
                self.walk(view, c, a[2], s.statements.statements, env, ctx, fundamental, depth)
            else:
                if not isinstance(s, L["BlockStatement"]) or bool(s.parallel) != (a[0] == "par"):
                    self.rec("C06d_resolve", False, f"{view}: statement {s!s:.80} where the program has `{what}`")
                    continue
                self.used_is(view, s, ctx, den.uses([a], env), f"`{what}`")
                self.walk(view, c, a[1], s.statements, env, ctx, fundamental, depth)

    def structured(self, view, c, fundamental=False):
        P, den = self.P, self.den
        allq = den.uses(P["body"], {})
        whole = set(range(den.length(den.R))) if P["emulate"] else allq
        self.walk(view, c, P["body"], self.top(c), {}, None, fundamental)
        self.used_is(view, c, None, whole, "circuit")
        # the aliases themselves: element i of every register alias and every single-qubit alias, asked of the circuit's tables
        for name in den.regs:
            reg = c.registers.get(name)
            if reg is None:
                self.rec("C06d_resolve", False, f"{view}: no register {name} in the circuit")
                continue
            for i in range(den.length(name)):
                r = guarded(lambda: reg.resolve_qubit(i))
                ok = r[0] == "ok" and getattr(r[1][0], "name", None) == den.R and type(r[1][1]) is int and r[1][1] == den.elem(name, i)
                self.rec("C06d_resolve", ok, f"{view}: registers[{name}].resolve_qubit({i}) = {short(str(r[1:]), 120)}, element {i} of {name} is {den.R}[{den.elem(name, i)}]")
                g = guarded(lambda: reg[i])
                if g[0] == "ok":
                    got = self.resolved(g[1], None)
                    self.rec("C06d_resolve", self.is_index(got, den.elem(name, i)), f"{view}: {name}[{i}] resolves to {got[1:3] if got[0] == 'ok' else got}, it denotes {den.R}[{den.elem(name, i)}]")
                else:
                    self.rec("C06d_resolve", False, f"{view}: {name}[{i}] of a register with {den.length(name)} elements: {g[1:]}")
        for name, k in den.qal.items():
            q = c.registers.get(name)
            got = self.resolved(q, None) if q is not None else ("missing",)
            self.rec("C06d_resolve", self.is_index(got, k), f"{view}: single-qubit alias {name} resolves to {got[1:3] if got[0] == 'ok' else got}, it denotes {den.R}[{k}]")

    def flat_view(self, view, c, fundamental=False):
        L = lib()
        den = self.den
        want = den.ops(self.P["body"], {}, False)
        gs = [x for x in self.flat(c.body) if x.name not in ("prepare_all", "measure_all")]
        if [x.name for x in gs] != [w[0] for w in want]:
            self.rec("C06d_resolve", False, f"{view}: gates {[x.name for x in gs][:30]}, the program applies {[w[0] for w in want][:30]}")
            return
        for x, (nm, ks, _) in zip(gs, want):
            qs = [v for v in x.parameters.values() if isinstance(v, L["NamedQubit"])]
            if len(qs) != len(ks):
                self.rec("C06d_resolve", False, f"{view}: {nm} has {len(qs)} qubit arguments, expected {len(ks)}")
                continue
            for q, k in zip(qs, ks):
                got = self.resolved(q, None)
                self.rec("C06d_resolve", self.is_index(got, k), f"{view}: {nm} {q.name} resolves to "
                         f"{got[1:3] if got[0] == 'ok' else got}, the reference denotes {den.R}[{k}]")
                if fundamental:
                    self.rec("C06d_fill", self.fund_ok(q, k), f"{view}: {nm} argument is {q!s:.90}, expected {den.R}[{k}] of the fundamental register")
            self.used_is(view, x, None, set(ks), f"{nm} ...")
        allq = den.uses(self.P["body"], {})
        self.used_is(view, c, None, set(range(den.length(den.R))) if self.P["emulate"] else allq, "circuit")

    def emulate(self, view, c, backend=None, oracle="C06d_emulator"):
        L = lib()
        np = L["np"]
        P, den = self.P, self.den
        n = den.length(den.R)
        if not P["emulate"] or n > EMU_MAX:
            return
        want = ref_state(L, n, den.ops(P["body"], {}, True))
        r = guarded(lambda: np.array((L["run"](c) if backend is None else L["run"](c, backend=backend)).subcircuits[0].state_vector))
        self.rec("C06d_yields", r[0] == "ok", f"{view}: run_jaqal_circuit on a valid program: {r[1:]}")
        if r[0] != "ok":
            return
        ok = r[1].shape == want.shape and bool(np.allclose(r[1], want, atol=1e-9))
        self.rec(oracle, ok, f"{view}: state {np.round(r[1], 3).tolist()} but the gates on the denoted qubits give {np.round(want, 3).tolist()}")

    def passes(self, view, c, light=False):
        """the consumers on circuit c (which has the shape of the program) and on what the passes make of it"""
        L = lib()
        byp = index_by_param(self.P)
        self.structured(view, c)
        self.emulate(view, c)
        fm = guarded(lambda: L["fill_in_map"](c))
        if fm[0] == "ok":
            self.structured(view + ", fill_in_map", fm[1], True)
            self.emulate(view + ", fill_in_map, run", fm[1])
        elif not byp:
            self.rec("C06d_fill", False, f"{view}: fill_in_map refuses a valid program (no reference inside a macro whose parameter has the register's name): {fm[1:]}")
        if light:
            return
        fl_ = guarded(lambda: L["fill_in_let"](c))
        self.rec("C06d_yields", fl_[0] == "ok", f"{view}: fill_in_let of a valid program: {fl_[1:]}")
        if fl_[0] == "ok":
            self.structured(view + ", fill_in_let", fl_[1])
            f2 = guarded(lambda: L["fill_in_map"](fl_[1]))
            if f2[0] == "ok":
                self.structured(view + ", fill_in_let, fill_in_map", f2[1], True)
                self.emulate(view + ", fill_in_let, fill_in_map, run", f2[1])
            elif not byp:
                self.rec("C06d_fill", False, f"{view}: fill_in_map after fill_in_let refuses a valid program: {f2[1:]}")
        ex = guarded(lambda: L["expand_macros"](c))
        self.rec("C06d_yields", ex[0] == "ok", f"{view}: expand_macros of a valid program: {ex[1:]}")
        if ex[0] == "ok":
            self.flat_view(view + ", expand_macros", ex[1])
            f3 = guarded(lambda: L["fill_in_map"](ex[1]))
            if f3[0] == "ok":
                self.flat_view(view + ", expand_macros, fill_in_map", f3[1], True)
                self.emulate(view + ", expand_macros, fill_in_map, run", f3[1])
            else:
                self.rec("C06d_fill", False, f"{view}: fill_in_map after expand_macros refuses a valid program: {f3[1:]}")
        if fm[0] == "ok":
            g1 = guarded(lambda: L["fill_in_let"](fm[1]))
            self.rec("C06d_yields", g1[0] == "ok", f"{view}: fill_in_let after fill_in_map: {g1[1:]}")
            if g1[0] == "ok":
                self.structured(view + ", fill_in_map, fill_in_let", g1[1], True)
            g2 = guarded(lambda: L["expand_macros"](fm[1]))
            self.rec("C06d_yields", g2[0] == "ok", f"{view}: expand_macros after fill_in_map: {g2[1:]}")
            if g2[0] == "ok":
                self.flat_view(view + ", fill_in_map, expand_macros", g2[1], not byp)


def parse(P):
    L = lib()
    return guarded(lambda: L["parse"](text_of(P), inject_pulses=L["GATES"], autoload_pulses=False))


def exact_elem(P, lets, name, i):
    """start + i*step along the chain in exact arithmetic, without any range check (None: no such register)"""
    if name == P["reg"][0]:
        return i
    for m in P["maps"]:
        if m["name"] == name and m["kind"] != "qubit":
            if m["kind"] == "whole":
                return exact_elem(P, lets, m["src"], i)
            v = lambda x, dflt: dflt if x is None else lets[x] if isinstance(x, str) else x      # noqa: E731
            return exact_elem(P, lets, m["src"], v(m["start"], 0) + i * v(m["step"], 1))
    return None


def check_kind(case, checks):
    """non-integral override of a let that an alias bound / index / size needs"""
    L = lib()
    P = case["P"]
    name, bad = case["bad"]
    lets = {n: Fraction(t) for n, t in P["lets"]}
    lets[name] = Fraction(bad)
    tag = f"fill_in_let(override {name} = {bad}): "
    c = parse(P)
    if c[0] != "ok":
        return
    r = guarded(lambda: L["fill_in_let"](c[1], {name: bad}))
    if r[0] != "ok":
        checks.append(("C06d_kind", r[0] == "rej", "" if r[0] == "rej" else tag + f"{r[1:]}"))
        return
    c2 = r[1]
    # every reference the consumers can be asked about without a macro context
    n_asked = 0
    for rname, reg in c2.registers.items():
        if isinstance(reg, L["NamedQubit"]):
            g = guarded(lambda: reg.resolve_qubit())
            if g[0] == "ok":
                ok = type(g[1][1]) is int
                checks.append(("C06d_kind", ok, "" if ok else tag + f"single-qubit alias {rname} resolves to index {g[1][1]!r}"))
            continue
        for i in range(6):
            g = guarded(lambda: reg.resolve_qubit(i))
            n_asked += 1
            if g[0] != "ok":
                continue
            k = g[1][1]
            ex = exact_elem(P, lets, rname, i)
            ok = type(k) is int and (ex is None or ex.denominator == 1)
            checks.append(("C06d_kind", ok, "" if ok else tag + f"registers[{rname}].resolve_qubit({i}) = {k!r}; start + i*step along the chain is {ex}"))
    u = guarded(lambda: {k: set(v) for k, v in L["used"](c2.body.statements[1] if P["emulate"] else c2.body.statements[0]).items()})
    if u[0] == "ok":
        ok = all(type(x) is int for v in u[1].values() for x in v)
        checks.append(("C06d_kind", ok, "" if ok else tag + f"used qubits {u[1]}"))


def check_case(case):
    L = lib()
    checks = []
    info = []
    P = case["P"]
    c = parse(P)
    if c[0] != "ok":
        checks.append(("C06d_yields", False, f"parse of a valid program: {c[1:]}\n{text_of(P)}"))
        return checks, info
    A = Check(P, checks)
    A.passes("parsed", c[1])
    if case["family"] == "pairs":
        progs = [P] + case["more"]
        circs = [c[1]]
        cks = [A]
        for j, Q in enumerate(case["more"]):
            cq = parse(Q)
            if cq[0] != "ok":
                checks.append(("C06d_yields", False, f"parse of a valid program: {cq[1:]}\n{text_of(Q)}"))
                return checks, info
            circs.append(cq[1])
            ck = Check(Q, checks, tag=f"[program {j + 1} of {len(progs)}, after the consumers ran on the others] ")
            cks.append(ck)
            ck.passes("parsed", cq[1], light=True)
        # the first one again, the same object, after the others
        A2 = Check(P, checks, tag="[program 0 again, same circuit object, after the others] ")
        A2.passes("parsed", c[1], light=True)
        # ONE backend object for all of them
        emu = L["Emu"]()
        hist = []
        for j in case["order"]:
            ck = Check(progs[j], checks, tag=f"[ONE UnitarySerializedEmulator object, programs run before: {hist}] program {j}: ")
            ck.emulate("run(backend=emu)", circs[j], backend=emu, oracle="C06d_backend")
            hist.append(j)
        # and one backend for the filled-in / expanded forms, other order
        emu2 = L["Emu"]()
        hist = []
        for j in reversed(case["order"]):
            f = guarded(lambda: L["expand_macros"](L["fill_in_let"](circs[j])))
            if f[0] == "ok":
                ck = Check(progs[j], checks, tag=f"[ONE backend object, programs run before: {hist}] program {j}: ")
                ck.emulate("fill_in_let, expand_macros, run(backend=emu)", f[1], backend=emu2, oracle="C06d_backend")
                hist.append(j)
    if case.get("ov"):
        name, nv, as_float = case["ov"]
        Q = copy.deepcopy(P)
        for e in Q["lets"]:
            if e[0] == name:
                e[1] = nv
        val = float(nv) if as_float else nv
        r = guarded(lambda: L["fill_in_let"](c[1], {name: val}))
        checks.append(("C06d_yields", r[0] == "ok", "" if r[0] == "ok" else f"fill_in_let(override {name} = {val!r}) on a program that is valid with that value: {r[1:]}"))
        if r[0] == "ok":
            B = Check(Q, checks, tag=f"[override {name} = {val!r}] ")
            B.structured("fill_in_let(overrides)", r[1])
            B.emulate("fill_in_let(overrides), run", r[1])
            ex = guarded(lambda: L["expand_macros"](r[1]))
            if ex[0] == "ok":
                B.flat_view("fill_in_let(overrides), expand_macros", ex[1])
            fm = guarded(lambda: L["fill_in_map"](r[1]))
            if fm[0] == "ok":
                B.structured("fill_in_let(overrides), fill_in_map", fm[1], True)
            elif not index_by_param(Q):
                checks.append(("C06d_fill", False, f"[override {name} = {val!r}] fill_in_map refuses: {fm[1:]}"))
    if case.get("bad"):
        check_kind(case, checks)
    return checks, info


def features(case):
    f = {"family:" + case["family"]: 1}
    progs = [case["P"]] + case.get("more", [])
    for P in progs:
        d = Den(P)
        f[f"reg_size:{d.length('r')}"] = 1
        depth = 0
        for m in P["maps"]:
            if m["kind"] == "slice":
                st = 1 if m["step"] is None else d.gval(m["step"])
                sp = d.length(m["src"]) if m["stop"] is None else d.gval(m["stop"])
                if st < 0:
                    f["slice:reversed"] = 1
                    if sp == -1:
                        f["slice:reversed_to_element_0(stop -1)"] = 1
                        if isinstance(m["stop"], str):
                            f["slice:stop -1 by let"] = 1
                        if m["src"] != "r":
                            f["slice:reversed_to_0 of an alias"] = 1
                s0 = 0 if m["start"] is None else d.gval(m["start"])
                if abs(st) > 1 and (sp - s0) % st != 0:
                    f["slice:partial_last_step"] = 1
                if d.length(m["name"]) == 1:
                    f["slice:count_1"] = 1
                if any(isinstance(m[k], str) for k in ("start", "stop", "step")):
                    f["slice:let_bound"] = 1
                if any(m[k] is None for k in ("start", "stop", "step")):
                    f["slice:defaulted_bound"] = 1
            elif m["kind"] == "whole":
                f["alias:whole"] = 1
            if m["kind"] != "qubit":
                depth += 1
        f[f"chain_maps:{depth}"] = 1
        if isinstance(P["reg"][1], str):
            f["reg_size_by_let"] = 1
        names = [m[0] for m in P["macros"]]
        if "m3" in names:
            f["macro:depth3"] = 1
        if "h" in names:
            f["macro:index_by_param"] = 1
        if "sh" in names:
            pn = [m for m in P["macros"] if m[0] == "sh"][0][1][0][0]
            f["macro:param_named_like_" + ("register" if pn == "r" else "alias")] = 1
        if not P["emulate"]:
            f["not_emulated"] = 1
    if case.get("more"):
        f[f"backend:programs_{len(progs)}"] = 1
        f[f"backend:runs_{len(case['order'])}"] = 1
    if case.get("ov"):
        f["override:integral" + ("_float" if case["ov"][2] else "")] = 1
    if case.get("bad"):
        f["override:non_integral"] = 1
    return f


def run(seed: int, n: int, driver: str = DEFAULT_DRIVER, thorough: bool = False) -> dict:
    lib()
    rng = random.Random(f"c06_deep/{seed}/{int(thorough)}")
    oracle = {k: {"cases": 0, "failures": []} for k in ORACLES}
    dist = {}
    samples = []
    nontrivial = 0
    t0 = time.time()
    budget = 200 if thorough else 20
    for idx in range(n):
        if time.time() - t0 > budget:
            dist["stopped_by_time_budget_at_case"] = idx
            break
        case = gen_case(rng, idx, thorough)
        checks, _info = check_case(case)
        for k, v in features(case).items():
            dist[k] = dist.get(k, 0) + v
        seen = set()
        for name, ok, detail in checks:
            oracle[name]["cases"] += 1
            if not ok and len(oracle[name]["failures"]) < 12 and (name, detail[:80]) not in seen:
                seen.add((name, detail[:80]))
                oracle[name]["failures"].append({"case": case, "detail": detail if "\nregister " in detail else detail + "\n" + text_of(case["P"])[:600]})
            elif not ok:
                oracle[name].setdefault("more_failures", 0)
                oracle[name]["more_failures"] += 1
        if len(checks) > 20:
            nontrivial += 1
        if len(samples) < 5:
            samples.append({"id": case["id"], "family": case["family"], "text": text_of(case["P"])})
    for v in oracle.values():
        v.pop("more_failures", None)
    return {"corr": {}, "oracle": oracle, "distribution": dist, "samples": samples, "nontrivial": nontrivial}


def replay(case: dict, driver: str = DEFAULT_DRIVER) -> dict:
    lib()
    checks, info = check_case(case)
    bad = [(n, d) for n, ok, d in checks if not ok]
    if bad:
        return {"oracle_ok": False, "detail": f"{bad[0][0]}: {bad[0][1]}", "failed": sorted({b[0] for b in bad}),
                "text": text_of(case["P"])}
    return {"oracle_ok": True, "detail": f"{len(checks)} checks hold", "text": text_of(case["P"])}


def main():
    ap = argparse.ArgumentParser()
    ap.add_argument("--seed", type=int, default=0)
    ap.add_argument("--n", type=int, default=60)
    ap.add_argument("--thorough", action="store_true")
    a = ap.parse_args()
    t = time.time()
    r = run(a.seed, a.n, thorough=a.thorough)
    print(json.dumps({k: (v["cases"], len(v["failures"])) for k, v in r["oracle"].items()}))
    print(json.dumps(r["distribution"], sort_keys=True))
    for k, v in r["oracle"].items():
        for f in v["failures"][:2]:
            print(k, "::", f["detail"][:1200])
    print(f"{time.time() - t:.1f} s")


if __name__ == "__main__":
    main()
