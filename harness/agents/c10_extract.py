#!/venv/bin/python
"""Translator for the pipeline table of property C10.

Reads, from the Python ASTs of the three call sites, the order in which the preprocessing passes are chained:

* `jaqalpaq.parser.parser.parse_jaqal_string` — the flag-guarded sequence
  (`if expand_macro: circuit = expand_macros(circuit, preserve_definitions=True)`, `if expand_let_map: … elif expand_let: …`),
  evaluated symbolically for each of the 8 combinations of the three flags;
* `jaqalpaq.run.run.run_jaqal_circuit` and `jaqalpaq.core.result.parse_jaqal_output_list` — the nested call
  `expand_macros(fill_in_let(expand_subcircuits(circuit)))` → innermost first.

The table has the same shape as `Jaqal.Passes.pipelines` (driver op `"pipelines"`): `[[site, [pass, …]], …]`, a pass being
written `name` or `name(kw=value,…)` with the keyword arguments of the call site.

    table()               -> the table derived from the sources
    check(driver)         -> list of disagreements with the driver's table ([] = identical)

The translator refuses (raises `ExtractError`) what it does not understand: a pass call guarded by anything but a bare flag
name, a pass call whose circuit argument is not the variable assigned by the previous step, a pass called in a position
that is not an assignment to the circuit variable.  It does not execute any of the code it reads.
"""
import ast
import inspect
import itertools
import json
import subprocess
import sys

PASS_NAMES = ("expand_macros", "fill_in_let", "fill_in_map", "expand_subcircuits")
FLAGS = ("expand_macro", "expand_let", "expand_let_map")
DEFAULT_DRIVER = "/verif/lean/.lake/build/bin/jaqal-model"


class ExtractError(Exception):
    pass


def _func_ast(module_name, func_name):
    import importlib
    mod = importlib.import_module(module_name)
    src = inspect.getsource(mod)
    tree = ast.parse(src)
    for node in tree.body:
        if isinstance(node, ast.FunctionDef) and node.name == func_name:
            return node, mod
    raise ExtractError(f"{module_name}.{func_name} not found")


def _check_binding(mod, name):
    """the name used at the call site is bound, in that module, to the pass of that name in jaqalpaq.core.algorithm"""
    import importlib
    import types
    import jaqalpaq.core.algorithm as alg
    want = getattr(alg, name, None)
    if want is None or isinstance(want, types.ModuleType):
        want = getattr(importlib.import_module(f"jaqalpaq.core.algorithm.{name}"), name)
    got = getattr(mod, name, None)
    if got is not want:
        raise ExtractError(f"{mod.__name__}.{name} is not jaqalpaq's {name}")


def _is_pass_call(node):
    return isinstance(node, ast.Call) and isinstance(node.func, ast.Name) and node.func.id in PASS_NAMES


def _render(call):
    if call.keywords:
        kws = ",".join(f"{k.arg}={ast.unparse(k.value)}" for k in call.keywords)
        return f"{call.func.id}({kws})"
    return call.func.id


def _chain(call, var):
    """passes of a (possibly nested) call expression, innermost first; the innermost argument must be the variable `var`"""
    if not _is_pass_call(call):
        raise ExtractError(f"not a pass call: {ast.unparse(call)}")
    if len(call.args) != 1:
        raise ExtractError(f"pass called with {len(call.args)} positional arguments: {ast.unparse(call)}")
    inner = call.args[0]
    if isinstance(inner, ast.Name):
        if inner.id != var:
            raise ExtractError(f"pass applied to {inner.id}, expected {var}: {ast.unparse(call)}")
        return [_render(call)]
    return _chain(inner, var) + [_render(call)]


def _contains_pass_call(node):
    return any(_is_pass_call(n) for n in ast.walk(node))


def _collect(stmts, env, var, out):
    """symbolic execution of a statement list under the flag valuation `env`; `var` is the circuit variable"""
    for st in stmts:
        if isinstance(st, ast.Assign) and _contains_pass_call(st.value):
            if len(st.targets) != 1 or not isinstance(st.targets[0], ast.Name):
                raise ExtractError(f"pass result not assigned to a variable: {ast.unparse(st)}")
            out.extend(_chain(st.value, var[0]))
            var[0] = st.targets[0].id
        elif isinstance(st, ast.If):
            if _contains_pass_call(st):
                if not (isinstance(st.test, ast.Name) and st.test.id in env):
                    raise ExtractError(f"pass guarded by something that is not a bare flag: {ast.unparse(st.test)}")
                _collect(st.body if env[st.test.id] else st.orelse, env, var, out)
        elif isinstance(st, ast.Try):
            _collect(st.body, env, var, out)
            for h in st.handlers:
                if _contains_pass_call(h):
                    raise ExtractError("pass call inside an exception handler")
            if _contains_pass_call(ast.Module(body=st.orelse + st.finalbody, type_ignores=[])):
                raise ExtractError("pass call in else/finally")
        elif isinstance(st, ast.Return) and st.value is not None and _contains_pass_call(st.value):
            raise ExtractError(f"pass call in a return expression: {ast.unparse(st)}")
        elif isinstance(st, (ast.With, ast.For, ast.While)) and _contains_pass_call(st):
            raise ExtractError(f"pass call inside {type(st).__name__}")
        elif isinstance(st, ast.Expr) and _contains_pass_call(st):
            raise ExtractError(f"result of a pass discarded: {ast.unparse(st)}")


def table():
    rows = []
    fn, mod = _func_ast("jaqalpaq.parser.parser", "parse_jaqal_string")
    for n in ("expand_macros", "fill_in_let", "fill_in_map"):
        _check_binding(mod, n)
    args = [a.arg for a in fn.args.args]
    for f in FLAGS:
        if f not in args:
            raise ExtractError(f"parse_jaqal_string has no parameter {f}")
    # the circuit variable is the one assigned from build(...)
    build_var = None
    for node in ast.walk(fn):
        if isinstance(node, ast.Assign) and isinstance(node.value, ast.Call) and isinstance(node.value.func, ast.Name) \
                and node.value.func.id == "build" and isinstance(node.targets[0], ast.Name):
            build_var = node.targets[0].id
    if build_var is None:
        raise ExtractError("no `x = build(...)` in parse_jaqal_string")
    for em, el, elm in itertools.product([False, True], repeat=3):
        env = {"expand_macro": em, "expand_let": el, "expand_let_map": elm}
        out = []
        _collect(fn.body, env, [build_var], out)
        rows.append([f"parse_jaqal_string[expand_macro={int(em)},expand_let={int(el)},expand_let_map={int(elm)}]", out])
    # the register-count check must come after the statement that holds the passes
    pos_pass = max(i for i, st in enumerate(fn.body) if _contains_pass_call(st))
    pos_check = [i for i, st in enumerate(fn.body) if isinstance(st, ast.If) and "fundamental" in ast.unparse(st.test)]
    if not pos_check or min(pos_check) < pos_pass:
        raise ExtractError("the register-count check does not follow the passes")
    for module, name in (("jaqalpaq.run.run", "run_jaqal_circuit"), ("jaqalpaq.core.result", "parse_jaqal_output_list")):
        fn, mod = _func_ast(module, name)
        for n in ("expand_macros", "fill_in_let", "expand_subcircuits"):
            _check_binding(mod, n)
        out = []
        _collect(fn.body, {}, [fn.args.args[0].arg], out)
        rows.append([name, out])
    return rows


def driver_table(driver=DEFAULT_DRIVER):
    p = subprocess.run([driver], input=json.dumps({"op": "pipelines"}) + "\n", capture_output=True, text=True)
    j = json.loads(p.stdout.strip().split("\n")[0])
    if "out" not in j:
        raise RuntimeError(f"driver error: {j}")
    return j["out"]


def check(driver=DEFAULT_DRIVER):
    """list of disagreements between the table derived from the sources and the model's table"""
    impl = table()
    model = driver_table(driver)
    out = []
    mi = {r[0]: r[1] for r in impl}
    mm = {r[0]: r[1] for r in model}
    for site in sorted(set(mi) | set(mm)):
        if mi.get(site) != mm.get(site):
            out.append({"case": {"site": site}, "model": mm.get(site), "impl": mi.get(site)})
    if [r[0] for r in impl] != [r[0] for r in model] and not out:
        out.append({"case": {"site": "<row order>"}, "model": [r[0] for r in model], "impl": [r[0] for r in impl]})
    return out


def main():
    import argparse
    ap = argparse.ArgumentParser()
    ap.add_argument("--driver", default=DEFAULT_DRIVER)
    ap.add_argument("--print", action="store_true")
    a = ap.parse_args()
    if a.print:
        print(json.dumps(table(), indent=1))
    d = check(a.driver)
    print(json.dumps({"rows": len(table()), "disagreements": d}, indent=1))
    sys.exit(1 if d else 0)


if __name__ == "__main__":
    main()
