#!/venv/bin/python
"""C13 on EDGE VALUES and EDGE PATHS: the used-qubit analysis and the parallel-disjointness check on programs whose VALUES
the other C13 generators never produce, and on INTERACTIONS of two features that each work alone.

`used_diff.py` and `c13_history.py` draw loop counts from {1,2,3} inside parallel branches, never write an empty block, never put
more than four branches in a block, never use index / count / argument 0 through a let or a macro parameter on purpose, never
exceed a 7-qubit register and never build a program through the object-level API.  A regression that special-cases a FALSY value
(`if not count`, `x or default`, `max(overlap, default=0)`), an EMPTY container (`if not used: break`), a numeric EXTREME, or that
only shows when two features meet (a zero-count loop INSIDE a parallel branch; a strided alias handed over as a register
argument; a collision between the first and the sixth branch with empty branches in between) is invisible to them.

Each case is ONE program, generated in one of six flavours, with its own ground truth, judged through every entry point

    used / used_pipe     get_used_qubit_indices(circuit | expand_macros(fill_in_let(expand_subcircuits(circuit))))
    used_stmt            get_used_qubit_indices(sub-statement)     (branches of parallel blocks, loops, calls; busy-free ones)
    vp                   UsedQubitIndicesVisitor with validate_parallel = True          accept / reject
    discover(_pipe)      DiscoverSubcircuits().visit(circuit | expanded circuit)        accept / reject
                         (on the UNEXPANDED circuit only when no loop count is a name: the walker compares the count object
                         with 1 and raises TypeError for a let constant / macro parameter; the emulator and
                         parse_jaqal_output_list fill in lets and expand macros first, so that is not C13's subject)
    run                  run_jaqal_circuit(circuit)                                     accept / reject, state vectors
    outparse             jaqalpaq.core.result.parse_jaqal_output_list(circuit, zeros)   accept / reject

on the circuit PARSED from the text and on the same program BUILT from S-expressions with jaqalpaq.core.circuitbuilder.build
(the same program: nothing is built that the text cannot say), and on the twin with the branches of every parallel block permuted.

flavours
    zero_loop   loops with count 0 — literal, `let z 0` / `let nz -0`, macro argument (`rep q[0] 0`, `rep q[0] z`), nested
                (`loop 0 { loop 3 {…} }`, `loop 2 { loop 0 {…} }`), around a parallel block — INSIDE the branches of parallel
                blocks; about half of the programs have a collision and in most of those the colliding use of the qubit sits ONLY
                inside a zero-count loop (the analysis follows loops whatever their count: property text "through … loops")
    falsy       qubit 0 / the last qubit, index 0 through a let or a macro parameter (`idx w 0`, `w[z]`), classical arguments
                0, 0.0, -0.0 literally, through lets and through macro parameters (never a qubit), registers of size 1 and 2
    empty       empty `{ }` / `< >` / `loop n { }` / macros with an empty body / idle-only branches / empty aliases handed to a
                REGISTER parameter, blocks with up to 7 branches, collisions between the first and the last branch
    bigreg      registers of 65537 … 131072 qubits, indices around 65535 / 65536 / size-1, strided, reversed and chained
                aliases over them (busy-free programs: analysis and validate_parallel visitor only)
    extremes    loop counts 2**53+1, 2**63, 2**64+1, 10**30 (literal / let / macro argument), classical arguments beyond 2**63,
                4299-digit integers, 5.0e-324, 1.7976931348623157e308, neighbours in the last ulp (the emulator is run only when
                the number of executed gates is small, e.g. when `loop 0` guards the huge loop)
    mixed       everything together with strided / negative-step / alias-of-alias maps and REGISTER-typed gate arguments

Expected values come from the generator's own ground truth (every qubit reference is generated as a fundamental (register,
index) first and rendered through an alias chain / let index / macro parameter afterwards).  Programs are "otherwise valid" by
construction: one register, no gate given one qubit twice, prepare_all … measure_all subcircuits at top level.

oracles (real code alone; "corr" is empty)
    used_exact_edge     every used* call returns exactly the ground-truth set (empty entries dropped)
    reject_iff_edge     vp / discover* / run / outparse raise JaqalError (the CLASS is checked) <=> the ground truth has a parallel
                        block with two intersecting branches; anything else (another exception class, a hang, acceptance of a
                        collision, rejection of a collision-free program) fails
    order_edge          the program with permuted branches gives the same used set / acceptance / state vectors (exact:
                        Gaussian-dyadic gates)

CLI:    PYTHONPATH=/verif /venv/bin/python /verif/harness/agents/c13_edge.py [--seed S] [--n N] [--thorough]
Module: harness.agents.c13_edge.run(seed, n, driver, thorough) -> dict ; replay(case, driver) -> dict
"""
import os, sys, json, random, signal, argparse, warnings

os.environ.setdefault("JAQALPAQ_RUN_EMULATOR", "1")
_ROOT = os.path.dirname(os.path.dirname(os.path.dirname(os.path.abspath(__file__))))
if _ROOT not in sys.path:
    sys.path.insert(0, _ROOT)

DEFAULT_DRIVER = "/verif/lean/.lake/build/bin/jaqal-model"
FLAVOURS = ["zero_loop", "falsy", "empty", "zero_loop", "bigreg", "extremes", "mixed", "zero_loop"]
RUN_COST_MAX = 400  # executed gate instances above which the emulator is not run

_LIB = {}


def lib():
    """Lazy imports (no work at import time)."""
    if _LIB:
        return _LIB
    warnings.filterwarnings("ignore")
    from harness.gates import GATES_IDLE
    from jaqalpaq.parser import parse_jaqal_string
    from jaqalpaq.core import GateDefinition, Parameter, ParamType
    from jaqalpaq.core.circuitbuilder import build
    from jaqalpaq.core.block import BlockStatement, LoopStatement
    from jaqalpaq.core.algorithm import get_used_qubit_indices, expand_macros, fill_in_let, expand_subcircuits
    from jaqalpaq.core.algorithm.used_qubit_visitor import UsedQubitIndicesVisitor
    from jaqalpaq.core.algorithm.walkers import DiscoverSubcircuits
    from jaqalpaq.core.result import parse_jaqal_output_list
    from jaqalpaq.emulator import run_jaqal_circuit
    from jaqalpaq.error import JaqalError

    G = dict(GATES_IDLE)
    G["RG"] = GateDefinition("RG", [Parameter("g", ParamType.REGISTER)])  # a gate with a REGISTER parameter (no unitary)

    class VP(UsedQubitIndicesVisitor):
        validate_parallel = True

    _LIB.update(locals())
    return _LIB


class Hang(Exception):
    pass


def _alarm(*a):
    raise Hang()


def guarded(f):
    """-> ("ok", value) | ("err", class name, message)"""
    L = lib()
    from harness import timeouts as _T
    old = signal.signal(signal.SIGALRM, _alarm)
    signal.alarm(int(_T.limit()))
    try:
        return ("ok", f())
    except Hang:
        _T.saw_hang()
        return ("err", "hang", "")
    except L["JaqalError"] as e:
        return ("err", "JaqalError", str(e)[:300])
    except RecursionError:
        return ("err", "RecursionError", "")
    except Exception as e:
        return ("err", type(e).__name__, str(e)[:300])
    finally:
        signal.alarm(0)
        signal.signal(signal.SIGALRM, old)


# ------------------------------------------------------------------------------------------------
# generator
#
# AST   ("gate", name, args) | ("call", macro, args) | ("seq", items) | ("par", items) | ("loop", count, items)
# args  ("q", base, idx, fq)   base[idx] (idx: int | let name) or, idx None, the qubit alias `base`; fq = (register, index)
#       ("p", name)            a qubit parameter of the enclosing macro
#       ("pi", name, idx)      name[idx] of a register parameter; idx: int | let name | classical parameter name
#       ("num", text)          a literal number          ("id", name)   a let constant or a classical macro parameter
#       ("reg", name, [fq…])   a whole register / alias
# count int | let name | classical parameter name

ONE = ["X", "Y", "Z", "S", "SX"]
TWO = ["CX", "CZ", "SWAP", "ISWAP", "HH", "NS"]
THREE = ["CCX", "ROT3"]
BUSY = ("prepare_all", "measure_all")
D4299 = "7" + "0" * 4297 + "3"  # a 4299-digit integer (the interpreter's str<->int limit is 4300 digits)

INT_LETS = {  # name -> text
    "z": "0", "nz": "-0", "one": "1", "two": "2", "three": "3",
    "big53": str(2**53 + 1), "big63": str(2**63), "big64": str(2**64 + 1), "neg63": str(-(2**63) - 1),
}
FLOAT_LETS = {
    "fz": "0.0", "nfz": "-0.0", "tiny": "5.0e-324", "hugef": "1.7976931348623157e308",
    "u1": "0.1", "u2": "0.10000000000000002", "mhalf": "-0.5",
}


def num_value(text):
    try:
        return int(text)
    except ValueError:
        return float(text)


class QL:
    """the qubits of a register / alias: (register, i) for i in a range (every slice of a slice of a register is one)"""

    def __init__(self, reg, r):
        self.reg, self.r = reg, r

    def __len__(self):
        return len(self.r)

    def __getitem__(self, i):
        if isinstance(i, slice):
            return QL(self.reg, self.r[i])
        return (self.reg, self.r[i])

    def __iter__(self):
        return ((self.reg, i) for i in self.r)

    def pos(self, fq):
        return self.r.index(fq[1]) if fq[0] == self.reg and fq[1] in self.r else None


class EGen:
    def __init__(self, rng, flavour, thorough=False):
        self.rng = rng
        self.fl = flavour
        self.thorough = thorough
        self.header = []  # (text line, sexpr)
        self.lets = {}  # name -> text
        self.aliases = {}  # register-valued name -> list of fq
        self.qaliases = {}  # qubit-valued name -> fq
        self.macros = []  # (name, params, kinds, body)
        self.feat = {}
        self.readouts = 0

    def hit(self, k, n=1):
        self.feat[k] = self.feat.get(k, 0) + n

    # ---- header --------------------------------------------------------------------------------
    def build_header(self):
        rng, fl = self.rng, self.fl
        self.reg = rng.choice(["q", "r", "data", "w"])
        if fl == "bigreg":
            self.size = rng.choice([65537, 65600, 70000, 131072])
        elif fl in ("falsy", "empty"):
            self.size = rng.choice([1, 1, 2, 2, 3, 4])
        else:
            self.size = rng.choice([2, 3, 3, 4, 4, 5] + ([6] if self.thorough else []))
        want = {"z"}
        p_int = {"zero_loop": 0.6, "falsy": 0.7, "empty": 0.3, "bigreg": 0.3, "extremes": 0.8, "mixed": 0.5}[fl]
        for nm in INT_LETS:
            if nm.startswith(("big", "neg")):
                if fl in ("extremes", "mixed") and rng.random() < (0.7 if fl == "extremes" else 0.25):
                    want.add(nm)
            elif rng.random() < p_int:
                want.add(nm)
        for nm in FLOAT_LETS:
            if rng.random() < {"falsy": 0.6, "extremes": 0.6, "mixed": 0.3}.get(fl, 0.1):
                want.add(nm)
        names = [n for n in list(INT_LETS) + list(FLOAT_LETS) if n in want]
        rng.shuffle(names)
        for nm in names:
            txt = INT_LETS.get(nm) or FLOAT_LETS[nm]
            self.lets[nm] = txt
        self.lets["last"] = str(self.size - 1)
        reg_by_let = rng.random() < 0.25
        if reg_by_let:
            self.lets["sz"] = str(self.size)
        let_lines = [(f"let {nm} {txt}", ["let", nm, num_value(txt)]) for nm, txt in self.lets.items()]
        rng.shuffle(let_lines)
        if reg_by_let:
            reg_line = (f"register {self.reg}[sz]", ["register", self.reg, "sz"])
            self.hit("let_sized_register")
        else:
            reg_line = (f"register {self.reg}[{self.size}]", ["register", self.reg, self.size])
        k = len(let_lines) if reg_by_let else rng.randint(0, len(let_lines))
        k = max(k, 1 + max((i for i, l in enumerate(let_lines) if l[1][1] == "sz"), default=-1))
        self.header = let_lines[:k] + [reg_line] + let_lines[k:]
        # index lets must be defined before the maps that use them: all lets that come after the register are still before the maps
        self.aliases[self.reg] = QL(self.reg, range(self.size))
        self.build_aliases()

    def int_let_for(self, v):
        return [nm for nm, txt in self.lets.items() if nm not in FLOAT_LETS and int(txt) == v and nm != "sz"]

    def idx(self, i, p=0.4):
        """an index as int or as the name of a let with that value"""
        c = self.int_let_for(i)
        if c and self.rng.random() < p:
            nm = self.rng.choice(c)
            self.hit("index_by_let")
            if i == 0:
                self.hit("index_0_by_let:" + nm)
            return nm
        return i

    def add_slice(self, nm, src, start, stop, step, omit_start=False, omit_stop=False):
        l = self.aliases[src]
        sub = l[start:stop:step]
        st = None if omit_start else self.idx(start, 0.25)
        sp = None if omit_stop else self.idx(stop, 0.15)
        se = None if (step == 1 and self.rng.random() < 0.5) else self.idx(step, 0.25)
        t = f"{'' if st is None else st}:{'' if sp is None else sp}" + ("" if se is None else f":{se}")
        self.header.append((f"map {nm} {src}[{t}]", ["map", nm, src, st, sp, se]))
        self.aliases[nm] = sub
        self.hit("alias_negative_step" if step < 0 else "alias_strided" if step > 1 else "alias_slice")
        if src != self.reg:
            self.hit("alias_of_alias")
        if not len(sub):
            self.hit("alias_empty")
        if omit_start or omit_stop:
            self.hit("alias_omitted_bound")

    def build_aliases(self):
        rng, fl, n = self.rng, self.fl, self.size
        names = ["a", "b", "ev", "od", "hi", "rev", "tail", "cell", "nil"]
        rng.shuffle(names)
        if fl == "bigreg":
            # aliases over the far end of a large register
            plans = rng.sample(["hi", "far", "rev", "top", "cell", "whole", "tailof"], rng.randint(2, 5))
            made = []
            for p in plans:
                nm = names.pop()
                if p == "hi":
                    self.add_slice(nm, self.reg, 65535, n, 2)
                    made.append(nm)
                elif p == "far":
                    self.add_slice(nm, self.reg, rng.choice([0, 1]), n, rng.choice([4099, 65535, 32768]))
                    made.append(nm)
                elif p == "rev":
                    self.add_slice(nm, self.reg, n - 1, rng.choice([65530, 65534]), -1)
                    made.append(nm)
                elif p == "top":
                    self.add_slice(nm, self.reg, 65536, n, 1, omit_stop=True)
                    made.append(nm)
                elif p == "cell":
                    i = rng.choice([65535, 65536, n - 1, 0])
                    self.header.append((f"map {nm} {self.reg}[{i}]", ["map", nm, self.reg, i]))
                    self.qaliases[nm] = (self.reg, i)
                    self.hit("alias_single")
                elif p == "whole":
                    self.header.append((f"map {nm} {self.reg}", ["map", nm, self.reg]))
                    self.aliases[nm] = self.aliases[self.reg]
                    self.hit("alias_whole")
                elif p == "tailof" and made:
                    src = rng.choice(made)
                    l = self.aliases[src]
                    if len(l) >= 3:
                        self.add_slice(nm, src, 1, len(l), rng.choice([1, 2, 3]), omit_stop=rng.random() < 0.5)
            return
        k = {"mixed": rng.randint(2, 5), "empty": rng.randint(0, 3)}.get(fl, rng.randint(0, 3))
        for _ in range(k):
            nm = names.pop()
            srcs = [s for s, l in self.aliases.items() if len(l)]
            src = rng.choice(srcs)
            l = self.aliases[src]
            kind = rng.random()
            if kind < 0.12:
                self.header.append((f"map {nm} {src}", ["map", nm, src]))
                self.aliases[nm] = l
                self.hit("alias_whole")
            elif kind < 0.32:
                i = rng.choice([0, 0, len(l) - 1, rng.randrange(len(l))])
                it = self.idx(i)
                self.header.append((f"map {nm} {src}[{it}]", ["map", nm, src, it]))
                self.qaliases[nm] = l[i]
                self.hit("alias_single")
            elif kind < 0.40 and fl in ("empty", "mixed"):
                s = rng.randrange(len(l) + 1)
                self.add_slice(nm, src, s, s, 1)
            elif kind < 0.62 and len(l) >= 2:
                # negative step: explicit bounds (an omitted stop means `size`, not "down to the start")
                start = rng.randrange(1, len(l))
                stop = rng.randrange(0, start)
                self.add_slice(nm, src, start, stop, rng.choice([-1, -1, -2, -3]))
            else:
                start = rng.choice([0, 0, rng.randrange(len(l))])
                stop = rng.randint(start + 1, len(l))
                step = rng.choice([1, 1, 2, 2, 3])
                self.add_slice(nm, src, start, stop, step, omit_start=(start == 0 and rng.random() < 0.3),
                               omit_stop=(stop == len(l) and rng.random() < 0.3))

    def universe(self):
        if self.fl != "bigreg":
            return list(self.aliases[self.reg])
        n = self.size
        u = {0, 1, 65534, 65535, 65536, n - 1, n - 2}
        for nm, l in self.aliases.items():
            if nm != self.reg and l is not self.aliases[self.reg]:
                for q in list(l[:2]) + list(l[-2:]):
                    u.add(q[1])
        for q in self.qaliases.values():
            u.add(q[1])
        return [(self.reg, i) for i in sorted(u) if 0 <= i < n]

    def position(self, nm, fq):
        return self.aliases[nm].pos(fq)

    def ref(self, fq):
        """render a fundamental qubit through some register / alias / qubit alias"""
        cands = []
        for nm in self.aliases:
            i = self.position(nm, fq)
            if i is not None:
                cands.append((nm, i))
        for nm, q in self.qaliases.items():
            if q == fq:
                cands.append((nm, None))
        # aliases are rarer than the register itself: give them weight
        al = [c for c in cands if c[0] != self.reg]
        nm, i = self.rng.choice(al) if al and self.rng.random() < 0.5 else self.rng.choice(cands)
        if i is None:
            return ("q", nm, None, fq)
        return ("q", nm, self.idx(i), fq)

    # ---- macros (templates) --------------------------------------------------------------------
    def build_macros(self):
        rng, fl = self.rng, self.fl
        g1 = lambda: rng.choice(ONE)
        T = {}
        pn = lambda *names: [rng.choice(n) if isinstance(n, list) else n for n in names]
        a, b = rng.sample(["a", "b", "x", "y", "tgt", "ctl"], 2)
        n = rng.choice(["n", "k", "cnt"])
        r = rng.choice(["g", "rr"])
        shadow = None
        if rng.random() < 0.12:
            # a classical parameter named like a let constant of ANOTHER value (the parameter wins inside the body)
            c = [nm for nm in self.lets if nm in ("z", "one", "two", "three")]
            if c:
                n = shadow = rng.choice(c)
                self.hit("param_shadows_let")
        if rng.random() < 0.10 and self.qaliases:
            a = rng.choice(list(self.qaliases))
            if a == b:
                b = "bb"
            self.hit("param_shadows_alias")
        T["rep"] = (["rep", [a, n], "qn", [("loop", n, [("gate", g1(), [("p", a)])])]])
        T["rep2"] = (["rep2", [a, b, n], "qqn", [("loop", n, [("par", [("gate", g1(), [("p", a)]), ("gate", g1(), [("p", b)])])])]])
        T["ph"] = (["ph", [a, n], "qn", [("gate", "P", [("p", a), ("id", n)])]])
        T["phf"] = (["phf", [n, a], "nq", [("gate", "PF", [("id", n), ("p", a)])]])
        T["idx"] = (["idx", [r, n], "rn", [("gate", g1(), [("pi", r, n)])]])
        T["idx0"] = (["idx0", [r], "r", [("gate", g1(), [("pi", r, self.idx(0, 0.5))])]])
        T["two"] = (["two", [a, b], "qq", [("par", [("gate", g1(), [("p", a)]), ("gate", g1(), [("p", b)])])]])
        T["emp"] = (["emp", [a], "q", []])
        T["emp0"] = (["emp0", [], "", []])
        T["idl"] = (["idl", [a], "q", [("gate", "I_" + g1(), [("p", a)])]])
        T["seqm"] = (["seqm", [a, b], "qq", [("gate", g1(), [("p", a)]), ("gate", rng.choice(TWO), [("p", a), ("p", b)])]])
        T["zin"] = (["zin", [a, b], "qq", [("gate", g1(), [("p", a)]), ("loop", rng.choice([0, 0, "z"]), [("gate", g1(), [("p", b)])])]])
        T["zonly"] = (["zonly", [a], "q", [("loop", 0, [("loop", rng.choice([1, 3]), [("gate", g1(), [("p", a)])])])]])
        T["rgm"] = (["rgm", [r], "r", [("gate", "RG", [("p", r)])]])
        T["nest"] = (["nest", [b, n], "qn", [("call", "rep", [("p", b), ("id", n)])]])  # forwards its count to rep
        T["nestl"] = (["nestl", [b, n], "qn", [("loop", n, [("call", "rep", [("p", b), ("num", "0")])])]])
        prob = {
            "zero_loop": {"rep": 0.9, "rep2": 0.5, "zin": 0.7, "zonly": 0.5, "nest": 0.5, "nestl": 0.4, "two": 0.3, "emp": 0.2, "ph": 0.2},
            "falsy": {"idx": 0.8, "idx0": 0.6, "ph": 0.8, "phf": 0.8, "rep": 0.4, "two": 0.4, "seqm": 0.3},
            "empty": {"emp": 0.9, "emp0": 0.7, "idl": 0.7, "rgm": 0.6, "two": 0.4, "zonly": 0.3, "rep": 0.3},
            "bigreg": {"idx": 0.7, "rgm": 0.5, "two": 0.4, "rep": 0.3, "seqm": 0.3},
            "extremes": {"rep": 0.8, "ph": 0.8, "phf": 0.8, "nest": 0.5, "rep2": 0.3, "nestl": 0.3},
            "mixed": {k: 0.35 for k in T},
        }[fl]
        order = ["rep", "rep2", "ph", "phf", "idx", "idx0", "two", "emp", "emp0", "idl", "seqm", "zin", "zonly", "rgm", "nest", "nestl"]
        chosen = [k for k in order if rng.random() < prob.get(k, 0.0)]
        if any(k in chosen for k in ("nest", "nestl")) and "rep" not in chosen:
            chosen.insert(0, "rep")
        if "zin" in chosen and "z" not in self.lets:
            chosen.remove("zin")
        for k in chosen:
            name, params, kinds, body = T[k]
            self.macros.append((name, list(params), kinds, body))
        self.shadow = shadow
        self.mnames = {m[0] for m in self.macros}

    # ---- values --------------------------------------------------------------------------------
    def count(self, inside_par=False):
        """a loop count for the main body"""
        rng, fl = self.rng, self.fl
        if fl == "zero_loop":
            pool = [0, 0, 0, "z", "z", "nz", 1, 2, "two", "one"]
        elif fl == "extremes":
            pool = [2**53 + 1, 2**63, 2**64 + 1, 10**30, "big53", "big63", "big64", 0, "z", 1, 65536, 4294967296]
        elif fl == "falsy":
            pool = [0, "z", "nz", 1, "one", 2]
        else:
            pool = [0, 1, 2, 3, "z", "one", "two"]
        pool = [c for c in pool if not isinstance(c, str) or c in self.lets]
        c = rng.choice(pool)
        v = int(self.lets[c]) if isinstance(c, str) else c
        if v == 0:
            self.hit("loop_count_0:" + ("literal" if not isinstance(c, str) else "let_" + c) + (":in_branch" if inside_par else ""))
        elif v > 2**31:
            self.hit("loop_count_huge")
        return c

    def classical(self, integer):
        """a classical argument: ("num", text) | ("id", let)"""
        rng, fl = self.rng, self.fl
        if integer:
            lits = ["0", "0", "1", "2", "3", "-1"]
            if fl in ("extremes", "mixed"):
                lits += [str(2**53 + 1), str(2**63), str(-(2**63) - 1), str(2**64 + 1), "65536"]
                if fl == "extremes" and rng.random() < 0.08:
                    self.hit("classical_4299_digits")
                    return ("num", D4299)
            ids = [nm for nm in self.lets if nm in INT_LETS]
        else:
            lits = ["0", "0.0", "-0.0", "1", "2.0", "0.5"]
            if fl in ("extremes", "mixed"):
                lits += ["5.0e-324", "1.7976931348623157e308", "0.1", "0.10000000000000002", "-1.0e300", "9007199254740993"]
            ids = [nm for nm in self.lets if nm in INT_LETS or nm in FLOAT_LETS]
        if ids and rng.random() < 0.45:
            nm = rng.choice(ids)
            self.hit("classical_by_let")
            if num_value(self.lets[nm]) == 0:
                self.hit("classical_0_by_let:" + nm)
            return ("id", nm)
        t = rng.choice(lits)
        if num_value(t) == 0:
            self.hit("classical_0_literal:" + t)
        return ("num", t)

    # ---- statements ----------------------------------------------------------------------------
    def gate(self, pool, idle_ok=True):
        """a native gate on distinct qubits of pool (pool non-empty)"""
        rng = self.rng
        pool = list(dict.fromkeys(pool))
        k = rng.random()
        pick = lambda m: [self.ref(q) for q in rng.sample(pool, m)]
        if k < 0.10 and idle_ok:
            self.hit("idle_gate")
            if len(pool) >= 2 and rng.random() < 0.4:
                return ("gate", "I_" + rng.choice(TWO), pick(2))
            return ("gate", "I_" + rng.choice(ONE), pick(1))
        if k < 0.14:
            self.hit("gate_without_unitary")
            return ("gate", "N", pick(1))
        if k < (0.40 if self.fl in ("mixed", "bigreg") else 0.24):
            c = [nm for nm, l in self.aliases.items() if len(l) <= 64 and all(q in pool for q in l)
                 and (len(l) or self.fl in ("empty", "mixed"))]
            if c:
                nm = rng.choice(c)
                self.hit("register_arg")
                if not len(self.aliases[nm]):
                    self.hit("register_arg_empty_alias")
                return ("gate", "RG", [("reg", nm, self.aliases[nm])])
        if k < (0.55 if self.fl in ("falsy", "extremes") else 0.34):
            self.hit("classical_arg")
            if rng.random() < 0.5:
                return ("gate", "P", pick(1) + [self.classical(True)])
            return ("gate", "PF", [self.classical(False)] + pick(1))
        if k < 0.72 or len(pool) < 2:
            return ("gate", rng.choice(ONE), pick(1))
        if k < 0.95 or len(pool) < 3:
            return ("gate", rng.choice(TWO), pick(2))
        return ("gate", rng.choice(THREE), pick(3))

    def call(self, pool, target=None, want=None):
        """a macro call whose footprint stays inside pool (None when no macro fits); target: a qubit the call must use"""
        rng = self.rng
        pool = list(dict.fromkeys(pool))
        ms = [m for m in self.macros if want is None or m[0] in want]
        rng.shuffle(ms)
        for name, params, kinds, body in ms:
            nq = kinds.count("q")
            if nq > len(pool) or (target is not None and nq == 0 and "r" not in kinds):
                continue
            qs = rng.sample(pool, nq)
            if target is not None and nq and target not in qs:
                qs[-1 if name in ("zin", "seqm") else 0] = target
                if len(set(qs)) < nq:
                    continue
            args, ok = [], True
            for p, kd in zip(params, kinds):
                if kd == "q":
                    args.append(self.ref(qs.pop(0)))
                elif kd == "n":
                    if name in ("rep", "rep2", "nest", "nestl"):
                        c = self.count(True)
                        if isinstance(c, str):
                            args.append(("id", c))
                        else:
                            args.append(("num", str(c)))
                        if (int(self.lets[c]) if isinstance(c, str) else c) == 0:
                            self.hit("loop_count_0:macro_argument")
                    elif name == "ph":
                        args.append(self.classical(True))
                    elif name == "phf":
                        args.append(self.classical(False))
                    else:
                        args.append(None)  # idx: filled in with the register
                elif kd == "r":
                    if name == "rgm":
                        c = [nm for nm, l in self.aliases.items() if len(l) <= 64 and all(q in pool for q in l)
                             and (target is None or target in l) and (len(l) or self.fl in ("empty", "mixed"))]
                        if not c:
                            ok = False
                            break
                        nm = rng.choice(c)
                        args.append(("reg", nm, self.aliases[nm]))
                    else:
                        # idx r k / idx0 r: choose the qubit first, then a register that has it (idx0: at position 0)
                        fq = target if target is not None else rng.choice(pool)
                        c = []
                        for nm in self.aliases:
                            i = self.position(nm, fq)
                            if i is not None and (name == "idx" or i == 0):
                                c.append((nm, i))
                        if not c:
                            ok = False
                            break
                        z = [x for x in c if x[1] == 0]
                        nm, i = rng.choice(z) if z and rng.random() < 0.6 else rng.choice(c)
                        args.append(("reg", nm, self.aliases[nm]))
                        if name == "idx":
                            it = self.idx(i, 0.4)
                            self._idx_fill = ("id", it) if isinstance(it, str) else ("num", str(it))
                            if i == 0:
                                self.hit("index_0_by_macro_argument")
            if not ok:
                continue
            args = [self._idx_fill if a is None else a for a in args]
            self.hit("macro_call:" + name)
            return ("call", name, args)
        return None

    def leaf(self, pool, target=None):
        if self.macros and self.rng.random() < 0.4:
            c = self.call(pool, target)
            if c is not None:
                return c
        if target is not None:
            others = [q for q in dict.fromkeys(pool) if q != target]
            self.rng.shuffle(others)
            g = self.gate([target] + others[: self.rng.choice([0, 0, 1])], idle_ok=False)
            return g
        return self.gate(pool)

    def hidden(self, v, own):
        """a statement list (for a sequential sub-block) whose use of v is hidden: inside a zero-count loop, a nested loop, a
        parallel block in a zero-count loop, a macro whose loop count is an argument …; own: qubits the branch may use openly"""
        rng = self.rng
        zc = lambda: rng.choice([0, 0] + [c for c in ("z", "nz") if c in self.lets])
        use = lambda: self.gate([v], idle_ok=False) if rng.random() < 0.7 else self.leaf([v], v)
        modes = ["zero_literal", "zero_let", "nested_zero_outer", "nested_zero_inner", "zero_around_par", "direct"]
        if "rep" in self.mnames:
            modes += ["rep_zero", "rep_zero"]
        if "zin" in self.mnames and own:
            modes += ["zin"]
        if "zonly" in self.mnames:
            modes += ["zonly"]
        if "nest" in self.mnames:
            modes += ["nest_zero"]
        if "nestl" in self.mnames:
            modes += ["nestl"]
        if self.fl not in ("zero_loop", "extremes", "mixed"):
            modes += ["direct"] * 6
        m = rng.choice(modes)
        self.hit("collision_hidden:" + m)
        zarg = lambda: rng.choice([("num", "0")] + [("id", c) for c in ("z", "nz") if c in self.lets])
        if m == "zero_literal":
            out = [("loop", 0, [use()])]
        elif m == "zero_let":
            out = [("loop", zc(), [use()])]
        elif m == "nested_zero_outer":
            out = [("loop", zc(), [("loop", rng.choice([1, 3, "two" if "two" in self.lets else 2]), [use()])])]
        elif m == "nested_zero_inner":
            out = [("loop", rng.choice([1, 2]), [("loop", zc(), [use()])])]
        elif m == "zero_around_par":
            o = [q for q in own if q != v]
            inner = [use()] + ([self.gate([rng.choice(o)], idle_ok=False)] if o else [("seq", [])])
            rng.shuffle(inner)
            out = [("loop", zc(), [("par", inner)])]
        elif m == "rep_zero":
            out = [("call", "rep", [self.ref(v), zarg()])]
        elif m == "nest_zero":
            out = [("call", "nest", [self.ref(v), zarg()])]
        elif m == "nestl":
            out = [("call", "nestl", [self.ref(v), rng.choice([("num", "0"), ("num", "1"), ("num", "2")])])]
        elif m == "zonly":
            out = [("call", "zonly", [self.ref(v)])]
        elif m == "zin":
            o = [q for q in own if q != v]
            out = [("call", "zin", [self.ref(rng.choice(o)), self.ref(v)])] if o else [("loop", 0, [use()])]
        else:
            out = [use()]
        # the branch's open statements around the hidden one
        o = [q for q in own if q != v]
        extra = [self.leaf(o) for _ in range(rng.randint(0, 2))] if o else []
        k = rng.randint(0, len(extra))
        return extra[:k] + out + extra[k:]

    def seq_items(self, pool, depth, lo=1, hi=3):
        """statements of a sequential block / loop body / macro-free body over pool"""
        rng = self.rng
        items = []
        for _ in range(rng.randint(lo, hi)):
            k = rng.random()
            if not pool:
                items.append(("loop", self.count(True), []))
                self.hit("empty_loop_body")
            elif k < 0.45 or depth >= 3:
                items.append(self.leaf(pool))
            elif k < 0.75:
                body = self.seq_items(pool, depth + 1, 0 if self.fl == "empty" else 1, 2)
                if not body:
                    self.hit("empty_loop_body")
                items.append(("loop", self.count(True), body))
                self.hit("loop_in_branch")
            elif len(set(pool)) >= 2:
                items.append(self.par(pool, depth + 1))
                self.hit("par_nested_in_branch")
            else:
                items.append(self.leaf(pool))
        return items

    def par(self, pool, depth, top=False):
        """a parallel block whose branches share out pool; sometimes with a collision planted"""
        rng, fl = self.rng, self.fl
        fq = list(dict.fromkeys(pool))
        rng.shuffle(fq)
        if fl == "empty":
            nb = rng.choice([0, 1, 2, 3, 4, 5, 6, 7]) if top else rng.randint(2, 4)
        else:
            nb = rng.choice([2, 2, 3, 3, 4, 5]) if top else rng.randint(2, 3)
        if nb == 0:
            self.hit("par_branches:0")
            return ("par", [])
        pools = [fq[b::nb] for b in range(nb)]
        rng.shuffle(pools)
        plant = None
        preset = {}
        if top and nb >= 2 and fl in ("mixed", "bigreg") and rng.random() < 0.4:
            # one branch takes a whole strided / reversed alias as a REGISTER argument, the others work in its gaps
            c = [nm for nm, l in self.aliases.items() if 2 <= len(l) <= 64 and abs(l.r.step) >= 2]
            if c:
                nm = rng.choice(c)
                A = set(self.aliases[nm])
                rest = [q for q in fq if q not in A]
                pools = [list(self.aliases[nm])] + [rest[b :: nb - 1] for b in range(nb - 1)]
                if "rgm" in self.mnames and rng.random() < 0.4:
                    preset[0] = ("call", "rgm", [("reg", nm, self.aliases[nm])])
                else:
                    preset[0] = ("gate", "RG", [("reg", nm, self.aliases[nm])])
                self.hit("par_branch_takes_strided_alias_as_register")
        p_conf = {"zero_loop": 0.5, "falsy": 0.4, "empty": 0.4, "bigreg": 0.35, "extremes": 0.4, "mixed": 0.35}[fl] if top else 0.08
        nonempty = [b for b in range(nb) if pools[b]]
        if nb >= 2 and nonempty and rng.random() < p_conf:
            j = rng.choice(nonempty)
            if fl in ("empty", "falsy") and rng.random() < 0.5:
                # first against last
                i, j = (0, nb - 1) if rng.random() < 0.5 else (nb - 1, 0)
                if not pools[j]:
                    pools[j] = [rng.choice(fq)]
            else:
                i = rng.choice([b for b in range(nb) if b != j])
            v = rng.choice(pools[j])
            if fl == "falsy" and rng.random() < 0.6:
                # collide on qubit 0 or on the last qubit when the victim branch can be given it
                edge = [q for q in fq if q[1] in (0, self.size - 1)]
                if edge:
                    v = rng.choice(edge)
                    for b in range(nb):
                        pools[b] = [q for q in pools[b] if q != v]
                    pools[j].append(v)
            plant = (i, j, v)
            self.hit("collision_planted")
            self.hit(f"collision_on_qubit:{'0' if v[1] == 0 else 'last' if v[1] == self.size - 1 else 'middle'}")
            self.hit(f"collision_branches:{min(i, j)}-{max(i, j)}_of_{nb}")
        items = []
        for b in range(nb):
            pl = pools[b]
            if b in preset and not (plant and b in plant[:2]):
                items.append(preset[b])
                continue
            if plant and b == plant[0]:
                st = self.hidden(plant[2], pl)
                if len(st) == 1 and st[0][0] in ("gate", "call") and rng.random() < 0.6:
                    items.append(st[0])
                else:
                    items.append(("seq", st))
                continue
            if plant and b == plant[1]:
                # the victim branch uses v for sure: openly, or (sometimes) hidden as well
                if rng.random() < 0.25:
                    items.append(("seq", self.hidden(plant[2], pl)))
                    self.hit("collision_both_sides_hidden")
                elif rng.random() < 0.5:
                    items.append(self.leaf(pl, plant[2]))
                else:
                    its = self.seq_items(pl, depth + 1, 0, 2)
                    its.insert(rng.randint(0, len(its)), self.leaf(pl, plant[2]))
                    items.append(("seq", its))
                continue
            k = rng.random()
            if not pl or (fl == "empty" and k < 0.35):
                e = rng.random()
                if e < 0.35 or (not fq):
                    items.append(("seq", []))
                    self.hit("empty_branch:block")
                elif e < 0.5:
                    items.append(("seq", [("loop", self.count(True), [])]))
                    self.hit("empty_branch:empty_loop")
                    self.hit("empty_loop_body")
                elif e < 0.65 and "emp0" in self.mnames:
                    items.append(("call", "emp0", []))
                    self.hit("empty_branch:empty_macro")
                elif e < 0.8 and "emp" in self.mnames:
                    items.append(("call", "emp", [self.ref(rng.choice(fq))]))  # any qubit: the body is empty
                    self.hit("empty_branch:empty_macro")
                elif e < 0.9 and "idl" in self.mnames:
                    items.append(("call", "idl", [self.ref(rng.choice(fq))]))
                    self.hit("empty_branch:idle_macro")
                else:
                    items.append(("gate", "I_" + rng.choice(ONE), [self.ref(rng.choice(fq))]))  # idle: no qubit is used
                    self.hit("empty_branch:idle_gate")
            elif k < 0.5:
                items.append(self.leaf(pl))
            else:
                items.append(("seq", self.seq_items(pl, depth + 1, 0 if fl == "empty" else 1, 3)))
        self.hit(f"par_branches:{nb}")
        return ("par", items)

    def top_stmt(self, pool):
        rng = self.rng
        k = rng.random()
        if k < 0.18:
            return self.leaf(pool)
        if k < 0.80:
            return self.par(pool, 0, top=True)
        if k < 0.92:
            body = [self.par(pool, 1, top=True) if rng.random() < 0.6 else self.leaf(pool) for _ in range(rng.randint(1, 2))]
            self.hit("par_in_top_loop")
            return ("loop", self.count(), body)
        self.hit("seq_block_top")
        return ("seq", self.seq_items(pool, 1, 0 if self.fl == "empty" else 1, 2))

    def build(self):
        rng = self.rng
        self.build_header()
        self.build_macros()
        U = self.universe()
        self.busy = self.fl != "bigreg" and rng.random() < 0.8
        if self.busy:
            body = []
            for _ in range(rng.choice([1, 1, 1, 2])):
                body.append(("gate", "prepare_all", []))
                body += [self.top_stmt(U) for _ in range(rng.randint(1, 3))]
                body.append(("gate", "measure_all", []))
                self.readouts += 1
            self.body = body
        else:
            self.body = [self.top_stmt(U) for _ in range(rng.randint(1, 4))]
        return self


# rendering ---------------------------------------------------------------------------------------

def r_arg(a):
    t = a[0]
    if t == "q":
        return a[1] if a[2] is None else f"{a[1]}[{a[2]}]"
    if t == "pi":
        return f"{a[1]}[{a[2]}]"
    return a[1]


def r_stmt(s, ind=""):
    t = s[0]
    if t in ("gate", "call"):
        return ind + " ".join([s[1]] + [r_arg(a) for a in s[2]])
    if t == "seq":
        if not s[1]:
            return ind + "{ }"
        return ind + "{\n" + "\n".join(r_stmt(x, ind + "  ") for x in s[1]) + "\n" + ind + "}"
    if t == "par":
        if not s[1]:
            return ind + "< >"
        return ind + "<\n" + ("\n" + ind + "|\n").join(r_stmt(x, ind + "  ") for x in s[1]) + "\n" + ind + ">"
    if t == "loop":
        if not s[2]:
            return ind + f"loop {s[1]} {{ }}"
        return ind + f"loop {s[1]} {{\n" + "\n".join(r_stmt(x, ind + "  ") for x in s[2]) + "\n" + ind + "}"
    raise ValueError(s)


def render(g, macros, body):
    out = [h[0] for h in g.header]
    for name, params, kinds, mb in macros:
        if mb:
            out.append(f"macro {name} {' '.join(params)} {{\n" + "\n".join(r_stmt(x, "  ") for x in mb) + "\n}")
        else:
            out.append(f"macro {name} {' '.join(params)} {{ }}".replace("  ", " "))
    out += [r_stmt(x) for x in body]
    return "\n".join(out) + "\n"


def x_arg(a):
    t = a[0]
    if t == "q":
        return a[1] if a[2] is None else ["array_item", a[1], a[2]]
    if t == "pi":
        return ["array_item", a[1], a[2]]
    if t == "num":
        return num_value(a[1])
    return a[1]


def x_stmt(s):
    t = s[0]
    if t in ("gate", "call"):
        return ["gate", s[1]] + [x_arg(a) for a in s[2]]
    if t == "seq":
        return ["sequential_block"] + [x_stmt(x) for x in s[1]]
    if t == "par":
        return ["parallel_block"] + [x_stmt(x) for x in s[1]]
    if t == "loop":
        return ["loop", s[1], ["sequential_block"] + [x_stmt(x) for x in s[2]]]
    raise ValueError(s)


def sexpr(g, macros, body):
    out = ["circuit"] + [h[1] for h in g.header]
    for name, params, kinds, mb in macros:
        out.append(["macro", name] + list(params) + [["sequential_block"] + [x_stmt(x) for x in mb]])
    return out + [x_stmt(x) for x in body]


# ground truth ------------------------------------------------------------------------------------

def gate_positions(name, nargs):
    """argument positions that are qubits the gate acts on: "all" (busy) | [] (idle) | positions"""
    if name in BUSY:
        return "all"
    if name.startswith("I_"):
        return []
    if name == "PF":
        return [1]
    if name == "P":
        return [0]
    return list(range(nargs))


def ev_num(g, x, env):
    """int | name -> value"""
    if isinstance(x, str):
        if x in env:
            return env[x][1]
        return num_value(g.lets[x])
    return x


def ev_arg(g, a, env):
    t = a[0]
    if t == "q":
        return ("q", a[3])
    if t == "reg":
        return ("r", a[2])
    if t == "num":
        return ("n", num_value(a[1]))
    if t == "id":
        if a[1] in env:
            return env[a[1]]
        return ("n", num_value(g.lets[a[1]]))
    if t == "p":
        return env[a[1]]
    if t == "pi":
        v = env[a[1]]
        assert v[0] == "r"
        return ("q", v[1][ev_num(g, a[2], env)])
    raise ValueError(a)


def truth(g, s, env, allq, events):
    """the fundamental qubits some gate reachable from s acts on (the body of a loop is reachable whatever its count);
    events: "G" a gate given one qubit twice, "P" a parallel block with a branch sharing a qubit with an earlier branch,
    "B" a busy gate reached"""
    t = s[0]
    if t == "gate":
        pos = gate_positions(s[1], len(s[2]))
        if pos == "all":
            events.append("B")
            return set(allq)
        out, seen = set(), set()
        for j, a in enumerate(s[2]):
            v = ev_arg(g, a, env)
            cur = {v[1]} if v[0] == "q" else set(v[1]) if v[0] == "r" else set()
            if seen & cur:
                events.append("G")
            seen |= cur
            if j in pos:
                out |= cur
        return out
    if t == "call":
        m = next(m for m in g.macros if m[0] == s[1])
        env2 = {p: ev_arg(g, a, env) for p, a in zip(m[1], s[2])}
        out = set()
        for x in m[3]:
            out |= truth(g, x, env2, allq, events)
        return out
    if t in ("seq", "loop"):
        out = set()
        for x in s[-1]:
            out |= truth(g, x, env, allq, events)
        return out
    if t == "par":
        out = set()
        for x in s[1]:
            cur = truth(g, x, env, allq, events)
            if out & cur:
                events.append("P")
            out |= cur
        return out
    raise ValueError(s)


def cost(g, s, env, mult):
    """gate instances and loop iterations the emulator executes (loop counts multiply; a zero count removes the body)"""
    if mult == 0:
        return 0
    t = s[0]
    if t == "gate":
        return mult
    if t == "call":
        m = next(m for m in g.macros if m[0] == s[1])
        env2 = {p: ev_arg(g, a, env) for p, a in zip(m[1], s[2])}
        return min(10**12, sum(cost(g, x, env2, mult) for x in m[3]))
    if t in ("seq", "par"):
        return min(10**12, sum(cost(g, x, env, mult) for x in s[1]))
    if t == "loop":
        it = min(10**12, mult * ev_num(g, s[1], env))  # the iterations themselves cost time, even over an empty body
        return min(10**12, it + sum(cost(g, x, env, it) for x in s[2]))
    raise ValueError(s)


def features(g, s, env, dist, in_par=False, zero=False):
    """structural facts of the program as it is reached (for the distribution)"""
    t = s[0]
    if t == "call":
        m = next(m for m in g.macros if m[0] == s[1])
        env2 = {p: ev_arg(g, a, env) for p, a in zip(m[1], s[2])}
        for x in m[3]:
            features(g, x, env2, dist, in_par, zero)
    elif t == "seq":
        for x in s[1]:
            features(g, x, env, dist, in_par, zero)
    elif t == "par":
        if zero:
            dist["reached:par_inside_zero_count_loop"] = dist.get("reached:par_inside_zero_count_loop", 0) + 1
        for x in s[1]:
            features(g, x, env, dist, True, zero)
    elif t == "loop":
        c = ev_num(g, s[1], env)
        if c == 0 and in_par:
            dist["reached:zero_count_loop_inside_parallel_branch"] = dist.get("reached:zero_count_loop_inside_parallel_branch", 0) + 1
        for x in s[2]:
            features(g, x, env, dist, in_par, zero or c == 0)


def as_used(fqs):
    d = {}
    for r, i in fqs:
        d.setdefault(r, set()).add(i)
    return {k: sorted(v) for k, v in d.items()}


def permute(s, rng):
    t = s[0]
    if t in ("gate", "call"):
        return s
    if t == "seq":
        return ("seq", [permute(x, rng) for x in s[1]])
    if t == "loop":
        return ("loop", s[1], [permute(x, rng) for x in s[2]])
    items = [permute(x, rng) for x in s[1]]
    if len(items) == 2:
        items.reverse()
    else:
        rng.shuffle(items)
    return ("par", items)


def children(s):
    return s[1] if s[0] in ("seq", "par") else s[2] if s[0] == "loop" else None


def addresses(body, prefix=(), in_par=False):
    """(path, statement, is a branch of a parallel block): block child indices; a loop does not consume an index"""
    out = []
    for i, s in enumerate(body):
        out.append((list(prefix) + [i], s, in_par))
        ch = children(s)
        if ch is not None:
            out += addresses(ch, tuple(prefix) + (i,), s[0] == "par")
    return out


def has_named_count(g):
    """some loop count is a NAME (a let constant or a macro parameter).  DiscoverSubcircuits on the UNEXPANDED circuit compares
    the count object with 1 (TypeError for a Constant / Parameter); the emulator and parse_jaqal_output_list fill in lets and
    expand macros first, so that path is not the property's subject: raw `discover` is not called on such programs"""
    def walk(s):
        if s[0] == "loop":
            return isinstance(s[1], str) or any(walk(x) for x in s[2])
        ch = children(s)
        return bool(ch) and any(walk(x) for x in ch)
    return any(walk(x) for m in g.macros for x in m[3]) or any(walk(x) for x in g.body)


def make_case(seed, idx, thorough=False):
    rng = random.Random(f"c13edge:{seed}:{idx}:{int(bool(thorough))}")
    flavour = FLAVOURS[idx % len(FLAVOURS)]
    for attempt in range(60):
        g = EGen(random.Random(rng.random()), flavour, thorough).build()
        allq = g.aliases[g.reg]
        ev, tr = [], set()
        for s in g.body:
            tr |= truth(g, s, {}, allq, ev)
        if "G" not in ev:
            break
    else:
        raise RuntimeError("generator: no program without a repeated qubit in 60 attempts")
    stmts = []
    for path, s, branch in addresses(g.body):
        e2 = []
        u = truth(g, s, {}, allq, e2)
        if "B" in e2:
            continue
        stmts.append({"path": path, "used": as_used(u), "branch": branch, "kind": s[0],
                      "zero": s[0] == "loop" and ev_num(g, s[1], {}) == 0})
    # branches of parallel blocks and loops first (that is where the zero-count loops are)
    rng.shuffle(stmts)
    stmts.sort(key=lambda d: (not d["zero"], not d["branch"], d["kind"] != "loop"))
    prng = random.Random(rng.random())
    pm = [(n, ps, ks, [permute(x, prng) for x in b]) for (n, ps, ks, b) in g.macros]
    pb = [permute(x, prng) for x in g.body]
    c = min(10**12, sum(cost(g, s, {}, 1) for s in g.body))
    feats = dict(g.feat)
    for s in g.body:
        features(g, s, {}, feats)
    small = g.size <= 8
    case = {
        "id": idx, "seed": seed, "thorough": bool(thorough), "flavour": flavour,
        "reg": g.reg, "size": g.size, "busy": g.busy,
        "text": render(g, g.macros, g.body), "perm_text": render(g, pm, pb),
        "sexpr": sexpr(g, g.macros, g.body), "perm_sexpr": sexpr(g, pm, pb),
        "used": as_used(tr) if not g.busy else {g.reg: list(range(g.size))},
        "conflict": "P" in ev, "readouts": g.readouts, "cost": c,
        "stmts": stmts[: (8 if thorough else 5)],
        "raw_discover": not has_named_count(g),
        "run": bool(g.busy and small and c <= RUN_COST_MAX),
        "emulable": bool(g.busy and small),
        "built": rng.choice(["text", "sexpr"]),
    }
    return case, feats


# real code ---------------------------------------------------------------------------------------

def tup(x):
    return tuple(tup(y) for y in x) if isinstance(x, list) else x


def make_circuit(case, built, perm):
    L = lib()
    if built == "text":
        return L["parse_jaqal_string"](case["perm_text" if perm else "text"], inject_pulses=L["G"], autoload_pulses=False)
    return L["build"](tup(case["perm_sexpr" if perm else "sexpr"]), inject_pulses=L["G"])


def navigate(c, path):
    L = lib()
    s = c.body
    for i in path:
        while isinstance(s, L["LoopStatement"]):
            s = s.statements
        s = s.statements[i]
    return s


def norm_used(d):
    return {k: sorted(int(x) for x in v) for k, v in d.items() if len(v)}


def pipeline(c):
    L = lib()
    return L["expand_macros"](L["fill_in_let"](L["expand_subcircuits"](c)))


def do_call(c, op, case, stmt=None):
    L = lib()
    if op == "used":
        f = lambda: norm_used(L["get_used_qubit_indices"](c))
    elif op == "used_pipe":
        f = lambda: norm_used(L["get_used_qubit_indices"](pipeline(c)))
    elif op == "used_stmt":
        f = lambda: norm_used(L["get_used_qubit_indices"](navigate(c, stmt["path"])))
    elif op == "vp":
        def f():
            L["VP"]().visit(c)
            return "accepted"
    elif op in ("discover", "discover_pipe"):
        def f():
            L["DiscoverSubcircuits"]().visit(pipeline(c) if op == "discover_pipe" else c)
            return "accepted"
    elif op == "run":
        def f():
            res = L["run_jaqal_circuit"](c)
            return {"accepted": True, "sv": [[[float(complex(z).real), float(complex(z).imag)] for z in sc.state_vector]
                                            for sc in res.subcircuits]}
    elif op == "outparse":
        def f():
            L["parse_jaqal_output_list"](c, [0] * case["readouts"])
            return "accepted"
    else:
        raise ValueError(op)
    r = guarded(f)
    if r[0] == "ok":
        return {"ok": r[1]}
    return {"err": r[1], "msg": r[2]}


def brief(out):
    if "ok" in out and isinstance(out["ok"], dict) and "sv" in out["ok"]:
        return {"ok": {"accepted": True, "subcircuits": len(out["ok"]["sv"])}}
    return out


def plan(case):
    """the calls of one case: (op, built, perm, stmt index | None)"""
    b = case["built"]
    o = "sexpr" if b == "text" else "text"
    calls = [("used", b, False, None), ("used_pipe", b, False, None), ("vp", b, False, None),
             ("used", o, False, None), ("vp", o, False, None)]
    for k in range(len(case["stmts"])):
        calls.append(("used_stmt", b if k % 2 == 0 else o, False, k))
    if case["emulable"]:
        if case["raw_discover"]:
            calls.append(("discover", b, False, None))
        calls.append(("discover_pipe", o, False, None))
        calls.append(("outparse", b, False, None))
        if case["run"]:
            calls.append(("run", b, False, None))
            calls.append(("run", o, False, None))
    if case["perm_text"] != case["text"]:
        calls.append(("used", b, True, None))
        calls.append(("vp", o, True, None))
        if case["emulable"]:
            calls.append(("outparse", o, True, None))
            if case["run"]:
                calls.append(("run", b, True, None))
    return calls


def show(case):
    return "program:\n" + case["text"]


def run_case(case):
    """-> (outcomes, [(oracle, detail)], counts)"""
    fails, outs = [], []
    counts = {"used_exact_edge": 0, "reject_iff_edge": 0, "order_edge": 0}
    circuits = {}
    first = {}
    for op, built, perm, k in plan(case):
        key = (built, perm)
        if key not in circuits:
            circuits[key] = guarded(lambda: make_circuit(case, built, perm))
        cr = circuits[key]
        tag = f"{op} on the circuit {'built from S-expressions' if built == 'sexpr' else 'parsed from text'}" \
              f"{' (branches permuted)' if perm else ''}"
        if cr[0] != "ok":
            outs.append({"op": op, "built": built, "perm": perm, "out": {"err": "build:" + cr[1], "msg": cr[2]}})
            name = "used_exact_edge" if op.startswith("used") else "reject_iff_edge"
            counts[name] += 1
            fails.append((name, f"{tag}: the generated program could not be {'built' if built == 'sexpr' else 'parsed'}: "
                                f"{cr[1]} {cr[2][:200]}; {show(case)}"))
            continue
        c = cr[1]
        stmt = case["stmts"][k] if k is not None else None
        out = do_call(c, op, case, stmt)
        outs.append({"op": op, "built": built, "perm": perm, "out": brief(out)})
        if op.startswith("used"):
            counts["used_exact_edge"] += 1
            exp = stmt["used"] if stmt is not None else case["used"]
            if out != {"ok": exp}:
                where = f" of the statement at {stmt['path']} ({stmt['kind']}" \
                        f"{', a branch of a parallel block' if stmt['branch'] else ''})" if stmt is not None else ""
                fails.append(("used_exact_edge", f"{tag}{where} returned {json.dumps(out)[:400]}; the gates reachable act on "
                                                 f"exactly {json.dumps(exp)[:400]}; {show(case)}"))
        else:
            counts["reject_iff_edge"] += 1
            accepted = "ok" in out
            rejected = out.get("err") == "JaqalError"
            if case["conflict"] and not rejected:
                fails.append(("reject_iff_edge", f"{tag}: two branches of a parallel block share a qubit but the outcome is "
                                                 f"{json.dumps(brief(out))} (JaqalError expected); {show(case)}"))
            elif not case["conflict"] and not accepted:
                fails.append(("reject_iff_edge", f"{tag}: no two branches of a parallel block share a qubit (program otherwise "
                                                 f"valid) but the outcome is {json.dumps(out)}; {show(case)}"))
        # order of the branches
        okey = (op, k)
        if op in ("used", "vp", "run", "outparse"):
            if not perm:
                first.setdefault(okey, (out, built))
            elif okey in first:
                counts["order_edge"] += 1
                o0 = first[okey][0]
                same = (o0 == out) or (o0.get("err") == out.get("err") == "JaqalError")
                if not same:
                    fails.append(("order_edge", f"{op}: the program as written gave {json.dumps(brief(o0))[:300]}, the program with "
                                                f"permuted branches {json.dumps(brief(out))[:300]}"
                                                f"{' (state vectors differ)' if brief(o0) == brief(out) else ''}; {show(case)}\n"
                                                f"permuted:\n{case['perm_text']}"))
    return outs, fails, counts


def _bump(d, k, n=1):
    d[k] = d.get(k, 0) + n


def run(seed: int, n: int, driver: str = DEFAULT_DRIVER, thorough: bool = False) -> dict:
    lib()
    orc = {k: {"cases": 0, "failures": []} for k in ["used_exact_edge", "reject_iff_edge", "order_edge"]}
    dist, samples, distinct = {}, [], set()
    for idx in range(max(n, 1)):
        case, feats = make_case(seed, idx, thorough)
        for k, v in feats.items():
            _bump(dist, "gen:" + k, v)
        _bump(dist, "flavour:" + case["flavour"])
        _bump(dist, "prog:conflict" if case["conflict"] else "prog:no_conflict")
        _bump(dist, "prog:busy" if case["busy"] else "prog:busy_free")
        _bump(dist, f"prog:register_size:{case['size'] if case['size'] <= 8 else '>65536'}")
        _bump(dist, "prog:emulator_run" if case["run"] else "prog:emulator_not_run")
        if case["emulable"] and not case["run"]:
            _bump(dist, "prog:too_many_gate_instances_for_the_emulator")
        outs, fails, counts = run_case(case)
        for k, v in counts.items():
            orc[k]["cases"] += v
        for o in outs:
            _bump(dist, "op:" + o["op"])
            _bump(dist, "built:" + o["built"])
            if o["perm"]:
                _bump(dist, "call:on_permuted_program")
            _bump(dist, "outcome:" + ("ok" if "ok" in o["out"] else o["out"]["err"]) + ":" + ("used" if o["op"].startswith("used") else o["op"]))
        reported = set()
        for name, detail in fails:
            if name in reported or len(orc[name]["failures"]) >= 20:
                orc[name]["more_failures"] = orc[name].get("more_failures", 0) + 1
                continue
            reported.add(name)
            orc[name]["failures"].append({"case": case, "detail": detail})
        distinct.add(case["text"])
        if len(samples) < 4 and case["flavour"] not in {s["flavour"] for s in samples}:
            samples.append(case)
    return {"corr": {}, "oracle": orc, "distribution": dist, "samples": samples, "nontrivial": len(distinct)}


def replay(case: dict, driver: str = DEFAULT_DRIVER) -> dict:
    lib()
    outs, fails, counts = run_case(case)
    return {"oracle_ok": not fails,
            "detail": "; ".join(f"{a}: {b}" for a, b in fails) or "no oracle failure",
            "outcomes": outs}


def main():
    ap = argparse.ArgumentParser()
    ap.add_argument("--driver", default=DEFAULT_DRIVER)
    ap.add_argument("--seed", type=int, default=0)
    ap.add_argument("--n", type=int, default=150)
    ap.add_argument("--thorough", action="store_true")
    ap.add_argument("--verbose", action="store_true")
    a = ap.parse_args()
    res = run(a.seed, a.n, a.driver, a.thorough)
    bad = 0
    for k, v in res["oracle"].items():
        nf = len(v["failures"]) + v.get("more_failures", 0)
        bad += nf
        print(f"oracle {k:18s} cases {v['cases']:6d} failures {nf}")
        for f in v["failures"][: (20 if a.verbose else 1)]:
            print("    " + f["detail"][:3000].replace("\n", "\n      "))
    print("distribution", json.dumps(res["distribution"], sort_keys=True))
    print("nontrivial", res["nontrivial"])
    sys.exit(1 if bad else 0)


if __name__ == "__main__":
    main()
