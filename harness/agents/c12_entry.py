#!/venv/bin/python
"""C12 through MACROS / LETS / SUBCIRCUIT BLOCKS and over HISTORIES of runs that share objects.

The other C12 stream (walk_diff) checks skeleton programs of blocks and loops - no macros, lets or subcircuit
blocks - with one call per program on fresh objects.  This stream states C12 on

 (a) programs in which prepare_all / measure_all / subcircuit blocks / ordinary gates are placed THROUGH macros:
     macro bodies with loops whose count is a parameter, a let constant or a literal (0 and 1 included), nested
     macro calls that forward parameters, macros that open a subcircuit which the caller closes (and the reverse),
     parameters shadowing let names, macros with a parallel body, let-valued and OVERRIDDEN loop counts,
     single-branch parallel blocks, `subcircuit` blocks (also inside macros and loops);
 (b) HISTORIES: several runs in a row that share one backend / emulator object, jobs made by calling the backend
     directly (executed at once or later, interleaved with other jobs), and circuit objects - where the earlier
     programs end with an unmatched prepare_all, are rejected under each rule (the walk is abandoned half way),
     or are accepted.  Kinds: `corner_history` (every TAILS x HEADS pair x 4 call patterns, always run),
     `history` (2-7 observed calls, 1-2 backend objects, 2-3 programs), `burst` (8-14 short-lived circuits in a row
     on one backend, nothing else kept alive: object identities get reused).  Each call is judged on ITS program
     alone.  A failure that needs what ran earlier in the process (state kept in the library's classes / modules)
     is stored with the preceding case under "before", which replay() runs first.

Recommended n: quick 2500 (~8-10 s), thorough 25000 (~80-100 s; thorough only deepens the nesting and lengthens
the histories, n is not multiplied).

Entry points: run_jaqal_circuit(c) (default backend), run_jaqal_circuit(c, backend=B / emulator_backend=B) with B
reused, B(expanded) -> job -> job.execute(), parse_jaqal_output_list(c, outputs), DiscoverSubcircuits().visit(expanded).
Circuits are made by parse_jaqal_string (plain, expand_macro=, expand_let= + override_dict=) or fill_in_let(c, overrides).

Every observed call is judged against an INDEPENDENT reference written from the property text: the program is
flattened with macros expanded by substitution (parameters shadow lets, overrides replace declared values), loops
are kept static (`[n ... ]` brackets: the body of a zero-count loop still counts), a subcircuit block reads
prepare_all ... measure_all; then the bracket automaton of the property is run over the flat token sequence.

oracle (C12 on the real code alone; corr is empty):
  C12_terminates        every library call returns within the alarm
  C12_verdict           the call produces a result  <=>  the reference accepts the program (a non-JaqalError exception
                        is neither a result nor a rejection); whatever ran before on the same objects
  C12_rule_class        a rejection is a JaqalError whose message names one of the three rules, and that rule is
                        violated by the program (classes compared, not wording)
  C12_subcircuits       accepted: number of subcircuits == number of prepare/measure pairs; their traces are the
                        pairs (flat index of the LAST prepare_all before it, flat index of the measure_all) in flat
                        order; a trailing unmatched prepare_all yields none; subcircuit.index == 0,1,2,...
  C12_discarded_gates   accepted, emulator entry points: each subcircuit's outcome distribution is the one of the
                        gates between its last prepare_all and its measure_all (gates before a repeated prepare_all
                        are discarded; nothing of an earlier circuit leaks in) - only checked for subcircuits whose
                        prepare_all and measure_all lie in the same loop body (permutation gates: X, CX)

CLI: c12_entry.py [--seed S] [--n N] [--thorough]
"""
import os, sys, json, copy, random, signal, argparse

DEFAULT_DRIVER = "/verif/lean/.lake/build/bin/jaqal-model"
NQ = 3
ORACLES = ("C12_terminates", "C12_verdict", "C12_rule_class", "C12_subcircuits", "C12_discarded_gates")
RULES = ("gate-outside", "measure-without-prepare", "m->p-in-loop")
MAX_VISITS = 160
MAX_TOKENS = 260
_real = {}


def _load():
    """import jaqalpaq lazily (no work at import time)"""
    if _real:
        return _real
    os.environ["JAQALPAQ_RUN_EMULATOR"] = "1"
    root = os.path.dirname(os.path.dirname(os.path.dirname(os.path.abspath(__file__))))   # .../verif
    if not os.path.isfile(os.path.join(root, "harness", "gates.py")):
        root = "/verif"
    if root not in sys.path:
        sys.path.insert(0, root)
    import warnings
    warnings.filterwarnings("ignore")
    from harness.gates import GATES_IDLE as GI
    from harness import timeouts as T
    from jaqalpaq.parser import parse_jaqal_string
    from jaqalpaq.emulator import run_jaqal_circuit
    from jaqalpaq.emulator.unitary import UnitarySerializedEmulator
    from jaqalpaq.core.algorithm import expand_macros, fill_in_let, expand_subcircuits
    from jaqalpaq.core.algorithm.walkers import DiscoverSubcircuits
    from jaqalpaq.core.result import parse_jaqal_output_list
    from jaqalpaq.core.block import BlockStatement, LoopStatement
    from jaqalpaq.error import JaqalError
    _real.update(GI=GI, T=T, parse=parse_jaqal_string, run=run_jaqal_circuit, Emu=UnitarySerializedEmulator,
                 expand_macros=expand_macros, fill=fill_in_let, expand_sub=expand_subcircuits,
                 Disc=DiscoverSubcircuits, out=parse_jaqal_output_list, Block=BlockStatement, Loop=LoopStatement,
                 JaqalError=JaqalError)
    return _real


class Hang(Exception):
    pass


def _alarm(*a):
    raise Hang()


# ================================================================ program representation
# program = {"lets": [[name, int]], "macros": [{"name", "params": [names], "par": bool, "body": items|branches}],
#            "body": items}
# item    = ["P"] | ["M"] | ["x", gate, [qarg...]] | ["call", macro, [arg...]]
#         | ["loop", count, items] | ["ploop", count, branches] | ["par", branches] | ["seq", items]
#         | ["sub", count|None, items]                       subcircuit block
# branch  = ["P"] | ["M"] | ["x"...] | ["call"...] | ["seq", items]
# count / arg / qarg = ["int", v] | ["q", i] | ["id", name]    (name: a parameter of the enclosing macro, else a let)

P, M = ["P"], ["M"]
def I(v): return ["int", v]
def Q(i): return ["q", i]
def Id(n): return ["id", n]
def X(q): return ["x", "X", [Q(q) if isinstance(q, int) else Id(q)]]
def CX(a, b): return ["x", "CX", [Q(a) if isinstance(a, int) else Id(a), Q(b) if isinstance(b, int) else Id(b)]]
def cnt(c): return I(c) if isinstance(c, int) else Id(c)
def L(c, *items): return ["loop", cnt(c), list(items)]
def PL(c, *branches): return ["ploop", cnt(c), list(branches)]
def PAR(*branches): return ["par", list(branches)]
def SEQ(*items): return ["seq", list(items)]
def SUB(c, *items): return ["sub", None if c is None else cnt(c), list(items)]
def CALL(name, *args): return ["call", name, [cnt(a) if isinstance(a, (int, str)) else a for a in args]]
def MAC(name, params, *body, par=False): return {"name": name, "params": list(params), "par": par, "body": list(body)}
def PROG(body, macros=(), lets=()): return {"lets": [list(l) for l in lets], "macros": list(macros), "body": list(body)}


def r_expr(e):
    return str(e[1]) if e[0] == "int" else f"q[{e[1]}]" if e[0] == "q" else e[1]


def r_simple(it):
    if it[0] == "P": return "prepare_all"
    if it[0] == "M": return "measure_all"
    if it[0] == "x": return " ".join([it[1]] + [r_expr(a) for a in it[2]])
    return " ".join([it[1]] + [r_expr(a) for a in it[2]])          # call


def r_branch(b, ind):
    if b[0] == "seq": return "{\n" + r_items(b[1], ind + 1) + "  " * ind + "}"
    return r_simple(b)


def r_par(branches, ind):
    return "< " + " | ".join(r_branch(b, ind) for b in branches) + " >"


def r_items(items, ind):
    pad = "  " * ind
    out = []
    for it in items:
        k = it[0]
        if k in ("P", "M", "x", "call"): out.append(pad + r_simple(it))
        elif k == "loop": out.append(pad + f"loop {r_expr(it[1])} {{\n" + r_items(it[2], ind + 1) + pad + "}")
        elif k == "ploop": out.append(pad + f"loop {r_expr(it[1])} " + r_par(it[2], ind))
        elif k == "par": out.append(pad + r_par(it[1], ind))
        elif k == "seq": out.append(pad + "{\n" + r_items(it[1], ind + 1) + pad + "}")
        elif k == "sub":
            c = "" if it[1] is None else r_expr(it[1]) + " "
            out.append(pad + f"subcircuit {c}{{\n" + r_items(it[2], ind + 1) + pad + "}")
        else: raise ValueError(k)
    return "".join(o + "\n" for o in out)


def src_of(prog):
    s = f"register q[{NQ}]\n"
    for n, v in prog["lets"]: s += f"let {n} {v}\n"
    for m in prog["macros"]:
        head = " ".join(["macro", m["name"]] + m["params"])
        if m["par"]: s += head + " " + r_par(m["body"], 0) + "\n"
        else: s += head + " {\n" + r_items(m["body"], 1) + "}\n"
    return s + r_items(prog["body"], 0)


# ================================================================ independent reference (property text only)

def ref_flatten(prog, override=None):
    """flat order with macros expanded by substitution, loops static.
    tokens: ("P", idx) ("M", idx) ("G", idx, gate, [qubits]) ("[", n, how) ("]",)    idx = flat gate index"""
    lets = {n: v for n, v in prog["lets"]}
    lets.update(override or {})
    macros = {m["name"]: m for m in prog["macros"]}
    toks = []
    ctr = [0]

    def val(e, scope):
        """-> ("int", v) | ("q", i), and how it was reached"""
        if e[0] == "int": return ("int", e[1]), "literal"
        if e[0] == "q": return ("q", e[1]), "literal"
        if e[1] in scope: return scope[e[1]][0], "param"
        return ("int", lets[e[1]]), "let"

    def gate(kind, *rest):
        toks.append((kind, ctr[0]) + rest)
        ctr[0] += 1

    def walk(items, scope, inmacro):
        for it in items:
            k = it[0]
            if k == "P": gate("P")
            elif k == "M": gate("M")
            elif k == "x": gate("G", it[1], [val(a, scope)[0][1] for a in it[2]])
            elif k == "call":
                m = macros[it[1]]
                assert len(m["params"]) == len(it[2])
                inner = {p: val(a, scope) for p, a in zip(m["params"], it[2])}
                walk(m["body"], inner, True)
            elif k in ("loop", "ploop"):
                (kind, n), how = val(it[1], scope)
                assert kind == "int"
                toks.append(("[", n, how + ("/macro" if inmacro else "")))
                walk(it[2], scope, inmacro)
                toks.append(("]",))
            elif k in ("par", "seq"): walk(it[1], scope, inmacro)
            elif k == "sub":
                gate("P"); walk(it[2], scope, inmacro); gate("M")
            else: raise ValueError(k)

    walk(prog["body"], {}, False)
    return toks


def ref_judge(toks):
    """The C12 text as an automaton over the flat tokens."""
    opened = None                # flat index of the prepare_all that opened the open subcircuit
    stack = []                   # per enclosing loop: [count, the open subcircuit was opened before this body began]
    pairs, viol = [], []
    for t in toks:
        if t[0] == "[": stack.append([t[1], opened is not None])
        elif t[0] == "]": stack.pop()
        elif t[0] == "P":
            opened = t[1]
            for f in stack: f[1] = False
        elif t[0] == "M":
            if opened is None: viol.append("measure-without-prepare")
            else:
                if any(n > 1 and before for n, before in stack): viol.append("m->p-in-loop")
                pairs.append([opened, t[1]])
            opened = None
            for f in stack: f[1] = False
        elif opened is None: viol.append("gate-outside")
    return {"accept": not viol, "pairs": pairs, "viol": sorted(set(viol)), "first": viol[0] if viol else None,
            "open_tail": opened is not None}


def ref_content(toks, pairs):
    """expected measured basis state (int, qubit 0 = least significant bit) of each subcircuit whose prepare and
    measure lie in the same loop body; None otherwise"""
    pos = {t[1]: i for i, t in enumerate(toks) if t[0] in ("P", "M", "G")}

    def unroll(seg):
        out, i = [], 0
        while i < len(seg):
            t = seg[i]
            if t[0] == "[":
                d, j = 1, i + 1
                while d:
                    d += 1 if seg[j][0] == "[" else -1 if seg[j][0] == "]" else 0
                    j += 1
                out += unroll(seg[i + 1:j - 1]) * max(t[1], 0)
                i = j
            else:
                out.append(t); i += 1
        return out

    res = []
    for p, m in pairs:
        seg = toks[pos[p] + 1:pos[m]]
        d, ok = 0, True
        for t in seg:
            d += 1 if t[0] == "[" else -1 if t[0] == "]" else 0
            if d < 0: ok = False
        if not ok or d != 0:
            res.append(None); continue
        bits = [0] * NQ
        for t in unroll(seg):
            if t[2] == "X": bits[t[3][0]] ^= 1
            elif t[2] == "CX": bits[t[3][1]] ^= bits[t[3][0]]
        res.append(sum(b << i for i, b in enumerate(bits)))
    return res


def ref_visits(toks, pairs):
    starts = {p for p, m in pairs}
    mult, total = [1], 0
    for t in toks:
        if t[0] == "[": mult.append(mult[-1] * max(t[1], 0))
        elif t[0] == "]": mult.pop()
        elif t[0] == "P" and t[1] in starts: total += mult[-1]
    return total


def reference(prog, override=None):
    toks = ref_flatten(prog, override)
    r = ref_judge(toks)
    r["content"] = ref_content(toks, r["pairs"])
    r["visits"] = ref_visits(toks, r["pairs"])
    r["ntok"] = len(toks)
    r["how"] = sorted({("zero_loop_" if t[1] == 0 else "one_loop_" if t[1] == 1 else "rep_loop_") + t[2]
                       for t in toks if t[0] == "["})
    return r


# ================================================================ generation

class State:
    """flat-order aware steering: mostly keeps the prepare/measure discipline (pv = chance of a deliberate slip)"""
    def __init__(self, pv):
        self.open = False
        self.pv = pv
        self.frames = []          # [count, opened before this body]

    def bad_m(self):
        return any(n > 1 and b for n, b in self.frames)

    def did(self, k):
        if k == "P": self.open = True
        elif k == "M": self.open = False
        if k in ("P", "M"):
            for f in self.frames: f[1] = False


def g_ord(rng, qs=None):
    qs = list(range(NQ)) if qs is None else qs
    k = rng.random()
    if k < 0.55 or len(qs) < 2: return ["x", "X", [Q(rng.choice(qs))]]
    if k < 0.8:
        a, b = rng.sample(qs, 2)
        return ["x", "CX", [Q(a), Q(b)]]
    return ["x", rng.choice(["N", "I_X"]), [Q(rng.choice(qs))]]


def g_gate(rng, st):
    slip = rng.random() < st.pv
    if slip:
        it = rng.choice([["P"], ["M"], g_ord(rng)])
    elif st.open:
        c = rng.random()
        it = ["M"] if c < 0.38 else ["P"] if c < 0.48 else g_ord(rng)
        if it[0] == "M" and st.bad_m(): it = ["P"] if rng.random() < 0.5 else g_ord(rng)
    else:
        it = ["P"]
    st.did(it[0])
    return it


def g_count(rng):
    return I(rng.choice([0, 0, 1, 1, 2, 2, 3]))


def g_branches(rng, st, depth, maxdepth, nosub):
    if rng.random() < 0.72 or not st.open:          # a single branch: anything goes
        if rng.random() < 0.7: return [["seq", g_list(rng, st, depth + 1, maxdepth, True)]]
        return [g_gate(rng, st)]
    qs = list(range(NQ)); rng.shuffle(qs)           # several branches: ordinary gates on disjoint qubits
    out = []
    for q in qs[:rng.choice([2, 3])]:
        if rng.random() < 0.6: out.append(["x", rng.choice(["X", "N"]), [Q(q)]])
        else:
            out.append(["seq", [["x", "X", [Q(q)]] if rng.random() < 0.7 else ["loop", g_count(rng), [["x", "X", [Q(q)]]]]
                                for _ in range(rng.randint(0, 2))]])
    return out


def g_list(rng, st, depth, maxdepth, nosub, top=False, maxlen=4):
    items = []
    for _ in range(rng.randint(0, maxlen)):
        k = rng.random()
        if k < 0.5 or depth >= maxdepth: items.append(g_gate(rng, st))
        elif k < 0.76:
            c = g_count(rng)
            st.frames.append([c[1], st.open])
            if k < 0.68: items.append(["loop", c, g_list(rng, st, depth + 1, maxdepth, nosub)])
            else: items.append(["ploop", c, g_branches(rng, st, depth + 1, maxdepth, True)])
            st.frames.pop()
        elif k < 0.84: items.append(["par", g_branches(rng, st, depth + 1, maxdepth, True)])
        elif k < 0.88 and top: items.append(["seq", g_list(rng, st, depth + 1, maxdepth, nosub)])
        elif not nosub and (not st.bad_m() or rng.random() < st.pv):
            # a subcircuit block: prepare_all ... measure_all (legal in either state: a repeated prepare_all)
            st.did("P")
            body = []
            for _ in range(rng.randint(0, 3)):
                if rng.random() < 0.75: body.append(g_ord(rng))
                else: body.append(["loop", g_count(rng), [g_ord(rng) for _ in range(rng.randint(0, 2))]])
            st.did("M")
            items.append(["sub", None if rng.random() < 0.5 else I(rng.choice([1, 2, 3])), body])
        else: items.append(g_gate(rng, st))
    return items


class Builder:
    """turns a skeleton into a program with lets and macros"""
    def __init__(self, rng, p_let, p_out, p_param):
        self.rng, self.p_let, self.p_out, self.p_param = rng, p_let, p_out, p_param
        self.lets, self.macros, self.avail = [], [], []
        self.k = 0

    def fresh(self, pre):
        self.k += 1
        return f"{pre}{self.k}"

    # ---- lets
    def letify(self, items):
        for it in items:
            k = it[0]
            if k in ("loop", "ploop", "sub"):
                if it[1] is not None and it[1][0] == "int" and self.rng.random() < self.p_let:
                    same = [n for n, v in self.lets if v == it[1][1]]
                    if same and self.rng.random() < 0.5: name = self.rng.choice(same)
                    else:
                        name = self.fresh("c"); self.lets.append([name, it[1][1]])
                    it[1] = Id(name)
                self.letify(it[2])
            elif k in ("par", "seq"): self.letify(it[1])

    # ---- macros
    def sites(self, items, acc):
        for it in items:
            k = it[0]
            if k in ("x", "call"): acc += [(it[2], j) for j in range(len(it[2]))]
            elif k in ("loop", "ploop", "sub"):
                if it[1] is not None: acc.append((it, 1))
                self.sites(it[2], acc)
            elif k in ("par", "seq"): self.sites(it[1], acc)
        return acc

    def hassub(self, items):
        for it in items:
            k = it[0]
            if k == "sub": return True
            if k == "call" and any(m["name"] == it[1] and m["hassub"] for m in self.avail): return True
            if k in ("loop", "ploop") and self.hassub(it[2]): return True
            if k in ("par", "seq") and self.hassub(it[1]): return True
        return False

    def make_macro(self, body, par):
        rng = self.rng
        params, args = [], []
        for lst, pos in self.sites(body, []):
            if rng.random() < self.p_param:
                e = lst[pos]
                if e in args and rng.random() < 0.5: name = params[args.index(e)]
                else:
                    name = self.fresh("p"); params.append(name); args.append(e)
                lst[pos] = Id(name)
        text = json.dumps(body)
        for j, a in enumerate(args):          # a parameter named like a let (the one it is bound to, or another): shadowing
            if a[0] == "id" and rng.random() < 0.5: cand = [a[1]]
            elif self.lets and rng.random() < 0.2: cand = [rng.choice(self.lets)[0]]
            else: cand = []
            for name in cand:
                if json.dumps(Id(name)) not in text and name not in params:
                    text = text.replace(json.dumps(Id(params[j])), json.dumps(Id(name)))
                    params[j] = name
        body = json.loads(text)
        m = {"name": self.fresh("m"), "params": params, "par": par, "body": body, "hassub": self.hassub(body)}
        self.macros.append(m)
        self.avail.append({"name": m["name"], "hassub": m["hassub"], "args": copy.deepcopy(args)})
        return ["call", m["name"], args]

    def recall(self, nosub):
        c = [m for m in self.avail if not (nosub and m["hassub"])]
        if not c: return None
        m = self.rng.choice(c)
        args = copy.deepcopy(m["args"])
        for j, a in enumerate(args):
            if a[0] == "int" and self.rng.random() < 0.6: args[j] = I(self.rng.choice([0, 0, 1, 2, 3]))
            elif a[0] == "id" and self.rng.random() < 0.3: args[j] = I(self.rng.choice([0, 1, 2]))
        return ["call", m["name"], args]

    def outline(self, items, nosub, norecall=False):
        """post-order: inner lists first, then cut slices of this sequential list out into macros"""
        rng = self.rng
        for it in items:
            k = it[0]
            if k == "loop": self.outline(it[2], nosub, norecall)
            elif k == "seq": self.outline(it[1], nosub, norecall)
            elif k == "sub": self.outline(it[2], True, norecall)
            elif k in ("ploop", "par"):
                br = it[2] if k == "ploop" else it[1]
                for j, b in enumerate(br):
                    if b[0] == "seq":
                        # branches of a several-branch block must stay disjoint: no extra calls there
                        self.outline(b[1], True, norecall or len(br) > 1)
                        if rng.random() < self.p_out * 0.5: br[j] = self.make_macro(b[1], False)
        j = 0
        while j < len(items):
            if rng.random() < self.p_out:
                ln = rng.choice([1, 1, 2, 2, 3, 4, 0])
                sl = items[j:j + ln]
                if len(sl) == 1 and sl[0][0] == "par" and rng.random() < 0.5:
                    items[j:j + 1] = [self.make_macro(sl[0][1], True)]
                elif not any(s[0] == "seq" for s in sl):        # `{ }` directly inside `{ }` is not parseable
                    items[j:j + len(sl)] = [self.make_macro(sl, False)]
                    if not sl: j += 1
            j += 1
        if self.avail and not norecall and rng.random() < 0.15:
            c = self.recall(nosub)
            if c: items.insert(rng.randint(0, len(items)), c)


def gen_program(rng, maxdepth, style):
    """style: 'macro' (lets + macros), 'plain' (lets only, few), 'tail' (ends with an unmatched prepare_all),
    'head' (would be legal if something were open at its start), 'slip' (a few deliberate violations)"""
    for _ in range(40):
        pv = {"slip": rng.choice([0.05, 0.12, 0.3])}.get(style, 0.0 if rng.random() < 0.8 else 0.04)
        st = State(pv)
        body = g_list(rng, st, 0, maxdepth, False, top=True, maxlen=5 if style in ("macro", "slip") else 3)
        if st.open and style != "tail" and rng.random() < 0.6: body.append(["M"])
        if style == "tail":
            tail = [["P"]] + [g_ord(rng) for _ in range(rng.randint(0, 2))]
            k = rng.random()
            if k < 0.5: body += tail
            elif k < 0.7: body.append(["loop", I(rng.choice([1, 2, 3])), tail])
            elif k < 0.85: body.append(["par", [["seq", tail]]])
            else: body += [["sub", None, []]] + tail
        elif style == "head":
            k = rng.random()
            head = [g_ord(rng)] if k < 0.4 else [["M"]] if k < 0.7 else [["loop", I(2), [["M"], ["P"]]], ["M"]] if k < 0.85 \
                else [["loop", I(rng.choice([0, 1])), [g_ord(rng), ["M"]]]]
            body = head + body
        b = Builder(rng, 0.35, {"macro": 0.3, "slip": 0.25}.get(style, 0.12), 0.45)
        b.letify(body)
        b.outline(body, False)
        if rng.random() < 0.3 and not b.lets: b.lets.append([b.fresh("c"), rng.choice([0, 1, 2])])
        prog = {"lets": b.lets, "macros": [{k: m[k] for k in ("name", "params", "par", "body")} for m in b.macros],
                "body": body}
        r = reference(prog)
        if r["visits"] <= MAX_VISITS and r["ntok"] <= MAX_TOKENS:
            return prog
    return PROG([P, M])


def gen_override(rng, prog):
    names = [n for n, v in prog["lets"]]
    if not names: return None
    for _ in range(10):
        ov = {n: rng.choice([0, 0, 1, 2, 3]) for n in names if rng.random() < 0.6}
        if not ov: continue
        r = reference(prog, ov)
        if r["visits"] <= MAX_VISITS: return ov
    return None


# ---- hand-written corners
REP = MAC("rep", ["n"], L("n", P, X(0), M))
REPQ = MAC("repq", ["n", "a"], L("n", X("a")))
FIN = MAC("fin", ["n"], L("n", M))
MP = MAC("mp", ["n"], L("n", M, P))
CORNER_PROGS = [
    PROG([CALL("rep", 0)], [REP]),
    PROG([CALL("rep", 1), CALL("rep", 3), CALL("rep", 0)], [REP]),
    PROG([CALL("repq", 0, Q(0)), P, M], [REPQ]),
    PROG([P, CALL("repq", 0, Q(1)), M], [REPQ]),
    PROG([P, CALL("fin", 0), X(0)], [FIN]),
    PROG([P, CALL("fin", 0)], [FIN]),
    PROG([P, CALL("fin", 1), P, CALL("fin", 1)], [FIN]),
    PROG([P, CALL("fin", 2)], [FIN]),
    PROG([CALL("stop")], [MAC("stop", [], L(0, M))]),
    PROG([P, CALL("stop"), P, X(1), CALL("stop")], [MAC("stop", [], L(0, M))]),
    PROG([P, M, CALL("outer", "z")], [MAC("inner", ["m"], L("m", P, M)), MAC("outer", ["n"], CALL("inner", "n"))], [["z", 0]]),
    PROG([CALL("outer", "z"), X(0)], [MAC("inner", ["m"], L("m", P, X(2))), MAC("outer", ["n"], CALL("inner", "n"))], [["z", 0]]),
    PROG([P, CALL("mp", 2), M], [MP]),
    PROG([P, CALL("mp", 1), M], [MP]),
    PROG([P, CALL("mp", 0), M], [MP]),
    PROG([P, CALL("mp", "k"), M], [MP], [["k", 1]]),
    PROG([P, CALL("mp", "k"), M], [MP], [["k", 3]]),
    PROG([CALL("open"), CALL("close")], [MAC("open", [], P, X(0)), MAC("close", [], X(1), M)]),
    PROG([CALL("close"), CALL("open")], [MAC("open", [], P, X(0)), MAC("close", [], X(1), M)]),
    PROG([L(2, CALL("open"), X(0), M)], [MAC("open", [], P)]),
    PROG([P, L(2, X(0), CALL("close"), CALL("open"))], [MAC("open", [], P), MAC("close", [], M)]),
    PROG([CALL("s", Q(0)), L(0, CALL("s", Q(1))), L(2, CALL("s", Q(2)))], [MAC("s", ["a"], SUB(None, X("a")))]),
    PROG([P, CALL("s", 2), X(0)], [MAC("s", ["k"], SUB("k", X(1)))]),
    PROG([P, CALL("m", 1), M], [MAC("m", ["n"], L("n", M, P))], [["n", 2]]),             # parameter shadows let
    PROG([P, CALL("m", 2), M], [MAC("m", ["n"], L("n", M, P))], [["n", 1]]),
    PROG([P, L("n", M, P), M], [], [["n", 1]]),
    PROG([P, L("n", M, P), M], [], [["n", 2]]),
    PROG([L("z", P, X(0), M), L("z", X(1))], [], [["z", 0]]),
    PROG([P, L(2, CALL("pm")), M], [MAC("pm", [], SEQ(M, P), par=True)]),
    PROG([P, PL(2, CALL("sq")), M], [MAC("sq", [], P, M, P)]),
    PROG([P, PAR(CALL("sq")), X(0)], [MAC("sq", [], X(1), M)]),
    PROG([P, M, CALL("t")], [MAC("t", [], P, X(0))]),
    PROG([CALL("t"), CALL("t"), M], [MAC("t", [], X(0), P, X(1))]),
    PROG([CALL("w", 0, 2)], [MAC("v", ["n"], L("n", P, X(0), M)), MAC("w", ["a", "b"], L("b", CALL("v", "a")), CALL("v", "b"))]),
    PROG([CALL("e"), P, CALL("e"), M, CALL("e")], [MAC("e", [])]),
    PROG([P, PAR(CALL("g", Q(0)), CALL("g", Q(1))), M], [MAC("g", ["a"], X("a"))]),
    PROG([]), PROG([P]), PROG([M]), PROG([X(0)]), PROG([SUB(None)]), PROG([SUB(2, X(0)), P]),
    # the subcircuit closed in a repeated loop was opened in an EARLIER sibling (directly, or through a macro)
    PROG([L(2, P), L(2, M)]), PROG([L(2, P), L(1, M)]), PROG([PAR(SEQ(P)), L(3, M, P, M)]),
    PROG([L(1, P, X(0)), L(3, X(0), M, P), M]), PROG([P, L(2, L(2, P), M)]),
    PROG([L(2, CALL("o")), L("n", CALL("c"))], [MAC("o", [], P), MAC("c", [], M)], [["n", 2]]),
    PROG([CALL("lo", 2), CALL("lc", 3)], [MAC("lo", ["n"], L("n", P, X(0))), MAC("lc", ["n"], L("n", X(1), M))]),
]
TAILS = [PROG([P]), PROG([P, X(0), M, P]), PROG([P, M, P, X(0)]), PROG([L(2, P)]), PROG([CALL("t")], [MAC("t", [], P, X(1))]),
         PROG([SUB(None, X(0)), P]), PROG([P, L(0, M)]) , PROG([P, M, PAR(SEQ(P, X(2)))]),
         # first programs that are rejected (the walk is abandoned half way), and complete ones
         PROG([X(0)]), PROG([M]), PROG([P, L(2, M)]), PROG([L(2, P, L(2, PAR(SEQ(X(0))), M), X(1))]), PROG([P, X(0), M]), PROG([])]
HEADS = [PROG([X(0), P, M]), PROG([M]), PROG([L(2, M, P), M]), PROG([P, X(0), M, P, M]), PROG([]),
         PROG([CALL("g")], [MAC("g", [], X(0), M)]), PROG([L(0, X(1)), SUB(None)]), PROG([L(2, X(0), M)])]


# ================================================================ the real code

def errclass(msg):
    """map the library's message to one of the three rules (classes, not wording)"""
    s = msg.lower()
    if "loop" in s and ("measure" in s or "prepare" in s): return "m->p-in-loop"
    if s.startswith("gate") and "follow" in s: return "gate-outside"
    if "prepare_all" in s and "measure_all" in s and "follow" in s: return "measure-without-prepare"
    return "OTHER:" + msg[:120]


def addr_index(R, circ):
    """address of every gate statement of an (expanded) circuit -> its flat index"""
    m, ctr = {}, [0]

    def walk(block, addr):
        for i, s in enumerate(block.statements):
            a = addr + (i,)
            if isinstance(s, R["Loop"]): walk(s.statements, a)
            elif isinstance(s, R["Block"]): walk(s, a)
            else:
                m[a] = ctr[0]; ctr[0] += 1

    walk(circ.body, ())
    return m


class Run:
    """runtime objects of one history"""
    def __init__(self, case):
        self.case = case
        self.circ, self.exp, self.backends, self.jobs = {}, {}, {}, {}

    def circuit(self, R, step):
        key = json.dumps([step["prog"], step["pre"], step.get("ov")], sort_keys=True)
        if step.get("reuse") and key in self.circ: return self.circ[key], key
        text = self.case["programs"][step["prog"]]["src"]
        ov = dict(step["ov"]) if step.get("ov") else None
        kw = dict(inject_pulses=R["GI"], autoload_pulses=False)
        pre = step["pre"]
        if pre == "plain": c = R["parse"](text, **kw)
        elif pre == "pm": c = R["parse"](text, expand_macro=True, **kw)
        elif pre == "pl": c = R["parse"](text, expand_let=True, override_dict=ov, **kw)
        elif pre == "pml": c = R["parse"](text, expand_let=True, expand_macro=True, override_dict=ov, **kw)
        elif pre == "fill": c = R["fill"](R["parse"](text, **kw), ov)
        elif pre == "pmfill": c = R["fill"](R["parse"](text, expand_macro=True, **kw), ov)
        else: raise ValueError(pre)
        if step.get("reuse"): self.circ[key] = c          # otherwise the object dies with the step (ids get reused)
        return c, key

    def expanded(self, R, step):
        c, key = self.circuit(R, step)
        if step.get("reuse") and key in self.exp: return self.exp[key]
        e = R["expand_macros"](R["fill"](R["expand_sub"](c)))
        if step.get("reuse"): self.exp[key] = e
        return e

    def backend(self, R, slot):
        if slot not in self.backends: self.backends[slot] = R["Emu"]()
        return self.backends[slot]


def _pairs(R, exp, traces):
    if exp is None or traces is None: return None
    m = addr_index(R, exp)
    return [[m.get(tuple(t.start)), m.get(tuple(t.end))] for t in traces]


def _content(subs):
    out = []
    for s in subs:
        p = [float(x) for x in s.simulated_probability_by_int]
        big = [i for i, x in enumerate(p) if x > 1e-9]
        out.append(big[0] if len(big) == 1 and abs(p[big[0]] - 1) < 1e-9 else "mixed:" + json.dumps([round(x, 6) for x in p]))
    return out


def do_step(R, H, step, nout):
    """-> observation {"verdict": "accepted", nsub, pairs, content, index_ok} | {"verdict": "rejected", class, msg}
                      | {"verdict": "crash", exc} | {"hang": True} | {"skip": why}"""
    JE = R["JaqalError"]
    old = signal.signal(signal.SIGALRM, _alarm)
    signal.alarm(int(R["T"].limit()))
    stage = "setup"
    try:
        op = step["op"]
        if op == "exec":
            job = H.jobs.get(step["job"])
            if job is None: return {"skip": "job was not created"}
            stage = "call"
            res = job[0].execute()
            return {"verdict": "accepted", "nsub": len(res.subcircuits), "pairs": _pairs(R, job[1], job[0].traces),
                    "content": _content(res.subcircuits), "index_ok": [s.index for s in res.subcircuits] == list(range(len(res.subcircuits)))}
        if op in ("run", "outlist"):
            c, _ = H.circuit(R, step)
            stage = "call"
            if op == "run":
                kw = {}
                if step.get("backend") is not None: kw[step.get("kw", "backend")] = H.backend(R, step["backend"])
                res = R["run"](c, **kw)
            else:
                res = R["out"](c, [0] * nout)
            exp = None
            if not step.get("lean"):
                try: exp = R["expand_macros"](R["fill"](R["expand_sub"](c)))      # only used to read the addresses of the traces
                except Exception: exp = None
            traces = [getattr(s, "_trace", None) for s in res.subcircuits]
            o = {"verdict": "accepted", "nsub": len(res.subcircuits),
                 "pairs": None if any(t is None for t in traces) else _pairs(R, exp, traces),
                 "index_ok": [s.index for s in res.subcircuits] == list(range(len(res.subcircuits)))}
            if op == "run": o["content"] = _content(res.subcircuits)
            return o
        exp = H.expanded(R, step)
        stage = "call"
        if op == "disc":
            traces = R["Disc"]().visit(exp)
            return {"verdict": "accepted", "nsub": len(traces), "pairs": _pairs(R, exp, traces), "index_ok": True}
        if op == "job":
            job = H.backend(R, step["backend"])(exp)
            H.jobs[step["id"]] = (job, exp)
            o = {"verdict": "accepted", "nsub": len(job.subcircuits), "pairs": _pairs(R, exp, job.traces),
                 "index_ok": [s.index for s in job.subcircuits] == list(range(len(job.subcircuits)))}
            if len(job.traces) != len(job.subcircuits): o["nsub"] = [len(job.traces), len(job.subcircuits)]
            o["content"] = _content(job.subcircuits)
            return o
        raise ValueError(op)
    except Hang:
        R["T"].saw_hang()
        return {"hang": True}
    except JE as e:
        return {"verdict": "rejected", "class": errclass(str(e)), "msg": str(e)[:160], "stage": stage}
    except Exception as e:
        return {"verdict": "crash", "exc": f"{type(e).__name__}: {str(e)[:160]}", "stage": stage}
    finally:
        signal.alarm(0)
        signal.signal(signal.SIGALRM, old)


def judge(o, ref):
    """-> [(oracle, counted, failure detail|None)]"""
    if o.get("skip"): return []
    if o.get("hang"): return [("C12_terminates", True, "library call still running at the alarm")]
    out = [("C12_terminates", True, None)]
    want = "accepted" if ref["accept"] else f"rejected {ref['viol']}"
    if o["verdict"] == "crash":
        return out + [("C12_verdict", True, f"neither a result nor a JaqalError ({o['stage']}): {o['exc']}; reference: {want}")]
    if o["verdict"] == "rejected":
        if ref["accept"]:
            return out + [("C12_verdict", True, f"rejected ({o['stage']}: {o['msg']!r}) but the program is well bracketed; reference pairs {ref['pairs']}")]
        out.append(("C12_verdict", True, None))
        ok = o["class"] in ref["viol"]
        return out + [("C12_rule_class", True, None if ok else f"rejected with {o['msg']!r} (class {o['class']}); rules violated by the program: {ref['viol']}")]
    if not ref["accept"]:
        return out + [("C12_verdict", True, f"accepted with {o['nsub']} subcircuit(s) but the program violates {ref['viol']} (first: {ref['first']})")]
    out.append(("C12_verdict", True, None))
    bad = None
    if o["nsub"] != len(ref["pairs"]): bad = f"{o['nsub']} subcircuit(s), reference {len(ref['pairs'])} pair(s) {ref['pairs']}"
    elif o["pairs"] is not None and o["pairs"] != ref["pairs"]: bad = f"traces (flat index of prepare_all, measure_all) {o['pairs']}, reference {ref['pairs']}"
    elif not o["index_ok"]: bad = "subcircuit.index is not 0,1,2,..."
    out.append(("C12_subcircuits", True, bad))
    if bad is None and "content" in o and any(c is not None for c in ref["content"]):
        diff = [(k, g, w) for k, (g, w) in enumerate(zip(o["content"], ref["content"])) if w is not None and g != w]
        out.append(("C12_discarded_gates", True, None if not diff else
                    "subcircuit %d measures %s, the gates between its last prepare_all and its measure_all give %s" % diff[0]))
    return out


def run_case(case):
    """-> (failures [(oracle, detail)], counts {oracle: n}, features {name: n})"""
    R = _load()
    H = Run(case)
    fails, counts, feat = [], {}, {}
    last = {}                     # backend slot -> how the previous program run on it ended
    refs = {}
    for i, step in enumerate(case["steps"]):
        if step["op"] == "exec":
            src = next(s for s in case["steps"] if s.get("id") == step["job"])
        else: src = step
        key = json.dumps([src["prog"], src.get("ov")], sort_keys=True)
        if key not in refs: refs[key] = reference(case["programs"][src["prog"]]["ast"], src.get("ov"))
        ref = refs[key]
        o = do_step(R, H, step, ref["visits"] * 2 + 8)
        for name, counted, detail in judge(o, ref):
            counts[name] = counts.get(name, 0) + 1
            if detail is not None:
                fails.append((name, f"step {i} {json.dumps({k: v for k, v in step.items()})}: {detail}"))
        if o.get("skip"): continue
        def f(k): feat[k] = feat.get(k, 0) + 1
        f("op_" + step["op"] + ("_shared_backend" if step["op"] == "run" and step.get("backend") is not None else ""))
        if step["op"] != "exec":
            f("pre_" + step["pre"])
            if step.get("ov"): f("with_override")
            if step.get("reuse"): f("circuit_object_reused")
        f("ref_accept" if ref["accept"] else "ref_reject_" + ref["first"])
        if ref["accept"]:
            f("subcircuits_%s" % min(len(ref["pairs"]), 4))
            if ref["open_tail"]: f("ref_accept_open_tail")
        for h in ref["how"]: f(h)
        slot = src.get("backend") if step["op"] in ("run", "job") else None
        if slot is not None:
            if slot in last: f("shared_backend_after_" + last[slot])
            last[slot] = ("open_tail" if ref["open_tail"] else "complete") if ref["accept"] else "reject_" + ref["first"]
    return fails, counts, feat


# ================================================================ histories

PRES = ["plain", "plain", "plain", "pm", "pl", "pml", "fill", "pmfill"]


def gen_step(rng, case, pi, ops, slots):
    prog = case["programs"][pi]["ast"]
    op = rng.choice(ops)
    st = {"op": op, "prog": pi, "pre": rng.choice(PRES), "reuse": rng.random() < 0.5}
    if prog["lets"] and st["pre"] in ("pl", "pml", "fill", "pmfill") and rng.random() < 0.6:
        ov = gen_override(rng, prog)
        if ov: st["ov"] = ov
    if op == "run":
        st["backend"] = rng.randrange(max(slots, 1))             # the caller may drop it (default backend)
        if rng.random() < 0.15: st["kw"] = "emulator_backend"
    elif op == "job":
        st["backend"] = rng.randrange(max(slots, 1))
    return st


def mk_case(progs, steps, kind):
    return {"kind": kind, "programs": [{"ast": p, "src": src_of(p)} for p in progs], "steps": steps}


def gen_single(rng, maxdepth):
    """stream (a): one program (macros / lets / subcircuit blocks), 1-3 entry points"""
    style = rng.choice(["macro"] * 6 + ["slip"] * 3 + ["tail", "head"])
    case = mk_case([gen_program(rng, maxdepth, style)], [], "single")
    ops = ["run", "run", "job", "outlist", "disc"]
    for _ in range(rng.choice([1, 2, 2, 3])):
        st = gen_step(rng, case, 0, ops, 0)
        if st["op"] == "run" and rng.random() < 0.5: st.pop("backend", None); st.pop("kw", None)
        if st["op"] == "job": st["id"] = len(case["steps"])
        case["steps"].append(st)
        if st["op"] == "job": case["steps"].append({"op": "exec", "job": st["id"]})
    return case


def gen_history(rng, maxdepth, maxlen):
    """stream (b): 2..maxlen runs sharing backend objects (and circuit objects)"""
    styles = ["tail", "tail", "head", "head", "slip", "macro", "macro", "plain"]
    progs = [gen_program(rng, max(2, maxdepth - 1), rng.choice(styles)) for _ in range(rng.choice([2, 2, 3]))]
    if rng.random() < 0.3: progs[rng.randrange(len(progs))] = copy.deepcopy(rng.choice(TAILS + HEADS + CORNER_PROGS))
    case = mk_case(progs, [], "history")
    slots = rng.choice([1, 1, 1, 2])
    pending = []
    for _ in range(rng.randint(2, maxlen)):
        st = gen_step(rng, case, rng.randrange(len(progs)), ["run", "run", "run", "job", "job", "outlist", "disc"], slots)
        if st["op"] == "run" and rng.random() < 0.12: st.pop("backend", None); st.pop("kw", None)
        if st["op"] == "job": st["id"] = len(case["steps"])
        case["steps"].append(st)
        if st["op"] == "job":
            if rng.random() < 0.5: case["steps"].append({"op": "exec", "job": st["id"]})
            else: pending.append(st["id"])
        if pending and rng.random() < 0.4:
            case["steps"].append({"op": "exec", "job": pending.pop(rng.randrange(len(pending)))})
    for j in pending: case["steps"].append({"op": "exec", "job": j})
    if rng.random() < 0.15 and case["steps"]:                    # a job executed twice
        ids = [s["id"] for s in case["steps"] if s["op"] == "job"]
        if ids: case["steps"].append({"op": "exec", "job": rng.choice(ids)})
    return case


def gen_burst(rng, maxdepth, lo=8, hi=14):
    """many short-lived circuits in a row on ONE backend object (nothing else is kept alive in between, so that
    object identities get reused): anything remembered per backend / per circuit identity shows up here"""
    pool = [copy.deepcopy(p) for p in rng.sample(TAILS + HEADS, 3)] + [gen_program(rng, 2, rng.choice(["tail", "head", "macro"]))]
    case = mk_case(pool, [], "burst")
    for _ in range(rng.randint(lo, hi)):
        st = {"op": "run", "prog": rng.randrange(len(pool)), "pre": rng.choice(["plain", "plain", "pm", "fill"]), "reuse": False, "backend": 0,
              "lean": rng.random() < 0.8}
        if rng.random() < 0.25:
            st.update(op="job", id=len(case["steps"]))
            case["steps"] += [st, {"op": "exec", "job": st["id"]}]
        else: case["steps"].append(st)
    return case


def corner_cases():
    out = []
    for p in CORNER_PROGS:
        steps = [{"op": "run", "prog": 0, "pre": "plain"}, {"op": "disc", "prog": 0, "pre": "pm"},
                 {"op": "outlist", "prog": 0, "pre": "plain"}, {"op": "job", "prog": 0, "pre": "pml", "backend": 0, "id": 3},
                 {"op": "exec", "job": 3}]
        out.append(mk_case([copy.deepcopy(p)], steps, "corner"))
        if p["lets"]:
            for v in (0, 1, 2):
                ov = {p["lets"][0][0]: v}
                out.append(mk_case([copy.deepcopy(p)], [{"op": "run", "prog": 0, "pre": "fill", "ov": ov},
                                                         {"op": "outlist", "prog": 0, "pre": "pl", "ov": ov}], "corner"))
    for a in TAILS:
        for b in HEADS:
            for mode in ("run", "job", "defer", "mixed"):
                if mode == "run":
                    steps = [{"op": "run", "prog": 0, "pre": "plain", "backend": 0}, {"op": "run", "prog": 1, "pre": "plain", "backend": 0}]
                elif mode == "job":
                    steps = [{"op": "job", "prog": 0, "pre": "plain", "backend": 0, "id": 0}, {"op": "exec", "job": 0},
                             {"op": "job", "prog": 1, "pre": "plain", "backend": 0, "id": 2}, {"op": "exec", "job": 2}]
                elif mode == "defer":
                    steps = [{"op": "job", "prog": 0, "pre": "plain", "backend": 0, "id": 0},
                             {"op": "job", "prog": 1, "pre": "plain", "backend": 0, "id": 1},
                             {"op": "exec", "job": 1}, {"op": "exec", "job": 0}]
                else:
                    steps = [{"op": "run", "prog": 0, "pre": "plain"}, {"op": "disc", "prog": 0, "pre": "plain"},
                             {"op": "outlist", "prog": 1, "pre": "plain"}, {"op": "run", "prog": 1, "pre": "plain", "backend": 0},
                             {"op": "run", "prog": 0, "pre": "plain", "backend": 0, "reuse": True},
                             {"op": "run", "prog": 1, "pre": "plain", "backend": 0, "reuse": True}]
                out.append(mk_case([copy.deepcopy(a), copy.deepcopy(b)], steps, "corner_history"))
    return out


# ================================================================ protocol

def _case_fails(case):
    fails, counts, feat = run_case(case)
    return fails


def run(seed: int, n: int, driver: str = DEFAULT_DRIVER, thorough: bool = False) -> dict:
    rng = random.Random(seed * 7919 + 12)
    maxdepth = 4 if thorough else 3
    cases = corner_cases()
    ncorner = len(cases)
    for i in range(n):
        cases.append(gen_burst(rng, maxdepth) if i % 8 == 7 else gen_single(rng, maxdepth) if i % 2 == 0
                     else gen_history(rng, maxdepth, 7 if thorough else 5))
    oracle = {k: {"cases": 0, "failures": []} for k in ORACLES}
    dist = {"histories": len(cases), "steps": 0}
    prev = None
    distinct = set()
    for case in cases:
        fails, counts, feat = run_case(case)
        for k, v in counts.items(): oracle[k]["cases"] += v
        for k, v in feat.items(): dist[k] = dist.get(k, 0) + v
        dist["steps"] += len(case["steps"])
        dist["kind_" + case["kind"]] = dist.get("kind_" + case["kind"], 0) + 1
        dist["history_len_%d" % min(len(case["steps"]), 8)] = dist.get("history_len_%d" % min(len(case["steps"]), 8), 0) + 1
        for p in case["programs"]:
            a = p["ast"]
            for name, hit in (("prog_with_macros", bool(a["macros"])), ("prog_with_lets", bool(a["lets"])),
                              ("prog_with_subcircuit_block", '"sub"' in json.dumps(a)),
                              ("prog_with_nested_macro_call", any('"call"' in json.dumps(m["body"]) for m in a["macros"])),
                              ("prog_with_parallel_macro", any(m["par"] for m in a["macros"])),
                              ("prog_with_param_shadowing_let", any(n in m["params"] for m in a["macros"] for n, v in a["lets"]))):
                if hit: dist[name] = dist.get(name, 0) + 1
            if len(ref_flatten(a)) >= 4: distinct.add(p["src"])
        if fails:
            dist["failing_kind_" + case["kind"]] = dist.get("failing_kind_" + case["kind"], 0) + 1
            rec = dict(case)
            if not _case_fails(copy.deepcopy(case)) and prev is not None:      # needs what ran before it in this process
                rec["before"] = [prev]
            for name, detail in fails:
                oracle[name]["failures"].append({"case": rec, "detail": detail})
        prev = case
    for d in oracle.values():
        d["total"] = len(d["failures"]); d["failures"] = d["failures"][:20]
    return {"corr": {}, "oracle": oracle, "distribution": dist,
            "samples": [cases[ncorner + i] for i in range(min(4, len(cases) - ncorner))] + cases[:1],
            "nontrivial": len(distinct)}


def replay(case: dict, driver: str = DEFAULT_DRIVER) -> dict:
    case = copy.deepcopy(case)
    for b in case.pop("before", []) or []:
        run_case(copy.deepcopy(b))
    fails, counts, feat = run_case(case)
    return {"oracle_ok": not fails, "detail": "; ".join(f"{k}: {d}" for k, d in fails) or "ok",
            "impl": {"programs": [p["src"] for p in case["programs"]]}}


def main():
    ap = argparse.ArgumentParser()
    ap.add_argument("--model", "--driver", dest="model", default=DEFAULT_DRIVER)
    ap.add_argument("--seed", type=int, default=1)
    ap.add_argument("--n", type=int, default=1500)
    ap.add_argument("--thorough", action="store_true")
    a = ap.parse_args()
    res = run(a.seed, a.n, a.model, a.thorough)
    bad = 0
    for name, d in res["oracle"].items():
        bad += d["total"]
        print(f"oracle {name:22} cases {d['cases']:7}  failures {d['total']}")
        for x in d["failures"][:3]:
            print("    " + x["detail"])
            for p in x["case"]["programs"]: print("      | " + p["src"].replace("\n", "\n      | "))
    print("distribution", json.dumps(res["distribution"], sort_keys=True))
    print("nontrivial", res["nontrivial"])
    sys.exit(0 if bad == 0 else 1)


if __name__ == "__main__":
    main()
