#!/venv/bin/python
"""C15 on EDGE VALUES and PATHS the other streams never produce (third round of seeded regressions).

`res_diff.py`, `props/c15.py` and `c15_history.py` feed every subcircuit a handful of readouts (loop counts 1..4, at most a few
dozen outputs per program), registers of at most 12 qubits, exact dyadic gate sets, and loops that always run at least once.  A
regression that depends on a VALUE -- a counter that wraps or loses integer precision once one outcome has been seen 256 / 2048 /
32768 / 65536 times, an outcome value beyond 65535, a `x or default` / `if not x` on outcome 0, index 0, a loop that runs 0 times,
an empty block, a register of 1 qubit, a probability vector that is only approximately normalised -- is invisible there.  This
script states the same property on those inputs, through the public entry points only:

    parse     parse_jaqal_output_list(circuit, outputs)   outputs chosen by the generator (ints, bit strings, mixtures, alternations)
    emu       run_jaqal_circuit(circuit) / <backend>(expanded circuit) -> job, job.execute() one to three times (counts accumulate)
    wide      Readout(v, i) attached to a Subcircuit of n = 23..200 measured qubits (values around 2^53, 2^63, 2^64, 2^n - 1)
    prob      ProbabilisticSubcircuit(trace, i, probabilities=p)  (subnormals, one-hot, in-band errors, tiny negatives)

streams (`stream` of a case; every stream is present for every seed):
    counts    one outcome of ONE subcircuit recorded c times with c in {t-1, t, t+1, all} for t in 128, 256, 2048, 32768, 65536
              (131072 in the thorough tier), reached by a literal loop count, a `let` count, nested loops (a*b), two
              subcircuits in one loop, a macro that contains the whole prepare_all..measure_all block, `subcircuit` blocks in a
              loop; the dominant outcome is 0, 2^n-1, 2^(n-1), 1 or random; outputs in runs or shuffled; via the parser or an
              S-expression handed to `build`; and the same through the emulator (deterministic subcircuit, > 65536 shots in one
              execution, or accumulated by executing one job three times)
    zero      (small programs, 1..5 qubits; a third use a `map` alias of the register, some have SEVERAL fundamental registers --
              S-expression and parse only: the text parser and the emulator accept one)  loops with count 0 (literal / let) around subcircuits, before / between / after live ones; empty subcircuits and empty
              `subcircuit {}` blocks; gate loops with count 0 inside a subcircuit; 1-qubit registers; output lists that are all 0,
              start with 0 / "00..0", or are empty; programs without any subcircuit; parse AND emulator on the same program
    bigreg    registers of 13..17 qubits (..20 thorough) through parse: outcomes 2^n-1, 2^(n-1), 65535, 65536, 65537, patterns
    wide      see above
    approx    the emulator on gate sets that are only approximately unitary (H from 1/sqrt 2, H typed with 7 / 8 digits, rotations
              with float angles 0, 0.0, -0.0, pi, 1e-300, 1e300, 2^53 ..., angles through `let` and through macro parameters)
    prob      see above

oracles (real code alone; "corr" is empty).  key(k, n) = the n characters "01"[(k >> i) & 1], i = 0..n-1 (qubit 0 leftmost).
    edge_freq_are_counts        every subcircuit sc of every result: relative_frequency_by_int[k] == number of r in sc.readouts with
                                r.as_int == k (raw counts: accept_readout adds 1, nothing divides) and the sum is len(sc.readouts);
                                parse results: the table is the histogram of the outputs that fall to sc in execution order and
                                sc has recorded exactly those readouts
    edge_readout_str_int        every readout r: 0 <= r.as_int < 2^n, r.as_str == key(r.as_int, n) (n characters, char i = bit i)
    edge_views_integer_order    every *_by_int view has 2^n entries, every *_by_str view has the keys [key(k, n) for k in range(2^n)]
                                in that order and the entries of the *_by_int view as values; probability_by_* are the simulated_*
                                views when the subcircuit has them, the relative_frequency_* views otherwise
    edge_outputs_str_int_same   parse: [r.as_int] == the outputs given, whatever form each was given in; the same outcomes given as
                                ints, as strings, mixed or alternating give the same readouts and tables, and are accepted alike
    edge_prob_normalised        every subcircuit with simulated probabilities whose constructor did not raise: all >= 0, |sum-1| <= 1e-12
    edge_emulator_qubit_order   a subcircuit whose gates are only X / Y (bit flips) and Z / S / P (diagonal): the simulated distribution
                                is 1.0 at k = sum of 2^i over the qubits i flipped an odd number of times (by_int index k, by_str key
                                key(k, n)) and every readout of it is k -- "qubit 0 is the least-significant bit and the leftmost
                                character" stated on the emulator's own results (no multi-qubit gate: no argument-order convention)
    edge_call_returns           every call on these inputs (valid program, the right number of in-range outputs) returns, or raises
                                JaqalError / the documented RuntimeError "Error in probabilities"; any other exception, a hang, or an
                                exception while the views are read fails WITH the input

A case is a JSON object {"stream", "kind": "parse" | "emu" | "wide" | "prob", ...}; `replay(case)` needs nothing else (outputs are
regenerated from the plan and the seeds stored in the case, so a case of 70000 readouts stays small).

`n` scales the work (see `_budget`).  Recommended n: 300 quick (about 10 s, 15 s on a loaded machine), 3000 thorough (about 1.5 min).

CLI:    PYTHONPATH=/verif /venv/bin/python /verif/harness/agents/c15_edge.py [--seed S] [--n N] [--thorough]
Module: harness.agents.c15_edge.run(seed, n, driver, thorough) -> dict ; replay(case, driver) -> dict
"""
import os, sys, json, math, random, signal, argparse, warnings

os.environ.setdefault("JAQALPAQ_RUN_EMULATOR", "1")
_ROOT = os.path.dirname(os.path.dirname(os.path.dirname(os.path.abspath(__file__))))
if _ROOT not in sys.path:
    sys.path.insert(0, _ROOT)

DEFAULT_DRIVER = "/verif/lean/.lake/build/bin/jaqal-model"

ORACLES = [
    "edge_freq_are_counts",
    "edge_readout_str_int",
    "edge_views_integer_order",
    "edge_outputs_str_int_same",
    "edge_prob_normalised",
    "edge_emulator_qubit_order",
    "edge_call_returns",
]

_LIB = {}


def lib():
    """Lazy imports (no work at import time)."""
    if _LIB:
        return _LIB
    warnings.filterwarnings("ignore")
    import numpy
    from harness.gates import GATES
    from harness import timeouts
    from jaqalpaq.parser import parse_jaqal_string
    from jaqalpaq.core.circuitbuilder import build
    from jaqalpaq.core.algorithm import expand_macros, fill_in_let, expand_subcircuits
    from jaqalpaq.core.algorithm.walkers import Trace
    from jaqalpaq.core.result import parse_jaqal_output_list, Readout, Subcircuit, ProbabilisticSubcircuit
    from jaqalpaq.emulator import run_jaqal_circuit, UnitarySerializedEmulator
    from jaqalpaq.error import JaqalError
    from jaqalpaq.core import GateDefinition, Parameter, ParamType

    np = numpy
    A = dict(GATES)
    s = 1 / np.sqrt(2)

    def _h(a):
        return lambda: np.array([[a, a], [a, -a]], dtype=complex)

    def u_r(theta):
        c, d = np.cos(theta / 2), np.sin(theta / 2)
        return np.array([[c, -1j * d], [-1j * d, c]], dtype=complex)

    def u_rz(theta):
        return np.array([[np.exp(-0.5j * theta), 0], [0, np.exp(0.5j * theta)]], dtype=complex)

    Q, F = ParamType.QUBIT, ParamType.FLOAT
    A["H"] = GateDefinition("H", [Parameter("q", Q)], ideal_unitary=_h(s))
    A["H7"] = GateDefinition("H7", [Parameter("q", Q)], ideal_unitary=_h(0.7071068))
    A["H8"] = GateDefinition("H8", [Parameter("q", Q)], ideal_unitary=_h(0.70710678))
    A["R"] = GateDefinition("R", [Parameter("q", Q), Parameter("t", F)], ideal_unitary=u_r)
    A["RZ"] = GateDefinition("RZ", [Parameter("q", Q), Parameter("t", F)], ideal_unitary=u_rz)
    APPROX = A
    _LIB.update(locals())
    return _LIB


class Hang(Exception):
    pass


def _alarm(*a):
    raise Hang()


# ------------------------------------------------------------------------------------------------ ground truth

_KEYS = {0: [""]}


def key(k, n):
    return "".join("1" if (k >> i) & 1 else "0" for i in range(n))


def keys(n):
    """[key(k, n) for k in range(2^n)], built by doubling: bit n-1 is the LAST character and the slowest to change."""
    if n not in _KEYS:
        prev = keys(n - 1)
        _KEYS[n] = [s + "0" for s in prev] + [s + "1" for s in prev]
        if n > 17:  # keep the cache small
            for m in [m for m in _KEYS if 12 < m < n]:
                del _KEYS[m]
    return _KEYS[n]


# ------------------------------------------------------------------------------------------------ programs from shapes
#
# shape = [item];  item = {"t": "sub", "style": "pm" | "sc" | "mac", "gates": [gate], "cnt": null | int, "arg": int}
#                       | {"t": "loop", "k": int, "via": "lit" | "let", "body": [item]}
# gate  = [name, qubit...(, classical)] | ["loop", k, [gate]]          (a loop of gates INSIDE a subcircuit)
# style "mac": the whole prepare_all .. measure_all block lives in a macro  blk<i> a  whose first gate is  X a ; called with q[arg]

FLIP = {"X", "Y"}
DIAG = {"Z", "S", "P"}
ONEQ = {"X", "Y", "Z", "S", "SX", "H", "H7", "H8"}
TWOQ = {"CX", "CZ", "SWAP", "ISWAP", "HH", "NS"}


def _num(v):
    """A classical argument as Jaqal text."""
    if isinstance(v, str):
        return v  # a let name or a macro parameter
    if isinstance(v, float):
        if v == 0 and math.copysign(1, v) < 0:
            return "-0.0"
        r = repr(v)  # the lexer wants digits after a dot: 1e-300 -> 1.0e-300
        if "e" in r and "." not in r:
            r = r.replace("e", ".0e")
        return r
    return str(v)


def _qref(case_regs, alias):
    """flat qubit index -> (register name, index in it): several fundamental registers are measured one after the other."""
    def f(i):
        if alias:
            return "al", i
        if case_regs:
            for nm, sz in zip(REG_NAMES, case_regs):
                if i < sz:
                    return nm, i
                i -= sz
            raise IndexError(i)
        return "q", i
    return f


REG_NAMES = ["q", "r", "s"]
_Q = _qref(None, False)


def _gate_text(g, reg=_Q):
    name = g[0]
    if name == "loop":
        inner = "; ".join(_gate_text(x, reg) for x in g[2])
        return f"loop {g[1]} {{ {inner} }}"
    out = [name]
    for a in g[1:]:
        if isinstance(a, list):  # ["c", value] classical
            out.append(_num(a[1]))
        elif isinstance(a, str):
            out.append(a)  # macro parameter standing for a qubit
        else:
            out.append("%s[%d]" % reg(a))
    return " ".join(out)


def _gate_sexpr(g, reg=_Q):
    name = g[0]
    if name == "loop":
        return ("loop", g[1], ("sequential_block",) + tuple(_gate_sexpr(x, reg) for x in g[2]))
    out = ["gate", name]
    for a in g[1:]:
        if isinstance(a, list):
            out.append(a[1])
        elif isinstance(a, str):
            out.append(a)
        else:
            out.append(("array_item",) + reg(a))
    return tuple(out)


def _walk(shape):
    for it in shape:
        yield it
        if it["t"] == "loop":
            yield from _walk(it["body"])


def number(shape):
    """Give every subcircuit its flat-order index and every let-loop its constant name (in place)."""
    si = li = 0
    for it in _walk(shape):
        if it["t"] == "sub":
            it["i"] = si
            si += 1
        elif it.get("via") == "let":
            it["name"] = f"c{li}"
            li += 1
    return si


def render_text(n, shape, lets=(), alias=False):
    """One fundamental register q[n] (the parser accepts no more); `alias`: `map al q`, used by the subcircuits marked "alias"."""
    head = [f"let {nm} {_num(v)}" for nm, v in lets]
    head += [f"let {it['name']} {it['k']}" for it in _walk(shape) if it["t"] == "loop" and it.get("via") == "let"]
    head.append(f"register q[{n}]")
    if alias:
        head.append("map al q")
    AL = _qref(None, True)
    for it in _walk(shape):
        if it["t"] == "sub" and it["style"] == "mac":
            body = ["prepare_all", "X a"] + [_gate_text(g) for g in it["gates"]] + ["measure_all"]
            head.append(f"macro blk{it['i']} a {{ " + "; ".join(body) + " }")
        if it["t"] == "sub":
            for g in it.get("macros", []):  # small gate macros used by the approx stream: [name, params, [gates]]
                head.append(f"macro {g[0]} {' '.join(g[1])} {{ " + "; ".join(_gate_text(x) for x in g[2]) + " }")
    lines = []

    def emit(items, ind):
        for it in items:
            if it["t"] == "loop":
                lines.append(f"{ind}loop {it['name'] if it.get('via') == 'let' else it['k']} {{")
                emit(it["body"], ind + "  ")
                lines.append(ind + "}")
            elif it["style"] == "mac":
                lines.append(f"{ind}blk{it['i']} q[{it['arg']}]")
            elif it["style"] == "sc":
                cnt = "" if it.get("cnt") is None else f" {it['cnt']}"
                lines.append(f"{ind}subcircuit{cnt} {{")
                lines.extend(f"{ind}  {_gate_text(g, AL if alias and it.get('alias') else _Q)}" for g in it["gates"])
                lines.append(ind + "}")
            else:
                lines.append(ind + "prepare_all")
                lines.extend(f"{ind}{_gate_text(g, AL if alias and it.get('alias') else _Q)}" for g in it["gates"])
                lines.append(ind + "measure_all")

    emit(shape, "")
    return "\n".join(head + lines) + "\n"


def render_sexpr(n, shape, regs=None, alias=False):
    """regs = sizes of SEVERAL fundamental registers q, r, s (sum n): only `build` accepts that, and only parse results exist for it."""
    top = [("register", nm, sz) for nm, sz in zip(REG_NAMES, regs)] if regs else [("register", "q", n)]
    if alias:
        top.append(("map", "al", "q"))
    Q = _qref(regs, False)
    AL = _qref(None, True)

    def ref(it):
        return AL if alias and it.get("alias") else Q

    top += [("let", it["name"], it["k"]) for it in _walk(shape) if it["t"] == "loop" and it.get("via") == "let"]
    for it in _walk(shape):
        if it["t"] == "sub" and it["style"] == "mac":
            body = [("gate", "prepare_all"), ("gate", "X", "a")] + [_gate_sexpr(g, Q) for g in it["gates"]] + [("gate", "measure_all")]
            top.append(("macro", f"blk{it['i']}", "a", ("sequential_block",) + tuple(body)))

    def emit(items):
        out = []
        for it in items:
            if it["t"] == "loop":
                out.append(("loop", it["name"] if it.get("via") == "let" else it["k"], ("sequential_block",) + tuple(emit(it["body"]))))
            elif it["style"] == "mac":
                out.append(("gate", f"blk{it['i']}", ("array_item",) + Q(it["arg"])))
            elif it["style"] == "sc":
                out.append(("subcircuit_block", it.get("cnt")) + tuple(_gate_sexpr(g, ref(it)) for g in it["gates"]))
            else:
                out += [("gate", "prepare_all")] + [_gate_sexpr(g, ref(it)) for g in it["gates"]] + [("gate", "measure_all")]
        return out

    return ("circuit",) + tuple(top) + tuple(emit(shape))


def order_of(shape):
    """Flat index of the subcircuit of each readout, in execution order (one readout per visit of a subcircuit)."""
    out = []
    for it in shape:
        if it["t"] == "sub":
            out.append(it["i"])
        else:
            body = order_of(it["body"])
            out += body * max(0, it["k"])
    return out


def flips_of(it, n):
    """Outcome of a subcircuit made of bit flips and diagonal gates only, else None."""
    par = [0] * n

    def go(gs, mult):
        for g in gs:
            if g[0] == "loop":
                if not go(g[2], mult * max(0, g[1])):
                    return False
            elif g[0] in FLIP and isinstance(g[1], int):
                par[g[1]] += mult
            elif g[0] in DIAG and isinstance(g[1], int):
                pass
            else:
                return False
        return True

    if not go(it["gates"], 1):
        return None
    if it["style"] == "mac":
        par[it["arg"]] += 1
    return sum(1 << i for i in range(n) if par[i] % 2)


# ------------------------------------------------------------------------------------------------ generators


def _rand_gates(rng, n, pool, maxg, inner_loops=True):
    gs = []
    for _ in range(rng.randint(0, maxg)):
        kind = rng.choice(pool)
        if kind == "flip":
            gs.append([rng.choice(["X", "X", "Y"]), rng.choice([0, 0, n - 1, rng.randrange(n)])])
        elif kind == "diag":
            nm = rng.choice(["Z", "S", "P"])
            q = rng.choice([0, rng.randrange(n)])
            gs.append([nm, q] + ([["c", rng.choice([0, 0, 1, 2, 3, 4, 7])]] if nm == "P" else []))
        elif kind == "mix1":
            gs.append([rng.choice(["SX", "SX", "X", "S"]), rng.choice([0, rng.randrange(n)])])
        elif kind == "mix2" and n >= 2:
            a, b = rng.sample(range(n), 2)
            gs.append([rng.choice(sorted(TWOQ)), a, b])
        elif kind == "loop" and inner_loops:
            k = rng.choice([0, 0, 1, 2, 3])
            gs.append(["loop", k, [[rng.choice(["X", "Y", "Z"]), rng.choice([0, rng.randrange(n)])] for _ in range(rng.randint(1, 2))]])
    return gs


def _sub(rng, n, pool, maxg=3, styles=("pm", "pm", "sc", "mac")):
    style = rng.choice(styles)
    it = {"t": "sub", "style": style, "gates": _rand_gates(rng, n, pool, maxg)}
    if style == "sc":
        it["cnt"] = rng.choice([None, None, 1, 3, 0]) if rng.random() < 0.5 else None
        if it["cnt"] == 0:
            it["cnt"] = None  # `subcircuit 0` is not a count the library documents: leave it out
    if style == "mac":
        it["arg"] = rng.choice([0, 0, n - 1, rng.randrange(n)])
    return it


def _dominant(rng, n):
    return rng.choice([0, 0, (1 << n) - 1, 1 << (n - 1), 1, rng.randrange(1 << n)])


def _plan_for(rng, n, total, c=None):
    """[[value, count]] for one subcircuit with `total` readouts; the first value is recorded exactly c times when c is given."""
    if total == 0:
        return []
    d = _dominant(rng, n)
    c = total if c is None else max(0, min(c, total))
    plan = [[d, c]] if c else []
    rest = total - c
    others = [v for v in ({0, 1, (1 << n) - 1, 1 << (n - 1), rng.randrange(1 << n), rng.randrange(1 << n)} - {d})]
    rng.shuffle(others)
    if rest and not others:
        plan = [[d, total]]
        rest = 0
    while rest:
        v = others.pop() if len(others) > 1 else others[0]
        take = rest if len(others) <= 1 or rng.random() < 0.4 else rng.randint(1, rest)
        plan.append([v, take])
        rest -= take
        if len(others) == 1 and rest:
            plan.append([others[0], rest])
            rest = 0
    merged = {}
    for v, k in plan:
        merged[v] = merged.get(v, 0) + k
    first = plan[0][0]
    return [[first, merged.pop(first)]] + [[v, k] for v, k in merged.items()]


FORMS = ["int", "str", "mixed", "alt_int_first", "alt_str_first"]


def gen_counts_parse(rng, thr, thorough):
    n = rng.choice([1, 2, 2, 3, 4, 5]) if thr >= 32768 else rng.choice([1, 2, 3, 4, 6, 8])
    T = thr + rng.choice([1, 1, 2, 5, max(1, thr // 16)])
    reach = rng.choice(["lit", "let", "nested", "two", "mac", "sc"])
    pool = ["flip", "diag", "mix1", "loop"]
    inner = [_sub(rng, n, pool, 2, styles=("pm",))]
    if reach == "two":
        inner.append(_sub(rng, n, pool, 2))
    elif reach == "mac":
        inner = [_sub(rng, n, pool, 2, styles=("mac",))]
    elif reach == "sc":
        inner = [_sub(rng, n, pool, 2, styles=("sc",))]
    if reach == "nested":
        a = rng.choice([2, 3, 16, 255, 256, 257])
        b = -(-T // a)
        if rng.random() < 0.5:
            a, b = b, a
        T = a * b
        loop = {"t": "loop", "k": a, "via": rng.choice(["lit", "let"]), "body": [{"t": "loop", "k": b, "via": rng.choice(["lit", "let"]), "body": inner}]}
    else:
        loop = {"t": "loop", "k": T, "via": "let" if reach == "let" else rng.choice(["lit", "lit", "let"]), "body": inner}
    shape = []
    if rng.random() < 0.3:
        shape.append({"t": "loop", "k": 0, "via": rng.choice(["lit", "let"]), "body": [_sub(rng, n, pool, 1)]})
    if rng.random() < 0.4:
        shape.append(_sub(rng, n, pool, 2))
    shape.append(loop)
    if rng.random() < 0.5:
        shape.append(_sub(rng, n, pool, 2))
    nsub = number(shape)
    tot = [0] * nsub
    for s in order_of(shape):
        tot[s] += 1
    target = inner[0]["i"]
    plan = []
    for si in range(nsub):
        if si == target:
            plan.append(_plan_for(rng, n, tot[si], rng.choice([thr - 1, thr, thr, thr + 1, tot[si]])))
        elif tot[si] >= thr:
            plan.append(_plan_for(rng, n, tot[si], rng.choice([thr, tot[si] // 2, thr + 1])))
        else:
            plan.append(_plan_for(rng, n, tot[si]))
    big = T >= 20000
    forms = [rng.choice(FORMS)] if big else rng.sample(FORMS, 3)
    case = {
        "stream": "counts", "kind": "parse", "n": n, "via": rng.choice(["text", "text", "sexpr"]), "shape": shape,
        "plan": plan, "omode": rng.choice(["runs", "runs_rev", "shuffle"]), "oseed": rng.randrange(2 ** 31), "forms": forms,
        "fseed": rng.randrange(2 ** 31), "thr": thr, "reach": reach,
    }
    case["text"] = render_text(n, shape)
    return case


def gen_counts_emu(rng, thr, thorough, execs):
    n = rng.choice([1, 2, 3])
    per = -(-(thr + rng.choice([1, 2, 5, 100])) // execs)
    det = _sub(rng, n, ["flip", "flip", "diag"], 3, styles=("pm", "pm", "mac", "sc"))
    body = [det]
    if rng.random() < 0.3:
        body.append(_sub(rng, n, ["mix1", "mix2", "flip"], 3, styles=("pm",)))
    shape = []
    if rng.random() < 0.4:
        shape.append(_sub(rng, n, ["flip", "mix1"], 2))
    if rng.random() < 0.5:
        a = rng.choice([2, 16, 256])
        b = -(-per // a)
        shape.append({"t": "loop", "k": a, "via": "lit", "body": [{"t": "loop", "k": b, "via": rng.choice(["lit", "let"]), "body": body}]})
    else:
        shape.append({"t": "loop", "k": per, "via": rng.choice(["lit", "let"]), "body": body})
    if rng.random() < 0.4:
        shape.append(_sub(rng, n, ["flip", "mix1"], 2))
    number(shape)
    case = {"stream": "counts", "kind": "emu", "n": n, "via": "text", "shape": shape, "entry": "job" if execs > 1 else rng.choice(["run", "job"]), "execs": execs, "gateset": "dyadic", "npseed": rng.randrange(2 ** 31), "thr": thr}
    case["text"] = render_text(n, shape)
    return case


def gen_zero(rng, thorough):
    n = rng.choice([1, 1, 2, 2, 3, 4, 5])
    pool = ["flip", "diag", "mix1", "mix2", "loop", "loop"]
    shape = []
    want = rng.randint(1, 4) if rng.random() < 0.93 else 0

    def maybe_empty_sub():
        it = _sub(rng, n, pool, 3)
        if rng.random() < 0.35:
            it["gates"] = []
        return it

    while len(shape) < want:
        r = rng.random()
        if r < 0.35:
            shape.append({"t": "loop", "k": 0, "via": rng.choice(["lit", "let"]), "body": [maybe_empty_sub() for _ in range(rng.randint(1, 2))]})
        elif r < 0.5:
            k = rng.choice([0, 1, 2])
            shape.append({"t": "loop", "k": rng.choice([1, 2, 3]), "via": rng.choice(["lit", "let"]), "body": [{"t": "loop", "k": k, "via": rng.choice(["lit", "let"]), "body": [maybe_empty_sub()]}]})
        elif r < 0.65:
            shape.append({"t": "loop", "k": rng.choice([1, 1, 2, 3]), "via": rng.choice(["lit", "let"]), "body": [maybe_empty_sub() for _ in range(rng.randint(1, 2))]})
        else:
            shape.append(maybe_empty_sub())
    nsub = number(shape)
    tot = [0] * nsub
    for s in order_of(shape):
        tot[s] += 1
    mode = rng.choice(["all0", "first0", "last_only", "free", "ones"])
    plan = []
    for si in range(nsub):
        if mode == "all0" or (mode == "first0" and si == 0) or (mode == "last_only" and si < nsub - 1):
            plan.append([[0, tot[si]]] if tot[si] else [])
        elif mode == "ones":
            plan.append([[(1 << n) - 1, tot[si]]] if tot[si] else [])
        else:
            plan.append(_plan_for(rng, n, tot[si]))
    base = {"n": n, "via": rng.choice(["text", "text", "sexpr"]), "shape": shape}
    if rng.random() < 0.3:
        base["alias"] = True
        for it in _walk(shape):
            if it["t"] == "sub" and it["style"] != "mac" and rng.random() < 0.7:
                it["alias"] = True
    elif n >= 2 and rng.random() < 0.25:  # several fundamental registers: S-expression and parse only
        a = rng.randint(1, n - 1)
        base["regs"] = [a, n - a] if n - a < 2 or rng.random() < 0.6 else [a, 1, n - a - 1]
        base["via"] = "sexpr"
    text = render_text(n, shape, alias=base.get("alias", False))
    cases = [dict(base, stream="zero", kind="parse", plan=plan, omode=rng.choice(["runs", "shuffle"]), oseed=rng.randrange(2 ** 31), forms=list(FORMS), fseed=rng.randrange(2 ** 31), text=text, zmode=mode)]
    if rng.random() < 0.6 and "regs" not in base:
        cases.append(dict(base, stream="zero", kind="emu", entry=rng.choice(["run", "job"]), execs=rng.choice([1, 1, 2]), gateset="dyadic", npseed=rng.randrange(2 ** 31), text=text))
    return cases


def gen_bigreg(rng, n):
    shape = [_sub(rng, n, ["flip", "diag"], 2, styles=("pm", "sc", "mac"))]
    k = rng.choice([1, 2, 3, 5])
    shape.append({"t": "loop", "k": k, "via": rng.choice(["lit", "let"]), "body": [_sub(rng, n, ["flip"], 1, styles=("pm",))]})
    nsub = number(shape)
    full = (1 << n) - 1
    special = [0, 1, full, 1 << (n - 1), full - 1, (1 << (n - 1)) + 1, 0x5555555555 & full, 0xAAAAAAAAAA & full, 255, 256, 4095, 4096]
    if n >= 16:
        special += [65535, 32768, 32767]
    if n >= 17:
        special += [65536, 65537, 65536, 131071 & full, 70000]
    tot = [0] * nsub
    for s in order_of(shape):
        tot[s] += 1
    plan = []
    for si in range(nsub):
        vals = [rng.choice(special) if rng.random() < 0.8 else rng.randrange(1 << n) for _ in range(tot[si])]
        merged = {}
        for v in vals:
            merged[v] = merged.get(v, 0) + 1
        plan.append([[v, c] for v, c in merged.items()])
    case = {"stream": "bigreg", "kind": "parse", "n": n, "via": rng.choice(["text", "sexpr"]), "shape": shape, "plan": plan, "omode": "shuffle", "oseed": rng.randrange(2 ** 31), "forms": rng.sample(FORMS, 2 if n >= 18 else 3), "fseed": rng.randrange(2 ** 31)}
    case["text"] = render_text(n, shape)
    return case


def gen_wide(rng):
    n = rng.choice([23, 31, 32, 33, 52, 53, 54, 55, 62, 63, 63, 64, 64, 65, 100, 128, 200, rng.randint(23, 70)])
    full = (1 << n) - 1
    cand = [0, 1, full, 1 << (n - 1), full - 1, (1 << (n - 1)) - 1, (1 << (n - 1)) + 1, rng.randrange(1 << n), rng.randrange(1 << n)]
    for e in (16, 31, 32, 52, 53, 62, 63, 64):
        if e < n:
            cand += [(1 << e) - 1, 1 << e, (1 << e) + 1]
    return {"stream": "wide", "kind": "wide", "n": n, "v": str(rng.choice(cand)), "index": rng.choice([0, 0, 1, 65536, 2 ** 40])}


THETAS = [0, 0.0, -0.0, 1, 1.0, -1, math.pi, -math.pi, math.pi / 2, 2 * math.pi, 1e-300, 5e-324, 1e-17, 1e300, 2 ** 53, float(2 ** 53), 2 ** 53 + 1, 0.1, 1 / 3, 1e6, 12345.678, 6.283185307179586, 3.141592653589793, 3.1415927]


def gen_approx(rng, thorough):
    n = rng.choice([1, 1, 2, 2, 3, 4])
    lets = []
    nsub = rng.randint(1, 3)
    shape = []
    for _ in range(nsub):
        gs, macros = [], []
        for _ in range(rng.randint(1, 6)):
            r = rng.random()
            q = rng.choice([0, 0, rng.randrange(n)])
            if r < 0.35:
                gs.append([rng.choice(["H", "H", "H7", "H8"]), q])
            elif r < 0.7:
                th = rng.choice(THETAS)
                how = rng.choice(["lit", "lit", "let", "macro"])
                nm = rng.choice(["R", "R", "RZ"])
                if how == "let":
                    name = f"t{len(lets)}"
                    lets.append([name, th])
                    gs.append([nm, q, ["c", name]])
                elif how == "macro":
                    mname = f"g{len(lets)}_{len(macros)}_{len(shape)}"
                    macros.append([mname, ["a", "x"], [[nm, "a", ["c", "x"]]]])
                    gs.append([mname, q, ["c", th]])
                else:
                    gs.append([nm, q, ["c", th]])
            elif r < 0.85 and n >= 2:
                a, b = rng.sample(range(n), 2)
                gs.append([rng.choice(["CX", "HH", "CZ"]), a, b])
            else:
                gs.append([rng.choice(["X", "SX", "S"]), q])
        it = {"t": "sub", "style": "pm", "gates": gs, "macros": macros}
        if rng.random() < 0.3:
            shape.append({"t": "loop", "k": rng.choice([0, 1, 2, 3]), "via": "lit", "body": [it]})
        else:
            shape.append(it)
    number(shape)
    case = {"stream": "approx", "kind": "emu", "n": n, "via": "text", "shape": shape, "lets": lets, "entry": rng.choice(["run", "job"]), "execs": 1, "gateset": "approx", "npseed": rng.randrange(2 ** 31)}
    case["text"] = render_text(n, shape, lets)
    return case


def gen_prob(rng):
    n = rng.choice([1, 1, 2, 3, 4, 8, 12])
    d = 1 << n
    kind = rng.choice(["onehot", "onehot_last", "uniform", "subnormal", "inband", "inband", "tiny_neg", "tiny_over", "near_fail", "random", "random_scaled", "ulp"])
    if kind == "onehot":
        p = [0.0] * d
        p[rng.choice([0, d - 1, rng.randrange(d)])] = 1.0
    elif kind == "onehot_last":
        p = [0.0] * d
        p[d - 1] = rng.choice([1.0, 1.0 - 2 ** -53, 1.0 + 2 ** -52])
    elif kind == "uniform":
        p = [1.0 / d] * d
    elif kind == "subnormal":
        p = [rng.choice([5e-324, 0.0, 1e-310, 2.2250738585072014e-308]) for _ in range(d)]
        p[rng.randrange(d)] = 1.0
    else:
        raw = [rng.random() ** rng.choice([1, 4, 20]) for _ in range(d)]
        s = math.fsum(raw)
        p = [x / s for x in raw]
        if kind in ("inband", "random_scaled"):
            f = 1 + rng.choice([-1, 1]) * rng.choice([1e-13, 3e-13, 1e-12, 1e-10, 1e-9, 1e-8, 1e-7, 1e-6, 1.9e-6])
            p = [x * f for x in p]
        elif kind == "near_fail":
            f = 1 + rng.choice([-1, 1]) * rng.choice([1.99e-6, 2e-6, 2.01e-6, 1e-5])
            p = [x * f for x in p]
        elif kind == "tiny_neg":  # one entry just below zero, the others still sum to one
            i = rng.randrange(d)
            rest = math.fsum(x for j, x in enumerate(p) if j != i)
            p = [x / rest for x in p] if d > 1 and rest > 0 else p
            p[i] = -rng.choice([1e-17, 1e-15, 1e-13, 1e-9, 1e-7, 5e-324, 0.0]) if d > 1 else p[i]
        elif kind == "tiny_over":
            i = rng.randrange(d)
            p = [0.0] * d
            p[i] = 1.0 + rng.choice([2 ** -52, 1e-15, 1e-13, 1e-9, 1e-7])
        elif kind == "ulp":
            i = rng.randrange(d)
            p[i] = math.nextafter(p[i], rng.choice([0.0, 2.0]))
    return {"stream": "prob", "kind": "prob", "n": n, "pkind": kind, "p": [float(x).hex() for x in p], "index": rng.choice([0, 0, 1, 7])}


# ------------------------------------------------------------------------------------------------ outputs of a parse case


def outputs_of(case):
    """-> (ints in execution order, order) ; deterministic in the case."""
    order = order_of(case["shape"])
    nsub = len(case["plan"])
    rng = random.Random(case["oseed"])
    per = []
    for si in range(nsub):
        seq = []
        plan = case["plan"][si]
        if case["omode"] == "runs_rev":
            plan = plan[::-1]
        for v, c in plan:
            seq += [v] * c
        if case["omode"] == "shuffle":
            rng.shuffle(seq)
        per.append(iter(seq))
    return [next(per[s]) for s in order], order


def in_form(ints, n, form, fseed):
    K = keys(n) if n <= 17 else None
    ks = (lambda v: K[v]) if K is not None else (lambda v: key(v, n))
    if form == "int":
        return list(ints)
    if form == "str":
        return [ks(v) for v in ints]
    if form == "alt_int_first":
        return [v if j % 2 == 0 else ks(v) for j, v in enumerate(ints)]
    if form == "alt_str_first":
        return [ks(v) if j % 2 == 0 else v for j, v in enumerate(ints)]
    rng = random.Random(fseed)
    return [v if rng.random() < 0.5 else ks(v) for v in ints]


# ------------------------------------------------------------------------------------------------ the property on one result


def check_result(R, n, tag, expect=None, det=None, visits=None, views_on=None):
    """All C15 relations on one result.  -> {oracle: None | detail of the first violation}
    expect = (ints, order) for parse results; det = {flat index: outcome} for deterministic emulator subcircuits;
    visits = {flat index: number of readouts that subcircuit must have recorded};
    views_on = the flat indices whose *_by_str views are read (None: all; reading one costs ~8 us per outcome in the library)."""
    L = lib()
    np = L["numpy"]
    dim = 1 << n
    K = keys(n)
    out = {o: None for o in ORACLES[:6]}
    int_types = (int, np.integer)

    def fail(o, msg):
        if out[o] is None:
            out[o] = f"{tag}: {msg}"

    def value_of(r, where):
        v = r.as_int
        if v is True or v is False or not isinstance(v, int_types) or not (0 <= v < dim):
            fail("edge_readout_str_int", f"{where}: as_int = {v!r} is not an integer in 0..2^{n}-1")
            return None
        v = int(v)
        s = r.as_str
        if s != K[v]:
            fail("edge_readout_str_int", f"{where}: as_int = {v} has as_str = {s!r}, expected {K[v]!r} ({n} characters, qubit 0 leftmost)")
        return v

    subs = list(R.subcircuits)
    top = list(R.readouts)
    top_vals = [value_of(r, f"result readout #{i}") for i, r in enumerate(top)]
    vals = dict(zip(map(id, top), top_vals))
    owner = {}  # id(readout) -> flat index of the subcircuit that recorded it
    sub_vals = []

    for si, sc in enumerate(subs):
        w = f"subcircuit {si}"
        if len(sc.measured_qubits) != n:
            fail("edge_views_integer_order", f"{w}: {len(sc.measured_qubits)} measured qubits, the register has {n}")
        rf = sc.relative_frequency_by_int
        sim = sc.simulated_probability_by_int if hasattr(sc, "simulated_probability_by_int") else None
        want_int, want_name = (sim, "simulated_probability") if sim is not None else (rf, "relative_frequency")
        full = views_on is None or si in views_on
        views = [("relative_frequency", rf, sc.relative_frequency_by_str if full else None)]
        if sim is not None:
            views.append(("simulated_probability", sim, sc.simulated_probability_by_str if full else None))
        # (the deprecated alias's string view is not read a second time for 2^16 outcomes and more)
        views.append(("probability(deprecated alias of %s)" % want_name, sc.probability_by_int, sc.probability_by_str if full and n < 16 else None))
        for name, by_int, by_str in views:
            if len(by_int) != dim:
                fail("edge_views_integer_order", f"{w}: {name}_by_int has {len(by_int)} entries, expected 2^{n} = {dim}")
                continue
            if by_str is None:
                continue
            ks = list(by_str.keys())
            if ks != K:
                bad = next((j for j, (a, b) in enumerate(zip(ks, K)) if a != b), min(len(ks), len(K)))
                fail("edge_views_integer_order", f"{w}: {name}_by_str has {len(ks)} keys (expected {dim}); first wrong key at outcome {bad}: {ks[bad] if bad < len(ks) else None!r} != {K[bad] if bad < len(K) else None!r}")
            elif not np.array_equal(np.asarray(list(by_str.values())), np.asarray(by_int)):
                fail("edge_views_integer_order", f"{w}: the values of {name}_by_str are not the entries of {name}_by_int")
        if len(want_int) == dim and not np.array_equal(np.asarray(sc.probability_by_int), np.asarray(want_int)):
            fail("edge_views_integer_order", f"{w}: probability_by_int differs from {want_name}_by_int")
        # relative frequencies = raw counts of the recorded readouts
        recorded = list(sc.readouts)
        mine = []
        for j, r in enumerate(recorded):
            i = id(r)
            owner[i] = si
            v = vals[i] if i in vals else value_of(r, f"{w} readout #{j}")
            mine.append(v)
            if r.subcircuit is not sc:
                fail("edge_freq_are_counts", f"{w}: its recorded readout #{j} names another subcircuit")
        sub_vals.append(mine)
        if visits is not None and si in visits and len(recorded) != visits[si]:
            fail("edge_freq_are_counts", f"{w}: {len(recorded)} readouts recorded, the program visits it {visits[si]} times")
        if None not in mine and len(rf) == dim:
            counts = np.bincount(np.asarray(mine, dtype=np.int64), minlength=dim) if mine else np.zeros(dim, dtype=np.int64)
            rfa = np.asarray(rf)
            if not np.array_equal(rfa, counts):
                k = int(np.nonzero(rfa != counts)[0][0])
                fail("edge_freq_are_counts", f"{w}: relative_frequency_by_int[{k}] = {rf[k]} but {int(counts[k])} of its {len(recorded)} recorded readouts have as_int == {k} (table dtype {getattr(rf, 'dtype', None)})")
            else:
                tot = math.fsum(float(x) for x in rfa[np.nonzero(rfa)[0]])
                if tot != len(recorded):
                    fail("edge_freq_are_counts", f"{w}: frequencies sum to {tot}, {len(recorded)} readouts recorded")
        if sim is not None and len(sim) == dim:
            p = [float(x) for x in sim]
            if not (min(p) >= 0) or not abs(math.fsum(p) - 1.0) <= 1e-12:
                fail("edge_prob_normalised", f"{w}: simulated probabilities min {min(p)!r} sum {math.fsum(p)!r}")
            if det is not None and det.get(si) is not None:
                k = det[si]
                sbs = sc.simulated_probability_by_str
                if not (float(sim[k]) == 1.0 and float(sbs.get(K[k], -1)) == 1.0):
                    got = max(range(dim), key=lambda j: p[j])
                    fail("edge_emulator_qubit_order", f"{w}: its gates flip exactly the qubits of {K[k]!r} (outcome {k}) but simulated_probability_by_int[{k}] = {sim[k]!r}, by_str[{K[k]!r}] = {sbs.get(K[k])!r}; the mass is at outcome {got} = {K[got]!r}")
                else:
                    badr = next((j for j, v in enumerate(mine) if v != k), None)
                    if badr is not None:
                        fail("edge_emulator_qubit_order", f"{w}: deterministic outcome {k} = {K[k]!r} but its readout #{badr} is {recorded[badr].as_int!r} / {recorded[badr].as_str!r}")

    for i, r in enumerate(top):
        si = owner.get(id(r))
        if si is None:
            fail("edge_freq_are_counts", f"result readout #{i} (as_int {r.as_int}) is not among the recorded readouts of any subcircuit of the result")
            break
        if r.subcircuit is not subs[si]:
            fail("edge_freq_are_counts", f"result readout #{i} names subcircuit {getattr(r.subcircuit, 'index', None)} but was recorded by subcircuit {si}")
            break

    if expect is not None:
        ints, order = expect
        o = "edge_outputs_str_int_same"
        if top_vals != ints:
            j = next((j for j, (a, b) in enumerate(zip(top_vals, ints)) if a != b), min(len(top_vals), len(ints)))
            fail(o, f"{len(top_vals)} readouts for {len(ints)} outputs; first difference at output #{j}: as_int {top_vals[j] if j < len(top_vals) else None!r}, given {ints[j] if j < len(ints) else None!r}")
        per = [[] for _ in subs]
        for v, s in zip(ints, order):
            if s < len(per):
                per[s].append(v)
        for si, sc in enumerate(subs):
            mine = per[si]
            hist = np.bincount(np.asarray(mine, dtype=np.int64), minlength=dim) if mine else np.zeros(dim, dtype=np.int64)
            rfa = np.asarray(sc.relative_frequency_by_int)
            if len(rfa) == dim and not np.array_equal(rfa, hist):
                k = int(np.nonzero(rfa != hist)[0][0])
                fail("edge_freq_are_counts", f"subcircuit {si}: relative_frequency_by_int[{k}] = {rfa[k]} but outcome {k} was given {int(hist[k])} times among the {len(mine)} outputs of this subcircuit")
            if sub_vals[si] != mine:
                fail("edge_freq_are_counts", f"subcircuit {si}: its {len(sub_vals[si])} recorded readouts are not the {len(mine)} outputs that fall to it, in execution order")
    return out


# ------------------------------------------------------------------------------------------------ running one case


def _summary(R, n):
    """What must be identical whatever form the outputs were given in."""
    return ([int(r.as_int) for r in R.readouts], [r.as_str for r in R.readouts], [[float(x) for x in sc.relative_frequency_by_int] for sc in R.subcircuits] if n <= 12 else None)


def run_case(case):
    """-> {"evals": {oracle: n}, "fails": {oracle: detail}, "feat": {feature: n}}"""
    L = lib()
    np, T, JaqalError = L["numpy"], L["timeouts"], L["JaqalError"]
    evals = {o: 0 for o in ORACLES}
    fails = {}
    feat = {}

    def bump(k, d=1):
        feat[k] = feat.get(k, 0) + d

    def call(f, *a, **k):
        signal.alarm(int(T.limit()))
        try:
            return f(*a, **k)
        finally:
            signal.alarm(0)

    def guarded(what, f, *a, **k):
        """-> ("ok", value) | ("rejected", class name) | ("fail", None) ; records edge_call_returns"""
        evals["edge_call_returns"] += 1
        try:
            return "ok", call(f, *a, **k)
        except Hang:
            T.saw_hang()
            fails.setdefault("edge_call_returns", f"{what}: no result within the time limit")
        except JaqalError as e:
            bump("rejected:JaqalError")
            return "rejected", f"JaqalError: {e}"[:200]
        except RuntimeError as e:
            if str(e).startswith("Error in probabilities"):
                bump("rejected:RuntimeError_probabilities")
                return "rejected", "RuntimeError: Error in probabilities"
            fails.setdefault("edge_call_returns", f"{what}: RuntimeError: {e}"[:400])
        except Exception as e:
            fails.setdefault("edge_call_returns", f"{what}: {type(e).__name__}: {e}"[:400])
        return "fail", None

    def judge(R, n, tag, **kw):
        signal.alarm(int(T.limit(2)))
        try:
            got = check_result(R, n, tag, **kw)
        except Hang:
            T.saw_hang()
            got = {"edge_call_returns": f"{tag}: reading the views: no result within the time limit"}
        except Exception as e:
            got = {"edge_call_returns": f"{tag}: reading the views raised {type(e).__name__}: {e}"[:400]}
        finally:
            signal.alarm(0)
        for o, d in got.items():
            if o == "edge_call_returns":
                evals[o] += 1
            elif o == "edge_outputs_str_int_same" and "expect" not in kw:
                continue
            elif o == "edge_prob_normalised" and kw.get("expect") is not None:
                continue
            elif o == "edge_emulator_qubit_order" and not kw.get("det"):
                continue
            else:
                evals[o] += 1
            if d is not None:
                fails.setdefault(o, d)

    old = signal.signal(signal.SIGALRM, _alarm)
    st = np.random.get_state()
    np.random.seed(case.get("npseed", 0))
    try:
        kind = case["kind"]
        if kind in ("parse", "emu"):
            n = case["n"]
            gates = L["APPROX"] if case.get("gateset") == "approx" else L["GATES"]
            if case.get("via") == "sexpr":
                stt, circ = guarded("build(S-expression)", L["build"], render_sexpr(n, case["shape"], case.get("regs"), case.get("alias", False)), inject_pulses=gates)
            else:
                stt, circ = guarded("parse_jaqal_string", L["parse_jaqal_string"], case["text"], inject_pulses=gates, autoload_pulses=False)
            if stt != "ok":
                if stt == "rejected":
                    bump("program_rejected")
                    feat.setdefault("_rejections", []).append(circ)
                return {"evals": evals, "fails": fails, "feat": feat}
            order = order_of(case["shape"])
            visits = {}
            for s in order:
                visits[s] = visits.get(s, 0) + 1
            nsub = sum(1 for it in _walk(case["shape"]) if it["t"] == "sub")
            for s in range(nsub):
                visits.setdefault(s, 0)
        if kind == "parse":
            ints, order = outputs_of(case)
            seen = []
            for form in case["forms"]:
                outs = in_form(ints, n, form, case["fseed"])
                stt, R = guarded(f"parse_jaqal_output_list(outputs as {form})", L["parse_jaqal_output_list"], circ, outs)
                bump("parse_form:" + form)
                if stt == "fail":
                    break
                if stt == "ok":
                    # registers of 13+ qubits: the 2^n-entry string views are read for subcircuit 0 of the first form only
                    judge(R, n, f"outputs as {form}", expect=(ints, order), visits=visits, views_on=None if n < 13 else ({0} if not seen else set()))
                    if fails:
                        break
                    seen.append((form, "ok", _summary(R, n) if len(case["forms"]) > 1 else None))
                else:
                    seen.append((form, R, None))
            if not fails and len(seen) > 1:
                evals["edge_outputs_str_int_same"] += 1
                f0, s0, r0 = seen[0]
                for f1, s1, r1 in seen[1:]:
                    if (s0 == "ok") != (s1 == "ok"):
                        fails.setdefault("edge_outputs_str_int_same", f"the same outcomes given as {f0} -> {s0}, given as {f1} -> {s1}")
                    elif s0 == "ok" and r0 != r1:
                        fails.setdefault("edge_outputs_str_int_same", f"the same outcomes given as {f0} and as {f1} give different readouts / tables")
        elif kind == "emu":
            det = {}
            for it in _walk(case["shape"]):
                if it["t"] == "sub" and case.get("gateset") != "approx":
                    det[it["i"]] = flips_of(it, n)
            if case["entry"] == "run":
                stt, R = guarded("run_jaqal_circuit", L["run_jaqal_circuit"], circ)
                if stt == "ok":
                    judge(R, n, "run_jaqal_circuit", det=det)
            else:
                stt, B = guarded("UnitarySerializedEmulator()", L["UnitarySerializedEmulator"])
                if stt == "ok":
                    stt, e = guarded("expand", lambda: L["expand_macros"](L["fill_in_let"](L["expand_subcircuits"](circ))))
                if stt == "ok":
                    stt, job = guarded("backend(circuit)", B, e)
                if stt == "ok":
                    for x in range(case["execs"]):
                        stt, R = guarded(f"job.execute() #{x + 1}", job.execute)
                        if stt != "ok":
                            break
                        # the subcircuit objects belong to the job: the readouts of all executions so far are recorded in them
                        # (how MANY readouts the emulator takes is not C15's business: only parse results are held to `visits`)
                        judge(R, n, f"job.execute() #{x + 1}", det=det)
                        if fails:
                            break
        elif kind == "wide":
            n, v = case["n"], int(case["v"])
            evals["edge_call_returns"] += 1
            evals["edge_readout_str_int"] += 1
            try:
                sc = call(L["Subcircuit"], L["Trace"]([0], [1], used_qubits=list(range(n))), 0)
                r = L["Readout"](v, case.get("index", 0))
                r._subcircuit = sc  # what accept_readout does
                s, back = call(lambda: (r.as_str, r.as_int))
                if back != v or isinstance(back, float):
                    fails["edge_readout_str_int"] = f"Readout({v}).as_int = {back!r}"
                elif s != key(v, n):
                    fails["edge_readout_str_int"] = f"Readout({v}) on {n} measured qubits: as_str = {s!r}, expected {key(v, n)!r} ({n} characters, char i = bit i)"
            except Hang:
                T.saw_hang()
                fails["edge_call_returns"] = "Readout views: no result within the time limit"
            except Exception as e:
                fails["edge_call_returns"] = f"Readout({v}) on {n} measured qubits: {type(e).__name__}: {e}"[:400]
        elif kind == "prob":
            n = case["n"]
            p = np.array([float.fromhex(x) for x in case["p"]], dtype=float)
            tr = L["Trace"]([0], [1], used_qubits=list(range(n)))
            stt, sc = guarded("ProbabilisticSubcircuit(probabilities=p)", L["ProbabilisticSubcircuit"], tr, case.get("index", 0), probabilities=p)
            if stt == "ok":
                evals["edge_prob_normalised"] += 1
                evals["edge_views_integer_order"] += 1
                try:
                    q = [float(x) for x in sc.simulated_probability_by_int]
                    if len(q) != 1 << n or not (min(q) >= 0) or not abs(math.fsum(q) - 1.0) <= 1e-12:
                        fails["edge_prob_normalised"] = f"accepted probabilities ({case['pkind']}): {len(q)} entries, min {min(q)!r}, sum {math.fsum(q)!r}"
                    K = keys(n)
                    for nm, by_int, by_str in (("simulated_probability", sc.simulated_probability_by_int, sc.simulated_probability_by_str), ("probability", sc.probability_by_int, sc.probability_by_str)):
                        if list(by_str.keys()) != K or [float(x) for x in by_str.values()] != q or [float(x) for x in by_int] != q:
                            fails.setdefault("edge_views_integer_order", f"{nm}_by_str / _by_int do not list the same distribution in integer order")
                except Exception as e:
                    fails["edge_call_returns"] = f"reading the views raised {type(e).__name__}: {e}"[:400]
        else:
            raise ValueError(kind)
    finally:
        signal.alarm(0)
        signal.signal(signal.SIGALRM, old)
        np.random.set_state(st)
    return {"evals": evals, "fails": fails, "feat": feat}


# ------------------------------------------------------------------------------------------------ protocol


def _budget(n, thorough):
    """How many cases of each stream for a given n."""
    b = {
        "counts_small": max(6, n // 25),  # thresholds 128, 256, 2048
        "counts_32768": max(1, n // 200),
        "counts_65536_parse": max(3, n // 100) if not thorough else max(5, n // 250),
        "counts_65536_emu": 1 if not thorough else max(2, n // 1000),
        "counts_65536_emu_job3": 1 if not thorough else max(2, n // 1000),
        "counts_emu_small": max(2, n // 60),
        "zero": max(20, n // 2),
        "bigreg": max(3, n // 100) if not thorough else max(6, n // 250),
        "wide": max(50, n),
        "approx": max(10, n // 6),
        "prob": max(30, n // 2),
        "counts_131072": (max(1, n // 1500) if thorough else 0),
        "counts_2^20": 0,  # 40 s for one case, and no counter representation has a boundary between 2^17 and 2^24
    }
    return b


def gen_cases(seed, n, thorough):
    rng = random.Random(f"c15_edge:{seed}:{int(bool(thorough))}")
    b = _budget(n, thorough)
    cases = []
    for i in range(b["counts_65536_parse"]):
        c = gen_counts_parse(rng, 65536, thorough)
        if i < 3:  # every run sees the three pure / mixed forms at the 16-bit boundary
            c["forms"] = [["int"], ["str"], ["mixed"]][i]
        cases.append(c)
    for i in range(b["counts_65536_emu"]):
        cases.append(gen_counts_emu(rng, 65536, thorough, 1))
    for i in range(b["counts_65536_emu_job3"]):
        cases.append(gen_counts_emu(rng, 65536, thorough, 3))
    for i in range(b["counts_32768"]):
        cases.append(gen_counts_parse(rng, 32768, thorough))
    for i in range(b["counts_131072"]):
        cases.append(gen_counts_parse(rng, 131072, thorough))
    for i in range(b["counts_2^20"]):
        cases.append(gen_counts_parse(rng, 2 ** 20, thorough))
    for i in range(b["counts_small"]):
        cases.append(gen_counts_parse(rng, [128, 256, 2048][i % 3], thorough))
    for i in range(b["counts_emu_small"]):
        cases.append(gen_counts_emu(rng, [128, 256, 2048][i % 3], thorough, rng.choice([1, 2, 3])))
    for i in range(b["zero"]):
        cases += gen_zero(rng, thorough)
    sizes = [13, 17, 16, 14, 15, 17, 16] if not thorough else [13, 17, 16, 18, 14, 19, 15, 20, 17, 16, 18, 17]
    for i in range(b["bigreg"]):
        cases.append(gen_bigreg(rng, sizes[i % len(sizes)]))
    for i in range(b["wide"]):
        cases.append(gen_wide(rng))
    for i in range(b["approx"]):
        cases.append(gen_approx(rng, thorough))
    for i in range(b["prob"]):
        cases.append(gen_prob(rng))
    return cases


def _features(case, dist):
    def bump(k, d=1):
        dist[k] = dist.get(k, 0) + d

    bump("stream:" + case["stream"])
    bump("kind:" + case["kind"])
    if case["kind"] in ("parse", "emu"):
        n = case["n"]
        bump("register_size=%s" % (n if n < 13 else ">=13:%d" % n))
        bump("built_via:" + case.get("via", "text"))
        if case.get("regs"):
            bump("fundamental_registers=%d" % len(case["regs"]))
        if case.get("alias"):
            bump("map_alias_used")
        order = order_of(case["shape"])
        per = {}
        for s in order:
            per[s] = per.get(s, 0) + 1
        nsub = sum(1 for it in _walk(case["shape"]) if it["t"] == "sub")
        bump("subcircuits_per_program=%d" % nsub)
        if nsub == 0:
            bump("program_without_subcircuit")
        if not order:
            bump("program_with_zero_readouts")
        if any(s not in per for s in range(nsub)):
            bump("subcircuit_with_zero_readouts")
        m = max(per.values()) if per else 0
        for t in (128, 256, 2048, 32768, 65536, 131072, 2 ** 20):
            if m > t:
                bump("readouts_in_one_subcircuit>%d" % t)
        for it in _walk(case["shape"]):
            if it["t"] == "loop":
                bump("loop_count:%s:%s" % (it.get("via"), "0" if it["k"] == 0 else "1" if it["k"] == 1 else "small" if it["k"] < 100 else "large"))
            else:
                bump("sub_style:" + it["style"])
                if not it["gates"]:
                    bump("empty_subcircuit")
                if any(g[0] == "loop" and g[1] == 0 for g in it["gates"]):
                    bump("gate_loop_count_0_inside_subcircuit")
        if case["kind"] == "parse":
            mx = 0
            for pl in case["plan"]:
                for v, c in pl:
                    mx = max(mx, c)
                    if v == 0:
                        bump("outcome_0_given")
                    if v >= 65536:
                        bump("outcome_value>=65536")
                    if v == (1 << n) - 1:
                        bump("outcome_all_ones_given")
            for t in (127, 128, 255, 256, 257, 2047, 2048, 2049, 32767, 32768, 32769, 65535, 65536, 65537):
                if any(c == t for pl in case["plan"] for v, c in pl):
                    bump("one_outcome_recorded_exactly=%d" % t)
            for t in (65535, 131071, 2 ** 20 - 1):
                if mx > t:
                    bump("one_outcome_recorded>%d" % t)
            bump("output_order:" + case["omode"])
        else:
            bump("emu_entry:%s x%d" % (case["entry"], case["execs"]))
            bump("gateset:" + case["gateset"])
    elif case["kind"] == "wide":
        v, n = int(case["v"]), case["n"]
        bump("wide_n:%s" % ("<=32" if n <= 32 else "33-63" if n <= 63 else ">=64"))
        for e in (53, 63, 64):
            if v >= 1 << e:
                bump("wide_value>=2^%d" % e)
        if v == 0:
            bump("wide_value=0")
    elif case["kind"] == "prob":
        bump("prob_kind:" + case["pkind"])


def run(seed: int, n: int, driver: str = DEFAULT_DRIVER, thorough: bool = False) -> dict:
    cases = gen_cases(seed, n, thorough)
    orc = {o: {"cases": 0, "failures": []} for o in ORACLES}
    dist = {}
    samples = []
    distinct = set()
    seen_streams = set()
    for case in cases:
        distinct.add(json.dumps(case, sort_keys=True))
        _features(case, dist)
        try:
            r = run_case(case)
        except Exception as e:  # never let the script itself crash: report the case
            r = {"evals": {"edge_call_returns": 1}, "fails": {"edge_call_returns": f"harness could not finish the case: {type(e).__name__}: {e}"[:400]}, "feat": {}}
        for o, k in r["evals"].items():
            orc[o]["cases"] += k
        for k, v in r["feat"].items():
            if not k.startswith("_"):
                dist[k] = dist.get(k, 0) + v
        for o, d in r["fails"].items():
            orc[o]["cases"] = max(orc[o]["cases"], 1)
            if len(orc[o]["failures"]) < 20:
                orc[o]["failures"].append({"case": case, "detail": d[:800]})
        if r["fails"]:
            dist["failing_cases"] = dist.get("failing_cases", 0) + 1
        if case["stream"] not in seen_streams and len(json.dumps(case)) < 4000:
            seen_streams.add(case["stream"])
            samples.append(case)
    dist["cases"] = len(cases)
    return {"corr": {}, "oracle": orc, "distribution": dist, "samples": samples, "nontrivial": len(distinct)}


def replay(case: dict, driver: str = DEFAULT_DRIVER) -> dict:
    r = run_case(case)
    if r["fails"]:
        return {"oracle_ok": False, "detail": "; ".join(f"{o}: {d}" for o, d in r["fails"].items())[:3000]}
    return {"oracle_ok": True, "detail": "all relations hold (%d evaluations)" % sum(r["evals"].values())}


def main():
    import time

    ap = argparse.ArgumentParser()
    ap.add_argument("--driver", default=DEFAULT_DRIVER)
    ap.add_argument("--seed", type=int, default=0)
    ap.add_argument("--n", type=int, default=300)
    ap.add_argument("--thorough", action="store_true")
    a = ap.parse_args()
    t0 = time.time()
    res = run(a.seed, a.n, a.driver, a.thorough)
    bad = 0
    for name, e in res["oracle"].items():
        print("oracle %-28s %7d cases %4d failures" % (name, e["cases"], len(e["failures"])))
        for d in e["failures"][:3]:
            print("   FAIL", d["detail"][:500])
            print("        ", json.dumps(d["case"])[:1200])
        bad += len(e["failures"])
    print("distribution:", json.dumps(res["distribution"], sort_keys=True))
    print("nontrivial distinct cases:", res["nontrivial"], " wall %.1fs" % (time.time() - t0))
    sys.exit(1 if bad else 0)


if __name__ == "__main__":
    main()
