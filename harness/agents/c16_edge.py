#!/venv/bin/python
"""Property C16 - third-round stream: VALUES and PATHS the generators of `c16_diff.py` never produce.

Oracles only (`"corr": {}`): the property is evaluated on the real entry points alone.  No call into the library is made in
the process of `run`: the calls are executed by a few FRESH interpreters started in parallel (`--worker`), each of which runs
one long history of calls in itself ("what was processed before" is then exactly the list of calls made so far) and/or
several short histories, each in a child `fork`ed from its still PRISTINE state (library imported, no entry point called yet).
The same call occurs in different interpreters, at different places of the histories and - in the thorough tier, for the
whole import alphabet - alone in a pristine process; all its outcomes must agree.

Run:   PYTHONPATH=/verif /venv/bin/python /verif/harness/agents/c16_edge.py [--n N] [--seed S] [--thorough] [--open-findings]

Entry points: `parse_jaqal_string` (flag combinations, override_dict, with / without a gate set, autoload with import_path),
`parse_jaqal_string_header`, `parse_jaqal_file` / `run_jaqal_file` (the text in a file; relative pulse imports resolved from the
FILE'S directory), `run_jaqal_circuit`, `run_jaqal_string`, `parse_jaqal_output_list`.

oracle
  only_jaqalerror_or_importerror : no exception other than JaqalError / ImportError escapes; ImportError only from a call that
                                   loads the pulse modules the text names (and the text names one); where the script built the
                                   module tree itself: a module that EXISTS with a gate set is not answered by ImportError in a
                                   pristine process (nor after any history), a module that does not exist is
  terminates                     : every call answers within `harness.timeouts.limit()` seconds
  parse_error_has_position       : a JaqalParseError carries (line, column) of a token start (the script's own tokenizer), of the
                                   first character that starts no token, or ("EOF", 0)
  offending_token_position       : texts that are syntactically wrong BY CONSTRUCTION - an accepted program plus, at a token
                                   boundary, a closing bracket that does not match the innermost open one / an illegal character
                                   / an unterminated `/*`: everything before the insertion is the prefix of a valid program, so
                                   the offending token is the inserted one - must raise JaqalParseError (the class, not just
                                   JaqalError) at exactly that (line, column), through every text entry point
  ends_too_early_is_parse_error  : an accepted program cut at a token boundary inside an open bracket: JaqalParseError, reported
                                   at the end of input (("EOF", 0), or nothing before the last token of the prefix)
  no_sticky_state                : the canonical outcome of a call (error class + position, or a digest of the dumped circuit /
                                   run summary / loaded gate names) is the same wherever the call occurs: alone in a pristine
                                   process, after short histories from the pristine state, and inside long histories in which
                                   EVERY ordered pair of the import alphabet (61 calls, a call followed by itself included)
                                   occurs adjacently (a random Eulerian circuit of the complete digraph, split over two
                                   interpreters; thorough: a second circuit cut into chunks that each start from the pristine
                                   state); the numeric stream runs in two orders in different interpreters.  A deviating
                                   history is re-run from the pristine state and minimised (usually to two calls) before it
                                   is reported; `replay` re-runs the reported history and every call of it alone.

streams
  numeric  : ~50 templates x ~110 literals.  Templates put ONE number (and numbers derived from it: v-1, v, v+1 ...) where the
             code converts, compares, multiplies or indexes: register size (literal / let / integral-float let), index into a
             register, a whole-register alias, a slice alias, a slice of a slice (gate argument, `map q r[i]`, macro parameter,
             rebuilt by expand_macro / expand_let / expand_let_map), slice start / stop / step, loop and subcircuit counts,
             INT / FLOAT gate arguments, macro arguments forwarded to any of these, override_dict values.  Literals: 0 / -0 /
             +0 / 0.0 / -0.0 / .0, small, 255..65536, 2**31, 2**32, 2**53 +-1, 2**63 -2..+1, 2**64 +-1, 10**19, 2**127,
             2**1023 / 2**1024 / 10**308 / 10**309 / 10**400 (int -> float overflow), 4299 / 4300 / 4301 digits, leading zeros,
             integral floats at the same boundaries, neighbours in the last ulp, largest / smallest doubles, literals that
             round to inf / 0.0 / -0.0, 400-digit mantissas.  FALSY values are covered by the same cross (count 0, index 0,
             let 0 / 0.0 / -0.0, argument 0 through a macro parameter, override 0) plus empty blocks / macros / aliases.
             Executed (run / output_list / run_string / run_file) unless a register would need 7..63 qubits of state vector
             or a loop would be unrolled more than 12 times.  Quick tier: a stratified sample of the cross (every template,
             every literal, and ALL pairs with the literals 2**63-1 .. 2**63+1, 2**64, 4300 digits, 0 / 0.0 / -0.0) with the
             default parse plus two other entry points / flag sets each; thorough: the full cross through every entry point.
  syntax   : valid programs of `c16_diff.make_runnable` / `c01_diff.make_program`, damaged as described above.
  import   : a module tree built in temporary directories: import path A (package 3 levels deep, flat module, broken module,
             package whose __init__ fails after importing a submodule, module without gates), import path B (a package of the
             SAME name with another gate set), a directory on sys.path ("installed" packages with / without gates); relative and
             absolute imports, dotted names missing at the first / middle / last level, names of modules that are already
             imported, two usepulses statements, through autoload / run_jaqal_string / parse_jaqal_file, mixed with ordinary
             succeeding and failing calls.

Not covered, because the quantifier of C16 is over TEXTS and HISTORIES: the object-level API (core constructors, CircuitBuilder,
S-expressions), override_dict values that are not numbers, output lists with values the register cannot give
(`parse_jaqal_output_list(c, [3])` for a 1-qubit register raises IndexError), pulse modules that raise something else than
ImportError when they are imported.

Recommended: quick `run(seed, 150)` (5 - 9 s), thorough `run(seed, 700, thorough=True)` (80 - 100 s on an idle machine).

OPEN FINDING (not part of `run`; `--open-findings` / `probe_open_findings()` runs it; set C16_EDGE_SHADOWED=1 to put its calls
into the import alphabet of `run`):
  shadowed_installed_module : import path holds `colorsys/jaqal_gates.py`; `from .colorsys usepulses *` is accepted in a pristine
             process, but after the (failing, ImportError) call `from colorsys usepulses *` - which leaves the STDLIB module
             `colorsys` in sys.modules - the same text raises ImportError ("the name belongs to a module that is already
             imported").  The same with an installed pulse package of the same name after a SUCCEEDING absolute import.
"""
import argparse
import hashlib
import json
import os
import random
import select
import shutil
import signal
import subprocess
import sys
import tempfile
import time
from collections import Counter

DEFAULT_DRIVER = "/verif/lean/.lake/build/bin/jaqal-model"
MARK = "@@C16EDGE@@"
MAX_HANGS = 4
INCLUDE_SHADOWED_INSTALLED = os.environ.get("C16_EDGE_SHADOWED", "") == "1"

_loaded = False


def _root():
    root = os.path.dirname(os.path.dirname(os.path.dirname(os.path.abspath(__file__))))
    return root if os.path.isdir(os.path.join(root, "harness")) else "/verif"


def _imports():
    """imports the library and the generators of the existing scripts; calls no entry point"""
    global _loaded
    if _loaded:
        return
    global D, C01, T
    os.environ["JAQALPAQ_RUN_EMULATOR"] = "1"
    try:
        import harness  # noqa
    except ImportError:
        sys.path.insert(0, _root())
    from harness.agents import c16_diff as D
    from harness import timeouts as T
    D._imports()
    C01 = D.C01
    _loaded = True


# ------------------------------------------------------------------------------------------------ numeric stream

def _ints():
    out = ["0", "-0", "+0", "00", "1", "+1", "-1", "2", "3", "4", "5", "6", "7", "8", "-2", "-4", "12", "13", "0" * 40 + "2",
           "63", "64", "65", "255", "256", "65535", "65536"]
    for b in (31, 32, 53, 63, 64):
        out += [str(2 ** b - 1), str(2 ** b), str(2 ** b + 1)]
    out += [str(2 ** 63 - 2), str(-2 ** 63), str(-2 ** 63 - 1), str(-2 ** 31), str(-2 ** 53 - 1), str(10 ** 19), str(2 ** 127),
            str(2 ** 1023), str(2 ** 1024 - 1), str(2 ** 1024), str(10 ** 308), str(10 ** 309), str(10 ** 400), str(-10 ** 400),
            "9" * 4299, "9" * 4300, "9" * 4301, "1" + "0" * 4299, "-" + "9" * 4300, "-" + "9" * 4301]
    return out


def _floats():
    return ["0.0", "-0.0", "+0.0", ".0", "-.0", "0.00e5", "1.0", "2.0", "3.0", "4.0", "-1.0", "-2.0", "0.5", "1.5", "2.5", "-0.5",
            "0.99999999999999994", "0.9999999999999999", "1.0000000000000002", "1.9999999999999998", "2.0000000000000004",
            "2.9999999999999996", "3.0000000000000004", "3.9999999999999996", "12.0", "13.0", "64.0", "65536.0",
            "2147483648.0", "4294967296.0", "9007199254740991.0", "9007199254740992.0", "9007199254740993.0",
            "9223372036854775807.0", "9223372036854775808.0", "9223372036854777856.0", "9223372036854774784.0",
            "18446744073709551615.0", "18446744073709551616.0", "-9223372036854775808.0", "1.0e19", "1.0e22", "1.0e23", "1.0e100",
            "1.0e308", "1.7976931348623157e308", "1.7976931348623158e308", "1.797693134862315807e308", "1.7976931348623159e308",
            "1.8e308", "1.0e309", "-1.0e309", "4.9e-324", "5.0e-324", "2.4e-324", "2.5e-324", "2.4703282292062328e-324",
            "1.0e-400", "-1.0e-400", "2.2250738585072014e-308", "2.2250738585072011e-308", "1.0e-320", "0." + "3" * 400,
            "1" * 308 + ".0", "1" * 310 + ".0", "0." + "0" * 400 + "1", "2." + "0" * 400, "1.0e+0", "1.0E0", "20.0e-1", "0.2e1"]


def lit_value(s):
    """python value of a literal (None when the lexer must refuse it: more than 4300 digits, infinite)"""
    try:
        if "." in s:
            v = float(s)
            return None if v in (float("inf"), float("-inf")) else v
        return int(s)
    except ValueError:
        return None


# A template: (name, text, spec).  `{v}` is the literal; spec["int_only"]: the grammar wants an INT at `{v}`;
# spec["size"] / spec["count"]: `{v}` ends up as the size of the fundamental register / as a loop count (decides whether the
# text is executed); spec["derived"]: extra placeholders computed from the integer value of `{v}`;
# spec["ov"]: name of a let the override stream may override with another literal (same role as `{v}`).


def _templates():
    t = []

    def add(name, text, **spec):
        t.append((name, text, spec))
    # ---- the size of the fundamental register
    add("size:literal:index0", "register r[{v}]\nprepare_all\nX r[0]\nmeasure_all\n", int_only=True, size=True)
    add("size:literal:index_last", "register r[{v}]\nprepare_all\nX r[{a}]\nmeasure_all\n", int_only=True, size=True, derived={"a": -1})
    add("size:literal:index_size", "register r[{v}]\nprepare_all\nX r[{a}]\nmeasure_all\n", int_only=True, size=True, derived={"a": 0})
    add("size:literal:map_index", "register r[{v}]\nmap q r[1]\nmap p r[{a}]\nprepare_all\nCX q p\nmeasure_all\n", int_only=True, size=True, derived={"a": -1})
    add("size:let:index", "let n {v}\nregister r[n]\nprepare_all\nX r[1]\nmeasure_all\n", size=True, ov="n")
    add("size:let:map_index", "let n {v}\nregister r[n]\nmap q r[0]\nprepare_all\nX q\nmeasure_all\n", size=True, ov="n")
    add("size:let:index_let", "let n {v}\nlet i 1\nregister r[n]\nprepare_all\nX r[i]\nmeasure_all\n", size=True, ov="n")
    add("size:literal:whole_alias", "register r[{v}]\nmap a r\nprepare_all\nX a[3]\nX a[0]\nmeasure_all\n", int_only=True, size=True)
    add("size:literal:alias_of_alias", "register r[{v}]\nmap a r\nmap b a\nmap q b[1]\nprepare_all\nX q\nX b[0]\nmeasure_all\n", int_only=True, size=True)
    add("size:literal:slice_alias", "register r[{v}]\nmap a r[0:8:2]\nprepare_all\nX a[1]\nmeasure_all\n", int_only=True, size=True)
    add("size:literal:slice_open", "register r[{v}]\nmap a r[1:]\nmap b a[::2]\nmap c b[:3]\nprepare_all\nX a[0]\nX b[1]\nX c[2]\nmeasure_all\n", int_only=True, size=True)
    add("size:literal:slice_full", "register r[{v}]\nmap a r[0:{v}:1]\nmap b a[{a}:0:-1]\nprepare_all\nX a[{a}]\nX b[0]\nmeasure_all\n", int_only=True, size=True, derived={"a": -1})
    add("size:literal:slice_huge_step", "register r[{v}]\nmap a r[0:{v}:{a}]\nprepare_all\nX a[1]\nX a[0]\nmeasure_all\n", int_only=True, size=True, derived={"a": -1})
    add("size:literal:slice_negative", "register r[{v}]\nlet m -{v}\nmap a r[m:]\nmap b a[:]\nprepare_all\nX b[0]\nmeasure_all\n", int_only=True, size=True)
    add("size:let:slice_by_let", "let n {v}\nlet c 2\nregister r[n]\nmap a r[1:n:c]\nprepare_all\nX a[1]\nmeasure_all\n", size=True, ov="n")
    add("size:literal:macro_index", "register r[{v}]\nmacro m a i {{ X a[i] }}\nprepare_all\nm r 1\nmeasure_all\n", int_only=True, size=True)
    add("size:literal:macro_qubit", "register r[{v}]\nmacro m a {{ X a }}\nmap b r[0:4]\nprepare_all\nm r[1]\nm b[2]\nmeasure_all\n", int_only=True, size=True)
    add("size:literal:subcircuit", "register r[{v}]\nsubcircuit {{ X r[0] }}\n", int_only=True, size=True)
    add("size:literal:declared_only", "register r[{v}]\nmap a r[2:]\nmap b r\n", int_only=True, size=True)
    add("size:literal:two_registers", "register r[{v}]\nregister s[{v}]\nprepare_all\nX r[0]\nX s[0]\nmeasure_all\n", int_only=True, size=True)
    # ---- an index
    add("index:literal", "register r[4]\nprepare_all\nX r[{v}]\nmeasure_all\n", int_only=True)
    add("index:let", "let k {v}\nregister r[4]\nprepare_all\nX r[k]\nmeasure_all\n", ov="k")
    add("index:map_literal", "register r[4]\nmap a r[{v}]\nprepare_all\nX a\nmeasure_all\n", int_only=True)
    add("index:map_let", "let k {v}\nregister r[4]\nmap a r[k]\nprepare_all\nX a\nmeasure_all\n", ov="k")
    add("index:alias", "register r[4]\nmap a r[1:4]\nmap b a\nprepare_all\nX a[{v}]\nmeasure_all\n", int_only=True)
    add("index:macro_arg", "register r[4]\nmacro m a i {{ X a[i] }}\nprepare_all\nm r {v}\nmeasure_all\n")
    add("index:macro_arg_let", "let k {v}\nregister r[4]\nmap b r[0:4:2]\nmacro m a i {{ X a[i] }}\nprepare_all\nm b k\nmeasure_all\n", ov="k")
    add("index:macro_forwarded", "register r[4]\nmacro m a i {{ X a[i] }}\nmacro w i a {{ m a i }}\nprepare_all\nw {v} r\nmeasure_all\n")
    add("index:of_non_register", "let k {v}\nregister r[4]\nmap q r[0]\nprepare_all\nX k[0]\nmeasure_all\n", ov="k")
    # ---- slice bounds
    add("slice:start", "register r[4]\nmap a r[{v}:]\nprepare_all\nX a[0]\nmeasure_all\n", int_only=True)
    add("slice:stop", "register r[4]\nmap a r[:{v}]\nprepare_all\nX a[0]\nmeasure_all\n", int_only=True)
    add("slice:step", "register r[4]\nmap a r[::{v}]\nprepare_all\nX a[0]\nmeasure_all\n", int_only=True)
    add("slice:start_stop_step", "register r[4]\nmap a r[{v}:{v}:{v}]\nmap b a[:]\nprepare_all\nmeasure_all\n", int_only=True)
    add("slice:let_start", "let k {v}\nregister r[4]\nmap a r[k:]\nmap b a[:]\nprepare_all\nX a[0]\nmeasure_all\n", ov="k")
    add("slice:let_stop", "let k {v}\nregister r[4]\nmap a r[0:k]\nmap b a[0:k]\nprepare_all\nX b[0]\nmeasure_all\n", ov="k")
    add("slice:let_step", "let k {v}\nregister r[4]\nmap a r[::k]\nmap b a[:]\nprepare_all\nX a[0]\nmeasure_all\n", ov="k")
    add("slice:let_negative_step", "let k {v}\nregister r[4]\nmap a r[3:0:k]\nprepare_all\nX a[0]\nmeasure_all\n", ov="k")
    add("slice:empty_alias", "register r[4]\nmap a r[{v}:{v}]\nmap b a\nprepare_all\nX a[0]\nmeasure_all\n", int_only=True)
    # ---- counts
    add("count:loop_literal", "register r[2]\nprepare_all\nloop {v} {{ X r[0] }}\nmeasure_all\n", int_only=True, count=True)
    add("count:loop_let", "let k {v}\nregister r[2]\nprepare_all\nloop k {{ X r[0] }}\nmeasure_all\n", count=True, ov="k")
    add("count:loop_around_subcircuit", "let k {v}\nregister r[2]\nloop k {{ prepare_all; X r[0]; measure_all }}\nprepare_all\nmeasure_all\n", count=True, ov="k")
    add("count:loop_macro_arg", "register r[2]\nmacro m i {{ loop i {{ X r[0] }} }}\nprepare_all\nm {v}\nmeasure_all\n", count=True)
    add("count:loop_empty_body", "register r[2]\nprepare_all\nloop {v} {{ }}\nloop {v} <>\nmeasure_all\n", int_only=True, count=True)
    add("count:subcircuit_literal", "register r[2]\nsubcircuit {v} {{ X r[0] }}\nsubcircuit {{ }}\n", int_only=True)
    add("count:subcircuit_let", "let k {v}\nregister r[2]\nsubcircuit k {{ X r[0] }}\n", ov="k")
    add("count:subcircuit_in_loop", "let k {v}\nregister r[2]\nloop 2 {{ subcircuit k {{ X r[1] }} }}\n", ov="k")
    # ---- gate arguments
    add("arg:int_param", "register r[2]\nprepare_all\nP r[0] {v}\nmeasure_all\n")
    add("arg:float_param", "register r[2]\nprepare_all\nPF {v} r[0]\nmeasure_all\n")
    add("arg:let", "let k {v}\nregister r[2]\nprepare_all\nP r[0] k\nPF k r[1]\nmeasure_all\n", ov="k")
    add("arg:macro", "register r[2]\nmacro m x q {{ PF x q; < P q x > }}\nprepare_all\nm {v} r[0]\nmeasure_all\n")
    add("arg:for_qubit_param", "register r[2]\nprepare_all\nX {v}\nmeasure_all\n")
    add("arg:unknown_gate", "register r[2]\nprepare_all\nfoo {v} r[0]\nmeasure_all\n")
    add("arg:all_uses", "let k {v}\nregister r[4]\nmacro m a i {{ X a[i]; loop i {{ PF i r[1] }} }}\nprepare_all\nm r k\nX r[k]\nmeasure_all\n", count=True, ov="k")
    add("let:unused", "let k {v}\nlet j {v}\nregister r[2]\nprepare_all\nmeasure_all\n", ov="k")
    return t


FALSY_TEXTS = [
    "register r[2]\nprepare_all\n<>\n{}\n<{}|{}>\nloop 3 {}\nloop 0 {}\nloop 0 <>\nmeasure_all\n",
    "register r[2]\nmacro m {}\nmacro n a { }\nmacro o a <>\nprepare_all\nm\nn 0\nn 0.0\nn -0.0\nn r\nn r[0]\no 0\nmeasure_all\n",
    "register r[2]\nsubcircuit {}\nsubcircuit 0 {}\nsubcircuit 3 {}\nloop 0 { subcircuit { X r[0] } }\n",
    "register r[2]\nmap a r[0:0]\nmap b a\nmap c a[:]\nprepare_all\nmeasure_all\n",
    "register r[2]\nmap a r[0:0]\nprepare_all\nX a[0]\nmeasure_all\n",
    "register r[1]\nmap a r[0:1]\nmap q a[0]\nprepare_all\nX q\nmeasure_all\n",
    "let z 0\nlet f 0.0\nlet g -0.0\nregister r[2]\nprepare_all\nX r[z]\nX r[f]\nX r[g]\nP r[0] z\nPF f r[0]\nPF g r[0]\nloop z { X r[1] }\nloop f { X r[1] }\nloop g { X r[1] }\nmeasure_all\n",
    "let z 0\nregister r[2]\nmap a r[z:2]\nmap b r[z:z]\nmap q r[z]\nprepare_all\nX a[z]\nX q\nmeasure_all\n",
    "let z 0\nregister r[z]\n", "let z 0.0\nregister r[z]\n", "let z -0.0\nregister r[z]\nprepare_all\nmeasure_all\n",
    "let z 0\nregister r[2]\nmap a r[::z]\nprepare_all\nmeasure_all\n", "let z 0.0\nregister r[2]\nmap a r[0:2:z]\nmap b a[:]\n",
    "let z 0\nregister r[2]\nsubcircuit z { X r[0] }\nloop z { subcircuit { X r[1] } }\n",
    "register r[2]\nmacro m i q { loop i { X q }; P q i; X r[i] }\nprepare_all\nm 0 r[1]\nm 0.0 r[1]\nm -0.0 r[1]\nmeasure_all\n",
    "register r[2]\nmacro m i { subcircuit i { X r[0] } }\nm 0\nm 1\n",
    "register r[2]\nprepare_all\nmeasure_all\nprepare_all\nmeasure_all\n", "register r[2]\n", "let z 0\n", "register r[2]\nmacro m {}\n",
    "register r[2]\nloop 0 { prepare_all; measure_all }\n", "register r[2]\nprepare_all\nloop 0 { measure_all; prepare_all }\nmeasure_all\n",
    "register r[2]\nbranch { }\n", "register r[2]\nprepare_all\nmeasure_all\nbranch { '0' : { } ; '1' : { } }\n",
    # sizes of other things than numbers
    "register r[2]\nprepare_all\nmeasure_all\nbranch { '" + "01" * 3000 + "' : { } ; '" + "0" * 6000 + "' : { X r[0] } }\n",
    "register " + "a" * 20000 + "[2]\nprepare_all\nX " + "a" * 20000 + "[0]\nmeasure_all\n",
    "let " + "x." * 3000 + "y 1\nregister r[2]\nprepare_all\nP r[0] " + "x." * 3000 + "y\nmeasure_all\n",
    "register r[2]\nmacro m " + " ".join(f"p{i}" for i in range(600)) + " { X p0 }\nprepare_all\nm " + " ".join(["r[0]"] + ["0"] * 599) + "\nmeasure_all\n",
    "register r[2]\nprepare_all\n" + "X r[0];" * 3000 + "\nmeasure_all\n",
]

NUM_FLAGS = [{}, {"expand_let": True}, {"expand_let_map": True}, {"expand_macro": True}, {"expand_macro": True, "expand_let_map": True},
             {"expand_macro": True, "expand_let": True, "return_usepulses": True}]
OV_VALUES = [0, -0.0, 0.0, 1, 2, 3, 2.0, 2.5, -1, 4, 2 ** 53 + 1, 2 ** 63 - 1, 2 ** 63, 2 ** 64, 9.223372036854775807e18, 1e19, 1e308,
             5e-324, 10 ** 400, -2 ** 63]


def executable(spec, val, ov=None):
    """may the text be handed to the executing entry points?  (no register of 7..63 qubits, no loop unrolled > 12 times);
    decided from the literals the script itself put into the text"""
    vals = [val] + ([ov] if ov is not None else [])
    for v in vals:
        if v is None:
            continue
        try:
            integral = float(v) == int(v)
        except (OverflowError, ValueError):
            integral = True
        if spec.get("size") and integral and 6 < v < 64:
            return False
        if spec.get("count") and integral and v > 12:
            return False
        if spec.get("count") and not integral and v > 12:
            return False
    return True


def numeric_text(tmpl, lit):
    name, text, spec = tmpl
    kw = {"v": lit}
    val = lit_value(lit)
    for k, d in (spec.get("derived") or {}).items():
        if not isinstance(val, int):
            return None
        try:
            kw[k] = str(val + d)
        except ValueError:          # more than 4300 digits: this interpreter cannot write it either
            return None
    return text.format(**kw)


def numeric_calls(seed, n, thorough):
    """-> list of (call, features)"""
    rng = random.Random(f"{seed}:c16edge:num")
    tm = _templates()
    ints, floats = _ints(), _floats()
    pairs = []
    for t in tm:
        for lit in ints + ([] if t[2].get("int_only") else floats):
            pairs.append((t, lit))
    budget = len(pairs) if thorough else min(len(pairs), 14 * n)
    if budget < len(pairs):
        # stratified: every template and every literal stays represented
        rng.shuffle(pairs)
        seen_t, seen_l, first, rest = set(), set(), [], []
        for p in pairs:
            if p[0][0] not in seen_t or p[1] not in seen_l:
                first.append(p)
                seen_t.add(p[0][0])
                seen_l.add(p[1])
            else:
                rest.append(p)
        # the boundary of this round (2**63 and its neighbours) is never sampled away
        hot = {str(2 ** 63 - 1), str(2 ** 63), str(2 ** 63 + 1), str(2 ** 64), "9" * 4300, "0", "0.0", "-0.0", "9223372036854775808.0"}
        must = [p for p in rest if p[1] in hot]
        rest = [p for p in rest if p[1] not in hot]
        pairs = (first + must + rest)[:max(budget, len(first) + len(must))]
    out = []
    for t, lit in pairs:
        name, _text, spec = t
        text = numeric_text(t, lit)
        if text is None:
            continue
        val = lit_value(lit)
        feat = ["num:template:" + name.split(":")[0], "num:literal:" + lit_class(lit)]
        base = {"stream": "numeric", "template": name, "literal": lit if len(lit) < 60 else lit[:20] + f"...({len(lit)} chars)", "text": text}
        variants = []
        variants.append(dict(base, kind="parse", gs=True, flags={}))
        allv = []
        for fl in NUM_FLAGS[1:]:
            allv.append(dict(base, kind="parse", gs=True, flags=fl))
        allv.append(dict(base, kind="parse", gs=False, flags=rng.choice(NUM_FLAGS)))
        allv.append(dict(base, kind="header"))
        if spec.get("ov"):
            for _ in range(2):
                ov = rng.choice(OV_VALUES)
                c = dict(base, kind="parse", gs=True, flags=rng.choice(NUM_FLAGS[1:3] + NUM_FLAGS[4:]), override=[[spec["ov"], ov]])
                allv.append(c)
                if executable(spec, None, ov):
                    allv.append(dict(base, kind="run", gs=True, override=[[spec["ov"], ov]]))
            # a key that is no let of the program (documented: an error is raised)
            allv.append(dict(base, kind="parse", gs=True, flags=rng.choice(NUM_FLAGS[1:3]), override=[["no_such_let", rng.choice(OV_VALUES)]]))
        if executable(spec, val):
            allv.append(dict(base, kind="run", gs=True))
            allv.append(dict(base, kind="output_list", gs=True, output=rng.choice([[0], [], [0, 1, 0], [1]])))   # values every register can give (the list is not the text)
            allv.append(dict(base, kind="run_string", dir="A", text="from .e16p usepulses *\n" + text))
            allv.append(dict(base, kind="run_file", dir="A", text="from .e16f usepulses *\n" + text))
            allv.append(dict(base, kind="parse_file", dir="A", text=text))
        if thorough:
            variants += allv
        else:
            # the executing entry points and the expanding flags are where the values are USED
            k = 2 if len(allv) > 2 else len(allv)
            variants += rng.sample(allv, k)
        for c in variants:
            out.append((c, feat + ["num:entry:" + c["kind"]]))
    for text in FALSY_TEXTS:
        base = {"stream": "falsy", "text": text}
        for fl in NUM_FLAGS:
            out.append((dict(base, kind="parse", gs=True, flags=fl), ["falsy:parse"]))
        out.append((dict(base, kind="parse", gs=False, flags={}), ["falsy:parse"]))
        out.append((dict(base, kind="header"), ["falsy:header"]))
        out.append((dict(base, kind="run", gs=True), ["falsy:run"]))
        out.append((dict(base, kind="run", gs=True, override=[["z", 0], ["f", -0.0]]), ["falsy:run"]))
        out.append((dict(base, kind="output_list", gs=True, output=[]), ["falsy:output_list"]))
        out.append((dict(base, kind="output_list", gs=True, output=[0]), ["falsy:output_list"]))
        out.append((dict(base, kind="run_string", dir="A", text="from .e16p usepulses *\n" + text), ["falsy:run_string"]))
    return out


def lit_class(lit):
    v = lit_value(lit)
    if v is None:
        return "refused_by_lexer"
    if isinstance(v, float):
        if v == 0:
            return "float_zero"
        if v == int(v):
            a = abs(v)
            return "integral_float" + ("_ge_2^63" if a >= 2 ** 63 else "_ge_2^53" if a >= 2 ** 53 else "_small")
        return "float_tiny" if abs(v) < 1e-300 else "float_other"
    a = abs(v)
    if a == 0:
        return "int_zero"
    if len(lit) > 4000:
        return "int_4299+_digits"
    if a >= 2 ** 1023:
        return "int_beyond_double"
    if a >= 2 ** 63:
        return "int_ge_2^63"
    if a >= 2 ** 53:
        return "int_ge_2^53"
    if a >= 2 ** 31:
        return "int_ge_2^31"
    return "int_negative" if v < 0 else "int_small"


# ------------------------------------------------------------------------------------------------ syntax stream

CLOSERS = {"{": "}", "<": ">", "[": "]"}


def own_tokens(text):
    """[(offset, lexeme)] of the tokens of the documented lexical grammar (newlines included); None when the text does not lex"""
    out = []
    pos = 0
    while pos < len(text):
        m = D.OWN_RE.match(text, pos)
        if not m or m.end() == pos:
            return None
        if m.lastgroup not in ("ws", "cm", "bc"):
            out.append((pos, m.group()))
        pos = m.end()
    return out


def syntax_damage(text, rng, k):
    """-> [(damaged text, how, expectation)], expectation = ("at", line, col) | ("eof", last_token_line, last_token_col)"""
    toks = own_tokens(text)
    if not toks or len(toks) < 3:
        return []
    # bracket stack BEFORE each token
    stacks = []
    st = []
    for off, lx in toks:
        stacks.append(list(st))
        if lx in CLOSERS:
            st.append(lx)
        elif lx in ("}", ">", "]"):
            if not st or CLOSERS[st[-1]] != lx:
                return []       # not balanced in the script's own reading: leave the text alone
            st.pop()
    if st:
        return []
    out = []
    # (a newline token may follow a line comment: an insertion in front of it would land inside the comment)
    idxs = [i for i in range(len(toks)) if not toks[i][1].startswith("\n")]
    for _ in range(k):
        kind = rng.choice(["closer", "closer", "illegal", "comment", "cut", "cut"])
        if kind == "cut":
            cand = [i for i in idxs if stacks[i] and i > 0]
            if not cand:
                continue
            i = rng.choice(cand)
            cutpos = toks[i][0] if rng.random() < 0.7 else toks[i - 1][0] + len(toks[i - 1][1])
            pre = text[:cutpos]
            # the last real (non-newline) token of the prefix
            last = [t for t in toks[:i]]
            lt = last[-1]
            out.append((pre, "cut_inside_" + stacks[i][-1], ("eof",) + D.line_col(pre, lt[0])))
            continue
        at_end_ok = text.endswith("\n") or toks[-1][0] + len(toks[-1][1]) == len(text)
        i = rng.choice(idxs + ([len(toks)] if at_end_ok else []))
        p = toks[i][0] if i < len(toks) else len(text)
        stack = stacks[i] if i < len(toks) else []
        if kind == "closer":
            allowed = [c for c in ("}", ">", "]") if not stack or CLOSERS[stack[-1]] != c]
            ins = rng.choice(allowed)
            new = text[:p] + ins + rng.choice([" ", "", "\n"]) + text[p:]
            how = "mismatched_" + ins + ("_in_" + stack[-1] if stack else "_at_top")
        elif kind == "illegal":
            ins = rng.choice([c for c in D.ILLEGAL[:17] if c != "\r"] + ["é", "\U0001F600"])
            new = text[:p] + ins + text[p:]
            how = "illegal_char"
        else:
            new = text[:p] + "/*" + text[p:].replace("*/", "* /")
            how = "unterminated_comment"
        out.append((new, how, ("at",) + D.line_col(new, p)))
    return out


def syntax_calls(seed, n, thorough):
    out = []
    nprog = n * (3 if thorough else 1)
    for i in range(nprog):
        rng = random.Random(f"{seed}:c16edge:syn:{i}")
        if i % 3 == 2:
            _p, gs, text, _r = C01.make_program(seed, i)
        else:
            text, gs, _ov, _feat, _p = D.make_runnable(seed, i)
        if len(text) > 1500:
            continue
        ref = {"stream": "syntax", "kind": "parse", "gs": True, "flags": {}, "text": text, "role": "reference", "group": i}
        out.append((ref, ["syn:reference"]))
        for new, how, exp in syntax_damage(text, rng, 6 if thorough else 4):
            base = {"stream": "syntax", "how": how, "expect": list(exp), "group": i, "text": new}
            out.append((dict(base, kind="parse", gs=True, flags={}), ["syn:" + how.split("_in_")[0], "syn:entry:parse"]))
            r = rng.random()
            if r < 0.35:
                out.append((dict(base, kind="parse", gs=rng.random() < 0.5, flags=rng.choice(D.FLAG_COMBOS)), ["syn:entry:parse_flags"]))
            elif r < 0.55:
                out.append((dict(base, kind="run_string", dir="A", text=new), ["syn:entry:run_string"]))
            elif r < 0.75 and new.isascii():      # (the file entry points read the file in the locale's encoding)
                out.append((dict(base, kind="parse_file", dir="A", text=new), ["syn:entry:parse_file"]))
            elif r < 0.85:
                out.append((dict(base, kind="output_list", gs=True, output=[0]), ["syn:entry:output_list"]))
    return out


# ------------------------------------------------------------------------------------------------ module trees

GATE_MODULE = '''
import sys
if %(root)r not in sys.path:
    sys.path.insert(0, %(root)r)
from harness.gates import GATES
ALL_GATES = {k: v for k, v in GATES.items() if k in %(names)r or k in ("prepare_all", "measure_all")}
'''

NAMES_FULL = ["X", "Y", "P", "PF", "CX"]


def gate_module(names):
    return GATE_MODULE % {"root": _root(), "names": list(names)}


class Trees:
    """import path A, import path B (same package name, other gates), S (a directory put on sys.path: 'installed')"""

    def __init__(self):
        self.tmp = tempfile.mkdtemp(prefix="c16edge")
        self.A = os.path.join(self.tmp, "A")
        self.B = os.path.join(self.tmp, "B")
        self.S = os.path.join(self.tmp, "S")
        w = self.write
        # A
        w("A/e16p/__init__.py", "")
        w("A/e16p/jaqal_gates.py", gate_module(NAMES_FULL))
        w("A/e16p/std/__init__.py", "")
        w("A/e16p/std/jaqal_gates.py", gate_module(["X", "Y"]))
        w("A/e16p/std/deep/__init__.py", "")
        w("A/e16p/std/deep/jaqal_gates.py", gate_module(["X"]))
        w("A/e16p/std/broken.py", "raise ImportError('broken on purpose')\n")
        w("A/e16p/std/nog/__init__.py", "x = 1\n")
        w("A/e16f.py", "class jaqal_gates:\n    pass\n" + gate_module(NAMES_FULL) + "jaqal_gates.ALL_GATES = ALL_GATES\n")
        w("A/e16b.py", "raise ImportError('broken on purpose')\n")
        w("A/e16n.py", "x = 1\n")
        w("A/e16init/__init__.py", "from . import sub\nfrom . import jaqal_gates\nraise ImportError('fails after importing its submodules')\n")
        w("A/e16init/sub.py", "x = 1\n")
        w("A/e16init/jaqal_gates.py", gate_module(NAMES_FULL))
        # the open finding: names that an installed module also has
        w("A/e16abs/__init__.py", "")
        w("A/e16abs/jaqal_gates.py", gate_module(["X"]))
        w("A/colorsys/__init__.py", "")
        w("A/colorsys/jaqal_gates.py", gate_module(NAMES_FULL))
        # B: the same names, other contents
        w("B/e16p/__init__.py", "")
        w("B/e16p/jaqal_gates.py", gate_module(["Y"]))
        w("B/e16n.py", "class jaqal_gates:\n    pass\n" + gate_module(["X"]) + "jaqal_gates.ALL_GATES = ALL_GATES\n")
        # S: installed
        w("S/e16abs/__init__.py", "")
        w("S/e16abs/jaqal_gates.py", gate_module(NAMES_FULL))
        w("S/e16abs/sub/__init__.py", "")
        w("S/e16abs/sub/jaqal_gates.py", gate_module(["Y"]))
        w("S/e16absn.py", "x = 1\n")
        w("S/e16absb.py", "raise ImportError('broken on purpose')\n")

    def write(self, rel, content):
        p = os.path.join(self.tmp, rel)
        os.makedirs(os.path.dirname(p), exist_ok=True)
        with open(p, "w") as f:
            f.write(content)

    def dirs(self):
        return {"A": self.A, "B": self.B, "S": self.S, "none": os.path.join(self.tmp, "nonexistent")}

    def close(self):
        shutil.rmtree(self.tmp, ignore_errors=True)


BODY_X = "register q[2]\nprepare_all\nX q[0]\nmeasure_all\n"
BODY_Y = "register q[2]\nprepare_all\nY q[1]\nmeasure_all\n"
BODY_BAD = "register q[2]\nprepare_all\nnosuchgate q[0]\nmeasure_all\n"


def import_alphabet():
    """-> list of calls; `expect` (by construction of the trees) is the category of the outcome in a pristine process"""
    A = []

    def imp(mod, d="A", body=BODY_X, kind="autoload", expect=None, **kw):
        A.append(dict({"stream": "import", "kind": kind, "dir": d, "module": mod, "text": f"from {mod} usepulses *\n" + body, "expect": expect}, **kw))
    # relative, import path A
    imp(".e16p", expect="ok")
    imp(".e16p", kind="run_string", expect="ok")
    imp(".e16p", kind="parse_file", expect="ok")
    imp(".e16p", body=BODY_BAD, expect="jaqal")
    imp(".e16p.std", expect="ok")
    imp(".e16p.std", body="register q[2]\nprepare_all\nCX q[0] q[1]\nmeasure_all\n", expect="jaqal")      # std has no CX
    imp(".e16p.std.deep", expect="ok")
    imp(".e16p.std.deep", body=BODY_Y, expect="jaqal")                                                      # deep has only X
    imp(".e16p.std.v2", expect="import")
    imp(".e16p.std.deep.v3", expect="import")
    imp(".e16p.nosuch.deep", expect="import")
    imp(".e16p.std.broken", expect="import")
    imp(".e16p.std.nog", expect="import")
    imp(".e16p.jaqal_gates", expect="import")
    imp(".e16f", expect="ok")
    imp(".e16f", kind="run_file", expect="ok")
    imp(".e16f.sub", expect="import")
    imp(".e16b", expect="import")
    imp(".e16n", expect="import")
    imp(".e16init", expect="import")
    imp(".e16init.sub", expect="import")
    imp(".nosuch", expect="import")
    imp(".nosuch.sub.sub", expect="import")
    # relative, import path B (same names, other contents) and a missing import path
    imp(".e16p", d="B", expect="jaqal")                                                                     # B's e16p has only Y
    imp(".e16p", d="B", body=BODY_Y, expect="ok")
    imp(".e16p.std", d="B", expect="import")
    imp(".e16f", d="B", expect="import")
    imp(".e16n", d="B", expect="ok")
    imp(".e16p", d="none", expect="import")
    # absolute
    imp("e16p", expect="import")
    imp("e16p.std", expect="import")
    imp("e16p.std.deep", expect="import")
    imp("e16p.std", kind="run_string", expect="import")
    imp("e16f", expect="import")
    imp("e16init", expect="import")
    imp("e16init.sub", expect="import")
    imp("nosuch.sub", expect="import")
    imp("e16abs", expect="ok")
    imp("e16abs", body=BODY_BAD, expect="jaqal")
    imp("e16abs.sub", body=BODY_Y, expect="ok")
    imp("e16abs.sub", expect="jaqal")
    imp("e16abs.nosuch", expect="import")
    imp("e16absn", expect="import")
    imp("e16absb", expect="import")
    imp("os.path", expect="import")
    imp("json", expect="import")
    imp("jaqalpaq.core", expect="import")
    # relative names of modules that are already imported
    imp(".json", expect="import")
    imp(".jaqalpaq.core", expect="import")
    imp(".harness", expect="import")
    # two statements
    A.append({"stream": "import", "kind": "autoload", "dir": "A", "module": ".e16p.std.deep+.e16p", "expect": "ok",
              "text": "from .e16p.std.deep usepulses *\nfrom .e16p usepulses *\n" + BODY_Y})
    A.append({"stream": "import", "kind": "autoload", "dir": "A", "module": ".e16p+.e16p.std.v2", "expect": "import",
              "text": "from .e16p usepulses *\nfrom .e16p.std.v2 usepulses *\n" + BODY_X})
    A.append({"stream": "import", "kind": "autoload", "dir": "A", "module": ".e16f+e16abs.sub", "expect": "ok",
              "text": "from .e16f usepulses *\nfrom e16abs.sub usepulses *\n" + BODY_X})
    # ordinary calls between them
    A.append({"stream": "import", "kind": "parse", "gs": True, "flags": {}, "module": "-", "text": BODY_X, "expect": "ok"})
    A.append({"stream": "import", "kind": "run", "gs": True, "module": "-", "text": BODY_X, "expect": "ok"})
    A.append({"stream": "import", "kind": "autoload", "dir": "A", "module": "-", "text": BODY_X, "expect": "jaqal"})       # no gate set at all
    A.append({"stream": "import", "kind": "parse", "gs": True, "flags": {}, "module": "-", "text": "register q[2]\nloop 2 {", "expect": "parse"})
    A.append({"stream": "import", "kind": "parse", "gs": True, "flags": {"expand_macro": True}, "module": "-", "text": "register q[2]\nX q[5] $\n", "expect": "parse"})
    A.append({"stream": "import", "kind": "run", "gs": True, "module": "-", "text": "register q[2]\nX q[0]\n", "expect": "jaqal"})
    A.append({"stream": "import", "kind": "parse", "gs": True, "flags": {}, "module": "-", "text": "register q[2]\n" + "loop 1 {" * 400 + "}" * 400, "expect": "jaqal"})
    A.append({"stream": "import", "kind": "header", "module": "-", "text": "from .e16p.std.v2 usepulses *\nlet x 1\nregister q[2]\nX q[0]\n", "expect": "ok"})
    if INCLUDE_SHADOWED_INSTALLED:
        A += shadowed_calls()
    return A


def shadowed_calls():
    out = []
    for mod, exp in ((".colorsys", "ok"), ("colorsys", "import"), (".e16abs", "ok")):
        out.append({"stream": "import", "kind": "autoload", "dir": "A", "module": mod, "text": f"from {mod} usepulses *\n" + BODY_X, "expect": exp})
    return out


def euler_sequence(nn, rng):
    """a random closed walk over the complete directed graph with loops on `nn` nodes that uses every edge once:
    every ordered pair (a, b), a == b included, occurs adjacently"""
    nxt = {a: list(range(nn)) for a in range(nn)}
    for a in nxt:
        rng.shuffle(nxt[a])
    start = rng.randrange(nn)
    stack, circuit = [start], []
    while stack:
        v = stack[-1]
        if nxt[v]:
            stack.append(nxt[v].pop())
        else:
            circuit.append(stack.pop())
    return circuit[::-1]


# ------------------------------------------------------------------------------------------------ executing one call (worker side)

def digest(x):
    return hashlib.sha1(json.dumps(x, sort_keys=True, default=str).encode()).hexdigest()[:16]


def classify(e):
    if isinstance(e, D._Timeout):
        return {"err": "hang", "cat": "hang"}
    if isinstance(e, D.JaqalParseError):
        pos = [e.line if isinstance(e.line, (int, str)) else repr(e.line), e.column if isinstance(e.column, int) else repr(e.column)]
        return {"err": type(e).__name__, "cat": "parse", "pos": pos, "msg": str(e)[:160]}
    if isinstance(e, D.JaqalError):
        return {"err": type(e).__name__, "cat": "jaqal", "msg": str(e)[:160]}
    if isinstance(e, ImportError):
        return {"err": type(e).__name__, "cat": "import", "msg": str(e)[:160]}
    return {"err": type(e).__name__, "cat": "other", "msg": str(e)[:160]}


def _ok_circuit(c):
    d, e = D.watched(lambda: C01.dumpc(c))
    gates = sorted(c.native_gates) if e is None else []
    return {"ok": digest(d) if e is None else "undumpable:" + type(e).__name__, "gates": gates}


_file_counter = [0]


def exec_call(call, dirs):
    """-> canonical outcome json (never raises)"""
    kind = call["kind"]
    text = call["text"]
    gs = call.get("gs", True)
    ip = dirs.get(call.get("dir")) if call.get("dir") else None
    ovd = {k: v for k, v in call["override"]} if call.get("override") else None

    def with_file(f):
        _file_counter[0] += 1
        fn = os.path.join(ip, f"prog_{os.getpid()}_{_file_counter[0]}.jaqal")
        with open(fn, "w", encoding="utf-8", newline="") as fd:
            fd.write(text)
        try:
            return f(fn)
        finally:
            try:
                os.unlink(fn)
            except OSError:
                pass

    if kind == "parse":
        kw = dict(call.get("flags", {}))
        if ovd is not None:
            kw["override_dict"] = ovd
        v, e = D.watched(lambda: D.parse(text, gs, **kw))
        if e is None:
            return _ok_circuit(v[0] if kw.get("return_usepulses") else v)
        return classify(e)
    if kind == "header":
        v, e = D.watched(lambda: D.parse_jaqal_string_header(text))
        return _ok_circuit(v) if e is None else classify(e)
    if kind == "autoload":
        v, e = D.watched(lambda: D.parse_jaqal_string(text, autoload_pulses=True, import_path=ip))
        return _ok_circuit(v) if e is None else classify(e)
    if kind == "parse_file":
        from jaqalpaq.parser.parser import parse_jaqal_file
        if "usepulses" in text:
            v, e = D.watched(lambda: with_file(lambda fn: parse_jaqal_file(fn, autoload_pulses=True)))
        else:
            v, e = D.watched(lambda: with_file(lambda fn: parse_jaqal_file(fn, inject_pulses=D.GATES, autoload_pulses=False)))
        return _ok_circuit(v) if e is None else classify(e)
    if kind in ("run", "run_string", "run_file", "output_list"):
        def f():
            if kind == "run":
                c = D.parse(text, gs)
                res = D.run_circuit(c, call.get("override") or [])
            elif kind == "output_list":
                c = D.parse(text, gs)
                res = D.parse_jaqal_output_list(c, call["output"])
                return {"subcircuits": len(res.subcircuits), "readouts": [[r.subcircuit.index, r.as_int] for r in res.readouts]}
            elif kind == "run_string":
                res = D.run_jaqal_string(text, import_path=ip)
                c = None
            else:
                from jaqalpaq.run.run import run_jaqal_file
                res = with_file(lambda fn: run_jaqal_file(fn))
                c = None
            out = {"subcircuits": len(res.subcircuits), "visits": [r.subcircuit.index for r in res.readouts]}
            if c is not None:
                out["summary"] = D.summary(c, call.get("override") or [], res)
            else:
                out["probs"] = [[round(float(p), 9) for p in sc.simulated_probability_by_int] for sc in res.subcircuits]
            return out
        v, e = D.watched(f)
        return {"ok": digest(v), "n": v.get("subcircuits")} if e is None else classify(e)
    raise ValueError(kind)


def canon(out):
    """what must not depend on the history: class and position of an error, digest of a result"""
    if out is None:
        return None
    return {k: v for k, v in out.items() if k != "msg"}


# ------------------------------------------------------------------------------------------------ worker

def _session_in_child(idxs, calls, dirs, budget):
    r, w = os.pipe()
    pid = os.fork()
    if pid == 0:
        code = 0
        try:
            os.close(r)
            outs = []
            hangs = 0
            for i in idxs:
                if hangs >= MAX_HANGS:
                    outs.append({"cat": "skipped"})
                    continue
                try:
                    outs.append(exec_call(calls[i], dirs))
                except BaseException as e:  # noqa
                    outs.append({"err": type(e).__name__, "cat": "other", "msg": "harness: " + str(e)[:160]})
                hangs += outs[-1].get("cat") == "hang"
            data = json.dumps(outs).encode()
            off = 0
            while off < len(data):
                off += os.write(w, data[off:off + 65536])
        except BaseException:  # noqa
            code = 3
        finally:
            os._exit(code)
    os.close(w)
    chunks = []
    deadline = time.time() + budget
    dead = False
    while True:
        left = deadline - time.time()
        if left <= 0:
            dead = True
            break
        rl, _, _ = select.select([r], [], [], min(left, 5))
        if rl:
            b = os.read(r, 1 << 20)
            if not b:
                break
            chunks.append(b)
    os.close(r)
    if dead:
        try:
            os.kill(pid, signal.SIGKILL)
        except OSError:
            pass
    os.waitpid(pid, 0)
    try:
        outs = json.loads(b"".join(chunks).decode())
        if len(outs) == len(idxs):
            return outs
    except ValueError:
        pass
    why = "hang" if dead else "died"
    return [{"err": "child_" + why, "cat": "hang" if dead else "other", "msg": "the forked child did not answer"} for _ in idxs]


def worker_main(job_file, out_file):
    """job: {"dirs":…, "sys_path":[…], "calls":[…], "forked":[[index,…],…], "inproc":[index,…]}.
    The forked sessions run first, each in a child forked from this (pristine) process; then the in-process sequence runs in
    this process itself - its history is the sequence."""
    with open(job_file) as f:
        job = json.load(f)
    _imports()
    sys.dont_write_bytecode = True
    for p in job.get("sys_path", []):
        sys.path.insert(0, p)
    import importlib
    importlib.invalidate_caches()
    os.chdir("/")
    lim = T.limit()
    forked = []
    for idxs in job.get("forked", []):
        # at most a few real hangs per session are waited for in full; then the alarm budget drops (harness.timeouts)
        forked.append(_session_in_child(idxs, job["calls"], job["dirs"], budget=min(len(idxs), 4) * (lim + 5) + 0.05 * len(idxs) + 60))
    inproc = []
    hangs = 0
    for i in job.get("inproc", []):
        if hangs >= MAX_HANGS:
            # a tree on which many inputs hang: four witnesses are enough, do not spend an hour on the rest
            inproc.append({"cat": "skipped"})
            continue
        try:
            inproc.append(exec_call(job["calls"][i], job["dirs"]))
        except BaseException as e:  # noqa
            inproc.append({"err": type(e).__name__, "cat": "other", "msg": "harness: " + str(e)[:160]})
        hangs += inproc[-1].get("cat") == "hang"
    with open(out_file + ".tmp", "w") as f:
        json.dump({"forked": forked, "inproc": inproc}, f)
    os.replace(out_file + ".tmp", out_file)


def run_workers(calls, jobs, trees, timeout=1500):
    """jobs: [{"forked": [[…]…], "inproc": […]}]; one fresh interpreter per job, all in parallel; -> the answers in order"""
    root = _root()
    env = dict(os.environ, PYTHONPATH=root + os.pathsep + os.environ.get("PYTHONPATH", ""), JAQALPAQ_RUN_EMULATOR="1",
               OPENBLAS_NUM_THREADS="1", OMP_NUM_THREADS="1", MKL_NUM_THREADS="1")
    procs = []
    _job_counter[0] += 1
    for k, j in enumerate(jobs):
        # every worker gets only the calls it needs
        need = sorted({i for s_ in j.get("forked", []) for i in s_} | set(j.get("inproc", [])))
        remap = {i: m for m, i in enumerate(need)}
        job = {"dirs": trees.dirs(), "sys_path": [trees.S], "calls": [calls[i] for i in need],
               "forked": [[remap[i] for i in s_] for s_ in j.get("forked", [])], "inproc": [remap[i] for i in j.get("inproc", [])]}
        jf = os.path.join(trees.tmp, f"job_{_job_counter[0]}_{k}.json")
        of = os.path.join(trees.tmp, f"out_{_job_counter[0]}_{k}.json")
        with open(jf, "w") as f:
            json.dump(job, f)
        ef = open(os.path.join(trees.tmp, f"err_{_job_counter[0]}_{k}.txt"), "w+")
        procs.append((subprocess.Popen([sys.executable, "-W", "ignore", os.path.abspath(__file__), "--worker", jf, of], env=env,
                                       stdin=subprocess.DEVNULL, stdout=subprocess.DEVNULL, stderr=ef), of, ef))
    deadline = time.time() + timeout
    out = []
    for proc, of, ef in procs:
        try:
            proc.wait(timeout=max(1, deadline - time.time()))
        except subprocess.TimeoutExpired:
            proc.kill()
            proc.wait()
        if not os.path.exists(of):
            ef.seek(0)
            err = ef.read()[-2000:]
            for p2, _o, _e in procs:
                if p2.poll() is None:
                    p2.kill()
            raise RuntimeError("c16_edge worker failed: " + err)
        with open(of) as f:
            out.append(json.load(f))
        ef.close()
    return out


_job_counter = [0]


def run_sessions(calls, sessions, trees):
    """every session in a child forked from a pristine interpreter; -> list of outcome lists"""
    if not sessions:
        return []
    return run_workers(calls, [{"forked": sessions}], trees)[0]["forked"]


# ------------------------------------------------------------------------------------------------ oracles on outcomes

ORACLES = ("only_jaqalerror_or_importerror", "terminates", "parse_error_has_position", "offending_token_position",
           "ends_too_early_is_parse_error", "no_sticky_state")


class Acc:
    def __init__(self):
        self.oracle = {k: {"cases": 0, "failures": []} for k in ORACLES}
        self.dist = Counter()
        self.seen = set()

    def fail(self, name, case, detail):
        o = self.oracle[name]
        key = (name, digest(case))
        if key in self.seen:
            return
        self.seen.add(key)
        if len(o["failures"]) < 20:
            o["failures"].append({"case": case, "detail": detail})
        else:
            o["more_failures"] = o.get("more_failures", 0) + 1

    def per_call(self, call, out, count=True):
        """the oracles that look at one outcome"""
        o = self.oracle
        if count:
            o["only_jaqalerror_or_importerror"]["cases"] += 1
            o["terminates"]["cases"] += 1
        cat = out.get("cat", "ok")
        if cat == "hang":
            self.fail("terminates", call, f"no answer within the time limit ({out.get('err')})")
            return
        if cat == "other":
            self.fail("only_jaqalerror_or_importerror", call, f"{out.get('err')}: {out.get('msg')}")
        if cat == "import":
            loads = call["kind"] in ("autoload", "run_string", "run_file") or (call["kind"] == "parse_file" and "usepulses" in call["text"])
            if not loads or "usepulses" not in call["text"]:
                self.fail("only_jaqalerror_or_importerror", call, f"ImportError from a call that names / loads no pulse module: {out.get('msg')}")
        if cat == "parse":
            if count:
                o["parse_error_has_position"]["cases"] += 1
            line, col = out["pos"]
            if line == "EOF":
                if col != 0:
                    self.fail("parse_error_has_position", call, f"EOF error with column {col!r}")
            elif not isinstance(line, int) or not isinstance(col, int):
                self.fail("parse_error_has_position", call, f"position ({line!r}, {col!r}) is not a pair of integers")
            elif (line, col) not in D.own_token_starts(call["text"]):
                self.fail("parse_error_has_position", call, f"({line}, {col}) is not the start of a token of the text")

    def expectation(self, call, out, reference_ok):
        """syntax stream: the text is wrong by construction"""
        exp = call.get("expect")
        if not exp or call.get("stream") != "syntax" or not reference_ok:
            return
        cat = out.get("cat", "ok")
        if cat in ("hang",):
            return
        if exp[0] == "at":
            self.oracle["offending_token_position"]["cases"] += 1
            want = [exp[1], exp[2]]
            if cat != "parse":
                self.fail("offending_token_position", call, f"{call['how']} at {want}: expected JaqalParseError, got {json.dumps(out)[:200]}")
            elif out["pos"] != want:
                self.fail("offending_token_position", call, f"{call['how']}: the offending token is at {want}, reported {out['pos']}")
        else:
            self.oracle["ends_too_early_is_parse_error"]["cases"] += 1
            if cat != "parse":
                self.fail("ends_too_early_is_parse_error", call, f"{call['how']}: expected JaqalParseError, got {json.dumps(out)[:200]}")
            else:
                line, col = out["pos"]
                if line != "EOF" and not (isinstance(line, int) and isinstance(col, int) and (line, col) >= (exp[1], exp[2])):
                    self.fail("ends_too_early_is_parse_error", call,
                              f"{call['how']}: every token of the text is the prefix of a valid program, but the error is reported at {out['pos']} "
                              f"(the last token starts at {[exp[1], exp[2]]})")

    def import_expectation(self, call, out):
        exp = call.get("expect")
        if call.get("stream") != "import" or exp is None:
            return
        self.oracle["only_jaqalerror_or_importerror"]["cases"] += 1
        cat = out.get("cat", "ok")
        if cat != exp and cat not in ("hang", "other"):
            what = {"ok": "the module exists and defines the gates the program uses", "import": "the module cannot be found / has no gate set",
                    "jaqal": "the module exists but the program is not valid with its gates", "parse": "the text has a syntax error"}[exp]
            self.fail("only_jaqalerror_or_importerror", call, f"by construction of the module tree {what}: expected {exp}, got {json.dumps(out)[:200]}")


# ------------------------------------------------------------------------------------------------ run

def _slim(call):
    c = dict(call)
    if len(c.get("text", "")) > 6000:
        c["text_note"] = f"{len(c['text'])} characters"
    return c


def build_jobs(seed, n, thorough):
    """-> (calls, features per call, jobs, plan); a job is the work of one fresh interpreter:
    {"forked": [sessions from the pristine state], "inproc": one long history run in the interpreter itself}"""
    calls, feats = [], []

    def add(c, f):
        calls.append(c)
        feats.append(f)
        return len(calls) - 1

    plan = {}
    num = [add(c, f) for c, f in numeric_calls(seed, n, thorough)]
    syn = [add(c, f) for c, f in syntax_calls(seed, max(4, n // 3), thorough)]
    alpha = [add(c, ["imp:" + c["kind"]]) for c in import_alphabet()]
    plan.update(num=num, syn=syn, alpha=alpha)
    na = len(alpha)
    r = random.Random(f"{seed}:c16edge:order")
    second = list(num)
    r.shuffle(second)
    if not thorough:
        second = second[: len(second) // 4]
    eul = [alpha[j] for j in euler_sequence(na, random.Random(f"{seed}:c16edge:euler:0"))]
    half = len(eul) // 2
    shorts = []
    for j in range(40 if thorough else 3):
        rr = random.Random(f"{seed}:c16edge:short:{j}")
        shorts.append([alpha[rr.randrange(na)] for _ in range(rr.choice([2, 3, 3, 4, 5]))])
    if not thorough:
        # three interpreters: the numeric and syntax streams | half of the pairs, after three short pristine histories |
        # the other half of the pairs followed by a quarter of the numeric stream in another order
        nh = len(num) // 2
        jobs = [{"inproc": num[:nh] + syn}, {"inproc": num[nh:]},
                {"forked": shorts, "inproc": eul[:half + 1]},
                {"inproc": eul[half:] + second}]
    else:
        eul2 = [alpha[j] for j in euler_sequence(na, random.Random(f"{seed}:c16edge:euler:1"))]
        chunks = [eul2[k:k + 126] for k in range(0, len(eul2) - 1, 125)]
        q = len(num) // 4
        jobs = [{"inproc": num[:q] + syn}, {"inproc": num[q:2 * q]}, {"inproc": num[2 * q:3 * q]}, {"inproc": num[3 * q:]},
                {"inproc": eul + second[: len(second) // 3]},
                {"inproc": second[len(second) // 3: 2 * len(second) // 3]}, {"inproc": second[2 * len(second) // 3:]},
                {"forked": chunks[0::2]}, {"forked": chunks[1::2]},
                {"forked": [[i] for i in alpha]}, {"forked": shorts}]
    return calls, feats, jobs, plan


def minimise(calls, hist, trees, want):
    """hist: call indices; the outcome of the LAST call differs from `want` (its outcome alone); -> a short history showing it"""
    target = hist[-1]
    cands = []
    if len(hist) >= 3:
        cands.append([hist[-2], target])
    if len(hist) >= 4:
        cands.append([hist[-3], hist[-2], target])
    outs = run_sessions(calls, cands, trees)
    for c, o in zip(cands, outs):
        if canon(o[-1]) != want:
            return c
    # greedy removal of blocks of the prefix (bounded number of worker launches)
    cur = list(hist)
    step = max(1, (len(cur) - 1) // 2)
    tries = 0
    while step >= 1 and tries < 5 and len(cur) > 2:
        pre = cur[:-1]
        trial = [pre[:k] + pre[k + step:] + [target] for k in range(0, len(pre), step)][:8]
        trial = [t for t in trial if len(t) < len(cur)]
        if not trial:
            break
        outs = run_sessions(calls, trial, trees)
        tries += 1
        hit = [t for t, o in zip(trial, outs) if canon(o[-1]) != want]
        if hit:
            cur = min(hit, key=len)
            step = min(step, max(1, (len(cur) - 1) // 2))
        else:
            step //= 2
    return cur


def explain(calls, i, hists, trees):
    """call i gave different outcomes in the histories `hists` (lists of call indices ending in i): find one that differs
    from the outcome of i alone in a pristine process and minimise it; -> (alone, got, history) or None when all agree now"""
    # the cheap candidates first: the call alone, and the last two / three calls of each history
    tails = [h[-k:] for h in hists for k in (2, 3) if len(h) > k]
    res = run_sessions(calls, [[i]] + tails, trees)
    alone = canon(res[0][0])
    for h, outs in zip(tails, res[1:]):
        if canon(outs[-1]) != alone:
            return alone, canon(outs[-1]), h
    # one earlier call may be enough, however long ago it was made: [x, i] for the distinct calls x of the histories
    # (the most recent 96), spread over eight interpreters
    distinct = []
    for h in hists:
        for x in reversed(h[:-1]):
            if x not in distinct:
                distinct.append(x)
    pairs = [[x, i] for x in distinct[:96]]
    if pairs:
        nw = min(8, len(pairs))
        res = run_workers(calls, [{"forked": pairs[k::nw]} for k in range(nw)], trees)
        for k, a in enumerate(res):
            for pr, outs in zip(pairs[k::nw], a["forked"]):
                if canon(outs[-1]) != alone:
                    return alone, canon(outs[-1]), pr
    res = run_workers(calls, [{"forked": [h]} for h in hists], trees)
    for h, a in zip(hists, res):
        got = canon(a["forked"][0][-1])
        if got != alone:
            return alone, got, minimise(calls, h, trees, alone)
    return None


def run(seed: int, n: int, driver: str = DEFAULT_DRIVER, thorough: bool = False) -> dict:
    _imports()
    acc = Acc()
    trees = Trees()
    samples = []
    try:
        calls, feats, jobs, plan = build_jobs(seed, n, thorough)
        answers = run_workers(calls, jobs, trees)
        # ---- every history that was run: (label, call indices, outcomes)
        hists = []
        for k, (j, a) in enumerate(zip(jobs, answers)):
            for idxs, outs in zip(j.get("forked", []), a["forked"]):
                hists.append((f"pristine:{len(idxs) if len(idxs) < 6 else '6+'}", idxs, outs))
            if j.get("inproc"):
                hists.append((f"interpreter_{k}", j["inproc"], a["inproc"]))
        skipped = sum(o.get("cat") == "skipped" for _l, _i, outs in hists for o in outs)
        if skipped:
            acc.dist["skipped_after_%d_hangs_in_one_interpreter" % MAX_HANGS] = skipped
            hists = [(lb, [i for i, o in zip(idxs, outs) if o.get("cat") != "skipped"], [o for o in outs if o.get("cat") != "skipped"])
                     for lb, idxs, outs in hists]
        # ---- reference outcome of a call: alone in a pristine process when that was run, else its first occurrence
        ref, ref_hist = {}, {}
        for label, idxs, outs in hists:
            if len(idxs) == 1 and label.startswith("pristine"):
                ref[idxs[0]] = outs[0]
                ref_hist[idxs[0]] = [idxs[0]]
        for label, idxs, outs in hists:
            for pos, (i, o) in enumerate(zip(idxs, outs)):
                if i not in ref:
                    ref[i] = o
                    ref_hist[i] = idxs[:pos + 1]
        # ---- per-call oracles: every outcome of every history (a call is COUNTED once)
        counted = set()
        for label, idxs, outs in hists:
            acc.dist["history:" + label.split("_")[0]] += 1
            for i, o in zip(idxs, outs):
                acc.per_call(_slim(calls[i]), o, count=i not in counted)
                if i not in counted:
                    counted.add(i)
                    for f in feats[i]:
                        acc.dist[f] += 1
                    acc.dist["outcome:" + o.get("cat", "ok")] += 1
                    if o.get("cat", "ok") != "ok":
                        acc.dist["error_class:" + str(o.get("err"))] += 1
        # ---- the syntax stream
        ref_ok = {}
        for i in plan["syn"]:
            if calls[i].get("role") == "reference" and i in ref:
                ref_ok[calls[i]["group"]] = ref[i].get("cat", "ok") == "ok"
        acc.dist["syn:reference_accepted"] = sum(ref_ok.values())
        for i in plan["syn"]:
            c = calls[i]
            if c.get("role") != "reference" and i in ref:
                acc.expectation(_slim(c), ref[i], ref_ok.get(c["group"], False))
        # ---- the import alphabet: what the module tree was built to give
        for i in plan["alpha"]:
            if i in ref:
                acc.import_expectation(calls[i], ref[i])
        # ---- histories: the same call, the same outcome
        todo = []
        for label, idxs, outs in hists:
            for pos, (i, o) in enumerate(zip(idxs, outs)):
                acc.oracle["no_sticky_state"]["cases"] += 1
                if canon(o) != canon(ref[i]):
                    todo.append((i, label, canon(ref[i]), canon(o), [idxs[:pos + 1], ref_hist[i]]))
        explained, reported = 0, set()
        for i, label, want, got, hh in todo:
            key = (i, json.dumps(got, sort_keys=True))
            if key in reported:
                acc.oracle["no_sticky_state"]["more_failures"] = acc.oracle["no_sticky_state"].get("more_failures", 0) + 1
                continue
            reported.add(key)
            hist, alone = hh[0], want
            if explained < 3:
                explained += 1
                try:
                    ex = explain(calls, i, [h for h in hh if len(h) > 1], trees)
                    if ex is not None:
                        alone, got, hist = ex
                        for k2 in (i,):
                            reported.add((k2, json.dumps(got, sort_keys=True)))
                except BaseException as e:  # noqa
                    acc.dist["explain_failed:" + type(e).__name__] += 1
            if len(hist) > 40:
                hist = hist[-40:]
            case = {"kind": "history", "stream": label, "calls": [_slim(calls[k]) for k in hist]}
            names = " ; ".join((calls[k].get("module") or calls[k].get("template") or calls[k]["kind"]) + "@" + str(calls[k].get("dir", "-")) for k in hist[-4:])
            acc.fail("no_sticky_state", case, f"the last call gives {json.dumps(alone)[:160]} alone in a pristine process (or at its first occurrence), "
                                              f"but {json.dumps(got)[:160]} after the history (its tail): {names}")
        for i in (plan["num"][:2] + plan["syn"][1:3] + plan["alpha"][:2]):
            samples.append({"case": _slim(calls[i]), "outcome": ref.get(i)})
        nontrivial = len({digest([c.get("kind"), c.get("text"), c.get("flags"), c.get("override"), c.get("dir"), c.get("output")]) for c in calls})
        acc.dist["calls"] = len(calls)
        acc.dist["calls_executed"] = sum(len(idxs) for _l, idxs, _o in hists)
        acc.dist["interpreters"] = len(jobs)
        acc.dist["import_alphabet"] = len(plan["alpha"])
        acc.dist["import_pairs_adjacent"] = len({(a, b) for _l, idxs, _o in hists for a, b in zip(idxs, idxs[1:])
                                                 if calls[a].get("stream") == "import" and calls[b].get("stream") == "import"})
        acc.dist["shadowed_installed_included"] = int(INCLUDE_SHADOWED_INSTALLED)
    finally:
        trees.close()
    return {"corr": {}, "oracle": acc.oracle, "distribution": dict(sorted(acc.dist.items())), "samples": samples, "nontrivial": nontrivial}


def replay(case: dict, driver: str = DEFAULT_DRIVER) -> dict:
    """one call (all per-call oracles, its outcome alone and after a failing + a succeeding call) or one history"""
    _imports()
    trees = Trees()
    try:
        acc = Acc()
        if case.get("kind") == "history":
            calls = case["calls"]
            n = len(calls)
            res = run_sessions(calls, [list(range(n))] + [[i] for i in range(n)], trees)
            hist, singles = res[0], [r[0] for r in res[1:]]
            for c, o in zip(calls, hist):
                acc.per_call(c, o)
            diffs = [i for i in range(n) if canon(hist[i]) != canon(singles[i])]
            fails = [dict(f, oracle=k) for k, o in acc.oracle.items() for f in o["failures"]]
            detail = "; ".join(f"{f['oracle']}: {f['detail']}" for f in fails)
            for i in diffs:
                detail += (f"; no_sticky_state: call {i} ({calls[i].get('module') or calls[i]['kind']}) gives {json.dumps(canon(singles[i]))[:200]} alone, "
                           f"{json.dumps(canon(hist[i]))[:200]} in the history")
            return {"model": None, "impl": {"history": hist, "alone": singles}, "oracle_ok": not diffs and not fails, "detail": detail[:3000]}
        calls = [case, {"kind": "parse", "gs": True, "flags": {}, "text": "register q[2]\nloop 2 {"},
                 {"kind": "autoload", "dir": "A", "text": "from .e16p.std.v2 usepulses *\n" + BODY_X},
                 {"kind": "run", "gs": True, "text": BODY_X}]
        res = run_sessions(calls, [[0], [1, 2, 3, 0, 0]], trees)
        alone, after = res[0][0], res[1][3:]
        acc.per_call(case, alone)
        acc.expectation(case, alone, True)
        acc.import_expectation(case, alone)
        fails = [dict(f, oracle=k) for k, o in acc.oracle.items() for f in o["failures"]]
        detail = "; ".join(f"{f['oracle']}: {f['detail']}" for f in fails)
        for o in after:
            if canon(o) != canon(alone):
                detail += f"; no_sticky_state: alone {json.dumps(canon(alone))[:200]}, after other calls {json.dumps(canon(o))[:200]}"
                break
        ok = not fails and all(canon(o) == canon(alone) for o in after)
        return {"model": None, "impl": alone, "oracle_ok": ok, "detail": detail[:3000]}
    finally:
        trees.close()


def probe_open_findings() -> dict:
    """the open finding `shadowed_installed_module` on the current tree"""
    _imports()
    trees = Trees()
    try:
        calls = shadowed_calls() + [c for c in import_alphabet() if c.get("module") == "e16abs" and c["expect"] == "ok"]
        rel_c, abs_c, rel_e, abs_e = 0, 1, 2, 3
        sessions = [[rel_c], [abs_c, rel_c], [rel_c, abs_c, rel_c], [rel_e], [abs_e, rel_e], [rel_e, abs_e, rel_e]]
        res = run_sessions(calls, sessions, trees)
        out = {}
        for name, alone, after in (("stdlib_module_after_failing_absolute_import", res[0][0], res[1][1]),
                                   ("stdlib_module_relative_absolute_relative", res[0][0], res[2][2]),
                                   ("installed_package_after_succeeding_absolute_import", res[3][0], res[4][1]),
                                   ("installed_package_relative_absolute_relative", res[3][0], res[5][2])):
            out[name] = {"alone": canon(alone), "after": canon(after), "msg_after": after.get("msg"), "violates": canon(alone) != canon(after)}
        return out
    finally:
        trees.close()


def main():
    if "--worker" in sys.argv:
        k = sys.argv.index("--worker")
        worker_main(sys.argv[k + 1], sys.argv[k + 2])
        return
    ap = argparse.ArgumentParser()
    ap.add_argument("--driver", default=DEFAULT_DRIVER)
    ap.add_argument("--n", type=int, default=150)
    ap.add_argument("--seed", type=int, default=0)
    ap.add_argument("--thorough", action="store_true")
    ap.add_argument("--json", action="store_true")
    ap.add_argument("--open-findings", action="store_true")
    a = ap.parse_args()
    if a.open_findings:
        print(json.dumps(probe_open_findings(), indent=1))
        return
    t0 = time.time()
    res = run(a.seed, a.n, a.driver or None, a.thorough)
    if a.json:
        print(json.dumps(res))
        return
    for k, r in res["oracle"].items():
        print(f"oracle {k}: {r['cases']} cases, {len(r['failures']) + r.get('more_failures', 0)} failures")
        for d in r["failures"][:6]:
            print("   ", json.dumps(d)[:900])
    print("nontrivial:", res["nontrivial"], " time: %.1f s" % (time.time() - t0))
    for k, v in res["distribution"].items():
        print(f"  {k}: {v}")


if __name__ == "__main__":
    main()
