#!/venv/bin/python
"""C08 on EDGE VALUES and on the OBJECT-LEVEL PATHS that no other C08 stream produces.

walk_diff / extra_c08 / c08_history generate TEXT programs with at most five statements per block, counts 0..3,
one register of fixed size, and give them to the emulator / the output-list parser once they went through
parse_jaqal_string.  Here one abstract program (a JSON tree) is RENDERED through one of four construction paths

    text      parse_jaqal_string
    sexpr     circuitbuilder.build(S-expression)            (tuples or lists)
    builder   CircuitBuilder / SequentialBlockBuilder / SubcircuitBlockBuilder / UnscheduledBlockBuilder
    core      Circuit / Register / Constant / Macro / LoopStatement / BlockStatement(...) called directly,
              gate definitions called positionally or by keyword, optionally one statement OBJECT used at
              several places of the tree

optionally pre-processed by the caller (expand_subcircuits / fill_in_let / all three passes), and then observed
through run_jaqal_circuit (default backend or an explicit UnitarySerializedEmulator) and through
parse_jaqal_output_list.  The programs come from streams that each push one dimension to its edge:

    zero   falsy counts everywhere: literal 0, let 0, a positive let overridden to 0 and a zero let overridden
           to a positive value (so `x or default` slips show in either direction), zero-count loops first /
           last / nested / around everything, empty loop bodies and empty blocks, programs without any
           subcircuit, programs none of whose subcircuits is ever visited, integral FLOAT let values
           (2.0, 0.0, -0.0) as counts
    wide   blocks of 10..14 statements (statement indices >= 10 inside tree addresses), subcircuits and loops
           at those indices, also inside loop bodies
    deep   nesting depth 5..12 (30 in the thorough tier) of loops and (object-level only) sequential blocks
           nested directly in each other
    big    loops of 100..1000 (65535..65537 thorough) visits; astronomically large counts (2**31 .. 10**30,
           literal, let-valued and overridden) on loops that execute nothing (empty body, or nested in a
           zero-count loop) - the walk must not be proportional to them; registers of 8..17 (20) qubits with
           extreme output values for the output-list parser
    api    what only the object-level API can express: UnscheduledBlockStatement (as a loop body, nested,
           at top level), sequential blocks nested in loop bodies and in each other, user subclasses of
           BlockStatement / LoopStatement, several fundamental registers (output-list parser only: the
           emulator documents that it refuses them), shared statement objects, keyword gate calls
    mix    interactions: a macro parameter as loop count with argument 0 / a let equal to 0, the same let as
           register size and loop count, the same let as qubit index 0 and loop count 0, a macro whose body
           is a loop around a subcircuit called with counts 0/1/2 at several depths, double prepare_all

Every observation is judged against an independent reference computed from the JSON tree (visit sequence by
unrolling, flat numbering, and for every subcircuit the measured bits that are determined classically).

oracle (corr is empty):
  edge_terminates          every library call returns within the alarm
  edge_accepted            constructing the valid program (parse / build / constructors / caller-side passes)
                           raises nothing
  edge_emulator_visits     run_jaqal_circuit: [readout.subcircuit.index] == reference unrolling; subcircuits
                           numbered 0,1,2,... in flat order (also the ones never visited); no exception
  edge_output_list_visits  parse_jaqal_output_list with an output list of matching length: same attribution,
                           one readout per visit carrying the given outputs in order; no exception
  edge_own_readouts        readout indices 0,1,2,...; each subcircuit's .readouts are exactly its own readouts
                           in order and its relative frequencies count exactly those
  edge_outcome_possible    every sampled outcome has non-zero probability in its subcircuit's distribution and
                           agrees with the classically determined bits of THAT subcircuit
  edge_scope_<class>       the same six statements for the cases that use something the C08 quantifier does not
                           name explicitly although the library accepts it; one oracle per class (a case belongs
                           to at most one), so that the integrator can decide about each separately:
                             multireg               several fundamental registers (output-list parser only)
                             subclass               user subclasses of BlockStatement / LoopStatement
                             shared_object          one statement object at several places of the tree
                             float_let              integral float let values / override values as loop counts
                             macro_subcircuit       a macro that expands to a loop around a subcircuit
                             subcircuit_iterations  `subcircuit k { }` with k in 0, 2, 3, a let: still ONE readout
                                                    per visit (that is what the property says and the library does)

CLI: c08_edge.py [--seed S] [--n N] [--thorough]
"""
import os, sys, json, copy, random, signal, argparse

DEFAULT_DRIVER = "/verif/lean/.lake/build/bin/jaqal-model"
CORE_ORACLES = ("edge_terminates", "edge_accepted", "edge_emulator_visits", "edge_output_list_visits",
                "edge_own_readouts", "edge_outcome_possible")
# feature of a case -> the class of "the quantifier does not name it explicitly" it belongs to (one class per case)
SCOPE_CLASS = {"ublk": "subclass", "ublk2": "subclass", "uloop": "subclass", "multireg": "multireg", "share": "shared_object",
               "float_let": "float_let", "float_override": "float_let", "G": "macro_subcircuit", "sub_iters": "subcircuit_iterations"}
SCOPE_ORACLES = tuple("edge_scope_" + c for c in ("multireg", "subclass", "shared_object", "float_let", "macro_subcircuit",
                                                  "subcircuit_iterations"))
ORACLES = CORE_ORACLES + SCOPE_ORACLES
STREAMS = ("zero", "wide", "deep", "big", "api", "mix")
MAX_VISITS = 400           # bound on the reference visit sequence of ordinary cases (the big stream has its own)
HUGE = [2 ** 31, 2 ** 32 + 1, 2 ** 53 + 1, 2 ** 63 - 1, 2 ** 63, 2 ** 64, 10 ** 20, 10 ** 30]
EMU_MAX_QUBITS = 4
_real = {}


def _load():
    """import jaqalpaq lazily (no work at import time)"""
    if _real:
        return _real
    os.environ["JAQALPAQ_RUN_EMULATOR"] = "1"
    root = os.path.dirname(os.path.dirname(os.path.dirname(os.path.abspath(__file__))))   # .../verif
    if not os.path.isfile(os.path.join(root, "harness", "gates.py")):
        root = "/verif"
    if root not in sys.path:
        sys.path.insert(0, root)
    import warnings
    warnings.filterwarnings("ignore")
    import numpy
    from harness.gates import GATES_IDLE as GI
    from harness import timeouts as T
    from jaqalpaq.parser import parse_jaqal_string
    from jaqalpaq.emulator import run_jaqal_circuit
    from jaqalpaq.emulator.unitary import UnitarySerializedEmulator
    from jaqalpaq.core.algorithm import fill_in_let, expand_subcircuits, expand_macros
    from jaqalpaq.core.result import parse_jaqal_output_list
    from jaqalpaq.core import circuitbuilder as CB
    from jaqalpaq.core import Circuit, Register, Constant, Macro, Parameter
    from jaqalpaq.core.block import BlockStatement, LoopStatement, UnscheduledBlockStatement
    from jaqalpaq.error import JaqalError

    class EdgeBlock(BlockStatement):
        """a user subclass of the sequential block"""

    class EdgeBlock2(EdgeBlock):
        """a subclass of a subclass"""

    class EdgeLoop(LoopStatement):
        """a user subclass of the loop statement"""

    _real.update(GI=GI, T=T, np=numpy, parse=parse_jaqal_string, run=run_jaqal_circuit, fill=fill_in_let,
                 es=expand_subcircuits, em=expand_macros, out=parse_jaqal_output_list, JaqalError=JaqalError,
                 CB=CB, Circuit=Circuit, Register=Register, Constant=Constant, Macro=Macro, Parameter=Parameter,
                 Block=BlockStatement, Loop=LoopStatement, UBlock=UnscheduledBlockStatement, Backend=UnitarySerializedEmulator,
                 EdgeBlock=EdgeBlock, EdgeBlock2=EdgeBlock2, EdgeLoop=EdgeLoop)
    return _real


class Hang(Exception):
    pass


def _alarm(*a):
    raise Hang()


# ---------------------------------------------------------------- abstract programs
# prog = {"lets": [[name, value]], "regs": [[name, size]], "F": bool, "G": bool, "items": [...], "share": bool}
#   value: int, or an integral float (2.0, 0.0, -0.0);  size: int or the name of a let
# structure items (they determine the visits):
#   ["sub", form, inner]          form "sc": subcircuit { inner } | "pm": prepare_all inner measure_all (inline in the
#                                 enclosing block) | "ppm": prepare_all prepare_all inner measure_all
#   ["sub", "sc", inner, k]       subcircuit k { inner }     k: int or let name (the number of hardware repetitions)
#   ["loop", count, items, opt]   loop count { items };  count: int or let name;  opt = {"body": "seq"|"unsched"|"ublk"|"sc",
#                                 "cls": "loop"|"uloop"};  body "sc": items is ONE ["sub", "sc", ...] and that subcircuit
#                                 block itself is the loop's body (object API only)
#   ["blk", items, kind]          { items };  kind "seq" | "unsched" | "ublk" | "ublk2"   (below top level: object API only)
#   ["G", count]                  call of  macro G c { loop c { subcircuit { X <reg0>[0] } } }
# inner items (inside one subcircuit; they never add a visit, they fix the outcome):
#   ["g", name, ri, q]            name in X Y Z SX on register number ri, q: int or let name
#   ["cx", [ri, q], [ri, q]]      CX on two distinct literal qubits
#   ["iloop", count, inner]       loop count { inner }
#   ["F", count, ri, q]           call of  macro F n q { loop n { X q } }
#   ["par", [g, g]]               < g | g > on distinct literal qubits

def val(c, env):
    return env[c] if isinstance(c, str) else c


def env_of(prog, override):
    e = {nm: int(v) for nm, v in prog["lets"]}
    if override:
        e.update({k: int(v) for k, v in override.items() if k in e})
    return e


def reg_sizes(prog, env):
    return [val(s, env) for _, s in prog["regs"]]


def count_subs(items):
    n = 0
    for it in items:
        if it[0] in ("sub", "G"): n += 1
        elif it[0] == "loop": n += count_subs(it[2])
        else: n += count_subs(it[1])
    return n


def _walk(items, env, k, cap, live=True):
    """-> (visited subcircuit numbers in execution order, next flat number).  Numbers follow the text whatever the
    counts are; a loop repeats the visits of its body `count` times, none for a count of zero (nothing below a
    zero-count loop is ever visited, whatever its own counts are: live=False only numbers the subcircuits)."""
    visits = []
    for it in items:
        if it[0] == "sub":
            if live: visits.append(k)
            k += 1
        elif it[0] == "G":
            c = val(it[1], env)
            if live:
                if c > cap: raise OverflowError
                visits += [k] * c
            k += 1
        elif it[0] == "loop":
            c = val(it[1], env)
            body, k = _walk(it[2], env, k, cap, live and c > 0)
            if live and body:
                if c * len(body) > cap: raise OverflowError
                visits += body * c
        else:
            body, k = _walk(it[1], env, k, cap, live)
            visits += body
        if len(visits) > cap: raise OverflowError
    return visits, k


def ref_visits(items, env, cap=MAX_VISITS):
    """None when the sequence is longer than cap"""
    try:
        return _walk(items, env, 0, cap)[0]
    except OverflowError:
        return None


def flat_subs(items, out=None):
    out = [] if out is None else out
    for it in items:
        if it[0] in ("sub", "G"): out.append(it)
        elif it[0] == "loop": flat_subs(it[2], out)
        else: flat_subs(it[1], out)
    return out


def _bits(inner, env, offs, st, steps):
    """classical reachability of the measured bits: st[pos] in (0, 1, None=unknown).  X/Y flip, Z keeps, SX makes the
    qubit unknown, CX flips the target when the control is 1 and makes it unknown when the control is unknown."""
    for it in inner:
        steps[0] += 1
        if steps[0] > 20000: raise OverflowError
        if it[0] == "g":
            p = offs[it[2]] + val(it[3], env)
            if it[1] in ("X", "Y"): st[p] = None if st[p] is None else 1 - st[p]
            elif it[1] == "SX": st[p] = None
        elif it[0] == "cx":
            c = offs[it[1][0]] + it[1][1]; t = offs[it[2][0]] + it[2][1]
            if st[c] is None: st[t] = None
            elif st[c] == 1 and st[t] is not None: st[t] = 1 - st[t]
        elif it[0] == "iloop":
            n = val(it[1], env)
            if it[2]:
                for _ in range(n): _bits(it[2], env, offs, st, steps)
        elif it[0] == "F":
            p = offs[it[2]] + val(it[3], env)
            if val(it[1], env) % 2 == 1 and st[p] is not None: st[p] = 1 - st[p]
        else:
            _bits(it[1], env, offs, st, steps)
    return st


def ref_support(prog, env):
    sizes = reg_sizes(prog, env)
    offs = [sum(sizes[:i]) for i in range(len(sizes))]
    out = []
    for s in flat_subs(prog["items"]):
        st = [0] * sum(sizes)
        if s[0] == "G": st[0] = 1
        else: _bits(s[2], env, offs, st, [0])
        out.append(st)
    return out


def zero_loop_around_sub(items, env):
    for it in items:
        if it[0] == "loop":
            if val(it[1], env) == 0 and count_subs(it[2]) > 0: return True
            if zero_loop_around_sub(it[2], env): return True
        elif it[0] == "blk" and zero_loop_around_sub(it[1], env): return True
    return False


def max_width(items):
    w = len(items)
    for it in items:
        if it[0] == "loop": w = max(w, max_width(it[2]))
        elif it[0] == "blk": w = max(w, max_width(it[1]))
    return w


def max_depth(items):
    d = 0
    for it in items:
        if it[0] == "loop": d = max(d, 1 + max_depth(it[2]))
        elif it[0] == "blk": d = max(d, 1 + max_depth(it[1]))
    return d


def features(prog):
    """what the tree uses (decides the eligible renderers and the scope)"""
    f = set()

    def inner(xs):
        for it in xs:
            if it[0] == "iloop":
                v = it[1] if isinstance(it[1], int) else max([abs(int(x)) for nm, x in prog["lets"] if nm == it[1]] + [0])
                if v >= 2 ** 31 or it[1] == "big": f.add("huge_in_sub")
                inner(it[2])
            elif it[0] == "F": f.add("F")
            elif it[0] == "par": f.add("par")

    def walk(items, depth):
        for it in items:
            if it[0] == "sub":
                f.add("form_" + it[1]); inner(it[2])
                if len(it) > 3: f.add("sub_iters")
                if not it[2]: f.add("empty_sub")
            elif it[0] == "G": f.add("G")
            elif it[0] == "loop":
                o = it[3]
                if o["body"] == "sc": f.add("loop_body_sc")
                elif o["body"] != "seq": f.add(o["body"])
                if o["cls"] != "loop": f.add(o["cls"])
                if not it[2]: f.add("empty_loop")
                walk(it[2], depth + 1)
            else:
                if it[2] != "seq": f.add(it[2])
                if depth > 0: f.add("nested_blk")
                if not it[1]: f.add("empty_blk")
                walk(it[1], depth + 1)
    walk(prog["items"], 0)
    if len(prog["regs"]) > 1: f.add("multireg")
    if any(isinstance(v, float) for _, v in prog["lets"]): f.add("float_let")
    if any(isinstance(s, str) for _, s in prog["regs"]): f.add("let_size")
    if prog.get("share"): f.add("share")
    return f


API_ONLY = {"unsched", "ublk", "ublk2", "uloop", "nested_blk", "multireg", "share", "loop_body_sc"}
CORE_ONLY = {"ublk", "ublk2", "uloop", "share"}


def renderers_for(prog):
    f = features(prog)
    if f & CORE_ONLY: r = ["core"]
    elif f & API_ONLY: r = ["sexpr", "builder", "core"]
    else: r = ["text", "text", "sexpr", "builder", "core"]
    if "float_let" in f and "core" in r:      # Constant(name, 2.0) is a FLOAT constant, which a loop refuses as its count
        r = [x for x in r if x != "core"]
    return r


# ---------------------------------------------------------------- renderer: text

def num_text(v):
    return repr(v) if isinstance(v, float) else str(v)


def q_text(prog, ri, q):
    return f"{prog['regs'][ri][0]}[{q}]"


def inner_text(prog, inner, ind):
    out = []
    for it in inner:
        if it[0] == "g": out.append(f"{ind}{it[1]} {q_text(prog, it[2], it[3])}")
        elif it[0] == "cx": out.append(f"{ind}CX {q_text(prog, *it[1])} {q_text(prog, *it[2])}")
        elif it[0] == "iloop": out.append(f"{ind}loop {it[1]} {{\n" + inner_text(prog, it[2], ind + "  ") + f"\n{ind}}}")
        elif it[0] == "F": out.append(f"{ind}F {it[1]} {q_text(prog, it[2], it[3])}")
        else: out.append(f"{ind}< " + " | ".join(f"{g[1]} {q_text(prog, g[2], g[3])}" for g in it[1]) + " >")
    return "\n".join(out)


def items_text(prog, items, ind=""):
    out = []
    for it in items:
        if it[0] == "sub":
            body = inner_text(prog, it[2], ind + "  ")
            if it[1] == "sc": out.append(f"{ind}subcircuit {str(it[3]) + ' ' if len(it) > 3 else ''}{{\n{body}\n{ind}}}")
            else: out.append(f"{ind}prepare_all\n" * (2 if it[1] == "ppm" else 1) + f"{body}\n{ind}measure_all")
        elif it[0] == "G": out.append(f"{ind}G {it[1]}")
        elif it[0] == "loop": out.append(f"{ind}loop {it[1]} {{\n" + items_text(prog, it[2], ind + "  ") + f"\n{ind}}}")
        else: out.append(f"{ind}{{\n" + items_text(prog, it[1], ind + "  ") + f"\n{ind}}}")
    return "\n".join(out)


def prog_text(prog):
    head = "".join(f"let {nm} {num_text(v)}\n" for nm, v in prog["lets"])
    head += "".join(f"register {nm}[{s}]\n" for nm, s in prog["regs"])
    r0 = prog["regs"][0][0]
    if prog.get("F"): head += "macro F n q {\n  loop n {\n    X q\n  }\n}\n"
    if prog.get("G"): head += f"macro G c {{\n  loop c {{\n    subcircuit {{\n      X {r0}[0]\n    }}\n  }}\n}}\n"
    return head + items_text(prog, prog["items"]) + "\n"


# ---------------------------------------------------------------- renderer: S-expression

def sx_inner(prog, inner):
    out = []
    for it in inner:
        if it[0] == "g": out.append(("gate", it[1], ("array_item", prog["regs"][it[2]][0], it[3])))
        elif it[0] == "cx":
            out.append(("gate", "CX", ("array_item", prog["regs"][it[1][0]][0], it[1][1]),
                        ("array_item", prog["regs"][it[2][0]][0], it[2][1])))
        elif it[0] == "iloop": out.append(("loop", it[1], ("sequential_block", *sx_inner(prog, it[2]))))
        elif it[0] == "F": out.append(("gate", "F", it[1], ("array_item", prog["regs"][it[2]][0], it[3])))
        else: out.append(("parallel_block", *sx_inner(prog, it[1])))
    return out


BLOCK_SX = {"seq": "sequential_block", "unsched": "unscheduled_block"}


def sx_items(prog, items):
    out = []
    for it in items:
        if it[0] == "sub":
            if it[1] == "sc": out.append(("subcircuit_block", it[3] if len(it) > 3 else "", *sx_inner(prog, it[2])))
            else:
                out += [("gate", "prepare_all")] * (2 if it[1] == "ppm" else 1)
                out += sx_inner(prog, it[2])
                out.append(("gate", "measure_all"))
        elif it[0] == "G": out.append(("gate", "G", it[1]))
        elif it[0] == "loop" and it[3]["body"] == "sc": out.append(("loop", it[1], sx_items(prog, it[2])[0]))
        elif it[0] == "loop": out.append(("loop", it[1], (BLOCK_SX[it[3]["body"]], *sx_items(prog, it[2]))))
        else: out.append((BLOCK_SX[it[2]], *sx_items(prog, it[1])))
    return out


def sx_macros(prog):
    out = []
    r0 = prog["regs"][0][0]
    if prog.get("F"):
        out.append(("macro", "F", "n", "q", ("sequential_block", ("loop", "n", ("sequential_block", ("gate", "X", "q"))))))
    if prog.get("G"):
        out.append(("macro", "G", "c", ("sequential_block", ("loop", "c", ("sequential_block",
                    ("subcircuit_block", "", ("gate", "X", ("array_item", r0, 0))))))))
    return out


def as_lists(x):
    return [as_lists(y) for y in x] if isinstance(x, tuple) else x


def prog_sexpr(prog, lists=False):
    sx = ("circuit", *[("let", nm, v) for nm, v in prog["lets"]], *[("register", nm, s) for nm, s in prog["regs"]],
          *sx_macros(prog), *sx_items(prog, prog["items"]))
    return as_lists(sx) if lists else sx


# ---------------------------------------------------------------- renderer: CircuitBuilder

def render_builder(R, prog, evaluated):
    CB = R["CB"]
    b = CB.CircuitBuilder(native_gates=R["GI"])
    for nm, v in prog["lets"]:
        b.let(nm, v, unevaluated=True)
    regobj = {}
    for nm, s in prog["regs"]:
        if evaluated and isinstance(s, int):
            regobj[nm] = b.register(nm, s)                 # a Register object: its qubits are used as gate arguments
        else:
            b.register(nm, s, unevaluated=True)

    def qb(ri, q):
        nm = prog["regs"][ri][0]
        if nm in regobj and isinstance(q, int): return regobj[nm][q]
        return ("array_item", nm, q)

    if prog.get("F"):
        body = CB.SequentialBlockBuilder()
        lb = CB.SequentialBlockBuilder(); lb.gate("X", "q")
        body.loop("n", lb, unevaluated=True)
        b.macro("F", ["n", "q"], body, unevaluated=True)
    if prog.get("G"):
        body = CB.SequentialBlockBuilder()
        lb = CB.SequentialBlockBuilder(); sc = lb.subcircuit(); sc.gate("X", qb(0, 0))
        body.loop("c", lb, unevaluated=True)
        b.macro("G", ["c"], body, unevaluated=True)

    def inner(bb, xs):
        for it in xs:
            if it[0] == "g": bb.gate(it[1], qb(it[2], it[3]))
            elif it[0] == "cx": bb.gate("CX", qb(*it[1]), qb(*it[2]))
            elif it[0] == "iloop":
                lb = CB.SequentialBlockBuilder(); inner(lb, it[2]); bb.loop(it[1], lb, unevaluated=True)
            elif it[0] == "F": bb.gate("F", it[1], qb(it[2], it[3]))
            else:
                pb = bb.block(parallel=True); inner(pb, it[1])

    def new_block(kind):
        return CB.UnscheduledBlockBuilder() if kind == "unsched" else CB.SequentialBlockBuilder()

    def items(bb, xs):
        for it in xs:
            if it[0] == "sub":
                if it[1] == "sc": inner(bb.subcircuit(it[3]) if len(it) > 3 else bb.subcircuit(), it[2])
                else:
                    for _ in range(2 if it[1] == "ppm" else 1): bb.gate("prepare_all")
                    inner(bb, it[2]); bb.gate("measure_all")
            elif it[0] == "G": bb.gate("G", it[1])
            elif it[0] == "loop" and it[3]["body"] == "sc":
                sub = it[2][0]
                sb = CB.SubcircuitBlockBuilder(sub[3]) if len(sub) > 3 else CB.SubcircuitBlockBuilder()
                inner(sb, sub[2]); bb.loop(it[1], sb, unevaluated=True)
            elif it[0] == "loop":
                lb = new_block(it[3]["body"]); items(lb, it[2]); bb.loop(it[1], lb, unevaluated=True)
            else:
                if it[2] == "seq": items(bb.block(), it[1])
                else:
                    nb = new_block(it[2]); items(nb, it[1]); bb.expression.append(nb.expression)

    items(b, prog["items"])
    return b.build()


# ---------------------------------------------------------------- renderer: core constructors

def render_core(R, prog, kw, share):
    GI = R["GI"]
    c = R["Circuit"](native_gates=GI)
    consts = {}
    for nm, v in prog["lets"]:
        consts[nm] = c.constants[nm] = R["Constant"](nm, v)
    regs = []
    for nm, s in prog["regs"]:
        r = R["Register"](nm, consts[s] if isinstance(s, str) else s)
        c.registers[nm] = r; regs.append(r)

    def cnt(x):
        return consts[x] if isinstance(x, str) else x

    def qb(ri, q):
        return regs[ri][cnt(q)]

    def gate(name, *qs):
        gd = GI[name]
        if kw:      # by keyword, the keywords in the reverse of the declared order
            return gd(**{p.name: a for p, a in reversed(list(zip(gd.parameters, qs)))})
        return gd(*qs)

    Block, Loop = R["Block"], R["Loop"]
    F = G = None
    if prog.get("F"):
        pn, pq = R["Parameter"]("n", None), R["Parameter"]("q", None)
        F = c.macros["F"] = R["Macro"]("F", [pn, pq], Block(statements=[Loop(pn, Block(statements=[GI["X"](pq)]))]))
    if prog.get("G"):
        pc = R["Parameter"]("c", None)
        G = c.macros["G"] = R["Macro"]("G", [pc], Block(statements=[Loop(pc, Block(statements=[
            Block(subcircuit=True, statements=[GI["X"](regs[0][0])])]))]))
    memo = {}

    def inner(xs):
        out = []
        for it in xs:
            if it[0] == "g": out.append(gate(it[1], qb(it[2], it[3])))
            elif it[0] == "cx": out.append(gate("CX", qb(*it[1]), qb(*it[2])))
            elif it[0] == "iloop": out.append(Loop(cnt(it[1]), Block(statements=inner(it[2]))))
            elif it[0] == "F": out.append(F(cnt(it[1]), qb(it[2], it[3])))
            else: out.append(Block(parallel=True, statements=inner(it[1])))
        return out

    def block(kind, stmts):
        cls = {"seq": Block, "unsched": R["UBlock"], "ublk": R["EdgeBlock"], "ublk2": R["EdgeBlock2"]}[kind]
        return cls(statements=stmts)

    def items(xs):
        out = []
        for it in xs:
            key = json.dumps(it) if share and (it[0] != "sub" or it[1] == "sc") else None
            if key is not None and key in memo:
                out.append(memo[key]); continue
            if it[0] == "sub":
                if it[1] == "sc" and len(it) > 3: new = [Block(subcircuit=True, iterations=cnt(it[3]), statements=inner(it[2]))]
                elif it[1] == "sc": new = [Block(subcircuit=True, statements=inner(it[2]))]
                else:
                    new = [GI["prepare_all"]() for _ in range(2 if it[1] == "ppm" else 1)] + inner(it[2]) + [GI["measure_all"]()]
            elif it[0] == "G": new = [G(cnt(it[1]))]
            elif it[0] == "loop":
                lc = R["EdgeLoop"] if it[3]["cls"] == "uloop" else Loop
                if it[3]["body"] == "sc": new = [lc(cnt(it[1]), items(it[2])[0])]
                else: new = [lc(cnt(it[1]), block(it[3]["body"], items(it[2])))]
            else: new = [block(it[2], items(it[1]))]
            if key is not None: memo[key] = new[0]
            out += new
        return out

    c.body.statements.extend(items(prog["items"]))
    return c


# ---------------------------------------------------------------- generators

def small_inner(rng, ctx, depth=0, maxlen=3):
    """inner statements of one subcircuit"""
    out = []
    sizes = ctx["sizes"]
    qubits = [(ri, q) for ri, s in enumerate(sizes) for q in range(s)]
    for _ in range(rng.randint(0, maxlen)):
        k = rng.random()
        ri, q = rng.choice(qubits)
        if ctx.get("inames") and rng.random() < 0.3: q = rng.choice(ctx["inames"])
        if ctx.get("F") and k < 0.35:
            out.append(["F", gen_count(rng, ctx, zero=0.4), ri, q])
        elif k < 0.55 or depth >= 2:
            out.append(["g", rng.choice(["X", "X", "X", "Y", "Z", "SX"]), ri, q])
        elif k < 0.72:
            out.append(["iloop", gen_count(rng, ctx), small_inner(rng, ctx, depth + 1, 2)])
        elif k < 0.80 and len(qubits) >= 2:
            a, b = rng.sample(qubits, 2)
            out.append(["cx", list(a), list(b)])
        elif k < 0.86 and len(qubits) >= 2 and depth == 0:
            a, b = rng.sample(qubits, 2)
            out.append(["par", [["g", rng.choice(["X", "Y", "Z"]), a[0], a[1]], ["g", rng.choice(["X", "Y"]), b[0], b[1]]]])
        elif ctx.get("F"):
            out.append(["F", gen_count(rng, ctx, zero=0.4), ri, q])
        else:
            out.append(["g", "X", ri, q])
    return out


def gen_count(rng, ctx, zero=0.25):
    if ctx.get("cnames") and rng.random() < ctx.get("plet", 0.5):
        return rng.choice(ctx["cnames"])
    if rng.random() < zero: return 0
    return rng.choice([1, 1, 2, 2, 3])


def gen_sub(rng, ctx):
    form = rng.choice(ctx.get("forms", ["sc", "sc", "sc", "pm", "pm", "ppm"]))
    s = ["sub", form, [] if rng.random() < ctx.get("pempty", 0.15) else small_inner(rng, ctx)]
    if ctx.get("iters") and rng.random() < 0.6:
        s[1] = "sc"
        s.append(rng.choice([0, 0, 2, 3] + list(ctx.get("cnames", []))))
    return s


def opt(rng, ctx):
    o = {"body": "seq", "cls": "loop"}
    if ctx.get("api"):
        r = rng.random()
        if r < 0.35: o["body"] = "unsched"
        elif r < 0.50 and ctx.get("usersub"): o["body"] = "ublk"
        if ctx.get("usersub") and rng.random() < 0.25: o["cls"] = "uloop"
    return o


def blk_kind(rng, ctx):
    if not ctx.get("api"): return "seq"
    r = rng.random()
    if r < 0.35: return "unsched"
    if r < 0.55 and ctx.get("usersub"): return rng.choice(["ublk", "ublk", "ublk2"])
    return "seq"


def gen_tree(rng, ctx, depth, maxdepth, top=True, minlen=0, maxlen=3):
    out = []
    for _ in range(rng.randint(max(minlen, 1 if top else 0), maxlen)):
        k = rng.random()
        if k < ctx.get("psub", 0.45) or depth >= maxdepth:
            if ctx.get("G") and rng.random() < 0.4: out.append(["G", gen_count(rng, ctx, zero=0.35)])
            else: out.append(gen_sub(rng, ctx))
        elif k < 0.88 and ctx.get("api") and rng.random() < 0.15:
            s_ = gen_sub(rng, ctx); s_[1] = "sc"
            o_ = opt(rng, ctx); o_["body"] = "sc"
            out.append(["loop", gen_count(rng, ctx), [s_], o_])
        elif k < 0.88:
            if rng.random() < ctx.get("pemptyloop", 0.1): out.append(["loop", gen_count(rng, ctx), [], opt(rng, ctx)])
            else: out.append(["loop", gen_count(rng, ctx, ctx.get("pzero", 0.25)), gen_tree(rng, ctx, depth + 1, maxdepth, False), opt(rng, ctx)])
        elif top or ctx.get("api"):
            out.append(["blk", gen_tree(rng, ctx, depth + 1, maxdepth, False), blk_kind(rng, ctx)])
        else:
            out.append(gen_sub(rng, ctx))
    return out


def base_prog(items, lets=(), regs=(("r", 2),), F=False, G=False, share=False):
    return {"lets": [list(x) for x in lets], "regs": [list(x) for x in regs], "F": F, "G": G, "items": items, "share": share}


def pick_sizes(rng, multi=False):
    if multi:
        k = rng.choice([2, 2, 3])
        return [rng.choice([1, 1, 2, 3]) for _ in range(k)]
    return [rng.choice([1, 2, 2, 3, 3, 4])]


REGNAMES = ["r", "a", "b"]
CNAMES = ["n", "m", "k", "reps"]


def stream_zero(rng, thorough):
    sizes = pick_sizes(rng)
    cnames = rng.sample(CNAMES, rng.randint(1, 3))
    decl = {nm: rng.choice([0, 0, 1, 2, 2]) for nm in cnames}
    override = None
    if rng.random() < 0.65:
        override = {}
        for nm in rng.sample(cnames, rng.randint(1, len(cnames))):
            override[nm] = rng.choice([1, 2, 3]) if (decl[nm] == 0 and rng.random() < 0.7) else rng.choice([0, 0, 0, 1, 2])
    inames = []
    if rng.random() < 0.3:
        decl["i"] = 0; inames = ["i"]            # a let equal to 0 used as qubit index
        if override is not None and rng.random() < 0.3 and min(sizes) >= 2: override["i"] = 1
    mode = rng.random()
    flt = mode < 0.15
    if flt:
        for nm in cnames:
            if rng.random() < 0.6: decl[nm] = {0: rng.choice([0.0, -0.0]), 1: 1.0, 2: 2.0}[decl[nm]]
        if override is not None:
            for nm in list(override):
                if nm != "i" and rng.random() < 0.5: override[nm] = float(override[nm]) if override[nm] or rng.random() < 0.5 else -0.0
    ctx = {"sizes": sizes, "cnames": cnames, "inames": inames, "plet": 0.6, "pzero": 0.5, "pempty": 0.3, "pemptyloop": 0.2,
           "iters": 0.15 <= mode < 0.27}
    t = rng.random()
    if t < 0.12:      # no subcircuit at all
        items = [["loop", gen_count(rng, ctx), [], opt(rng, ctx)] for _ in range(rng.randint(0, 2))]
        if rng.random() < 0.5: items.append(["blk", [], "seq"])
    elif t < 0.24:    # everything inside a zero-count loop
        items = [["loop", rng.choice([0] + cnames), gen_tree(rng, ctx, 1, 3, True), opt(rng, ctx)]]
        if isinstance(items[0][1], str):
            if override is None: override = {}
            if rng.random() < 0.5: decl[items[0][1]] = 0; override.pop(items[0][1], None)
            else: override[items[0][1]] = 0
    elif t < 0.50:    # the same nest several times, with the zero at a different level each time
        d = rng.randint(2, 3)
        def nest(counts):
            node = [gen_sub(rng, ctx)] + ([gen_sub(rng, ctx)] if rng.random() < 0.3 else [])
            for c in reversed(counts):
                node = [["loop", c, node, opt(rng, ctx)]]
            return node[0]
        items = []
        for _ in range(rng.randint(2, 4)):
            counts = [rng.choice([1, 2, 2, 3] + cnames) for _ in range(d)]
            if rng.random() < 0.7: counts[rng.randrange(d)] = 0
            items.append(nest(counts))
            if rng.random() < 0.2: items.append(gen_sub(rng, ctx))
    elif t < 0.62:    # zero-count loop first and/or last
        items = gen_tree(rng, ctx, 0, 2, True)
        z = lambda: ["loop", 0, gen_tree(rng, ctx, 1, 2, True), opt(rng, ctx)]
        if rng.random() < 0.6: items.insert(0, z())
        if rng.random() < 0.6: items.append(z())
        if rng.random() < 0.3: items.insert(rng.randrange(len(items) + 1), ["blk", [], "seq"])
    else:
        items = gen_tree(rng, ctx, 0, 3, True)
    lets = [[nm, v] for nm, v in decl.items()]
    rng.shuffle(lets)
    return base_prog(items, lets, [("r", sizes[0])]), override


def stream_wide(rng, thorough):
    sizes = pick_sizes(rng)
    ctx = {"sizes": sizes, "psub": 0.6, "pempty": 0.3, "pzero": 0.3}
    w = rng.randint(11, 15)

    def wide_list():
        xs = []
        for i in range(w):
            r = rng.random()
            if i >= 9 and r < 0.35:
                xs.append(["loop", rng.choice([0, 1, 2, 2, 3]), gen_tree(rng, ctx, 1, 2, True, maxlen=2), opt(rng, ctx)])
            elif r < 0.15:
                xs.append(["loop", rng.choice([0, 1, 2]), [gen_sub(rng, ctx)] if rng.random() < 0.7 else [], opt(rng, ctx)])
            else:
                xs.append(["sub", rng.choice(["sc", "sc", "pm"]), small_inner(rng, ctx, maxlen=1)])
        return xs

    def sparse_list():
        """mostly statements without any subcircuit (empty loops), a few structures at chosen positions: one below 10
        and one at 10 or beyond, so that the next subcircuit after position i is at position 1i"""
        xs = [["loop", rng.choice([0, 1, 1, 2]), [], opt(rng, ctx)] for _ in range(w)]
        lo = rng.choice([0, 1, 1, 1, 2])
        hi = rng.choice([p for p in range(10, w)])
        pos = {lo, hi} | ({rng.randrange(w)} if rng.random() < 0.3 else set())
        for p_ in pos:
            r = rng.random()
            if r < 0.45: xs[p_] = ["loop", rng.choice([0, 0, 1, 2]), gen_tree(rng, ctx, 1, 2, True, maxlen=2), opt(rng, ctx)]
            elif r < 0.7: xs[p_] = ["loop", rng.choice([1, 2]), [["loop", 0, [gen_sub(rng, ctx)], opt(rng, ctx)], gen_sub(rng, ctx)], opt(rng, ctx)]
            else: xs[p_] = gen_sub(rng, ctx)
        return xs

    t = rng.random()
    if t < 0.25: items = sparse_list()
    elif t < 0.35: items = [["loop", rng.choice([1, 2]), sparse_list(), opt(rng, ctx)]]
    elif t < 0.55: items = wide_list()
    elif t < 0.85:
        items = gen_tree(rng, ctx, 0, 1, True, maxlen=2)
        items.insert(rng.randrange(len(items) + 1), ["loop", rng.choice([1, 2, 2, 3]), wide_list(), opt(rng, ctx)])
    else:
        items = [["loop", 2, [["loop", rng.choice([0, 1, 2]), wide_list(), opt(rng, ctx)], gen_sub(rng, ctx)], opt(rng, ctx)]]
    return base_prog(items, [], [("r", sizes[0])]), None


def stream_deep(rng, thorough):
    sizes = pick_sizes(rng)
    api = rng.random() < 0.6
    ctx = {"sizes": sizes, "api": api, "pempty": 0.4}
    d = rng.randint(5, 30 if thorough else 12)
    cnames = []
    decl = {}
    if rng.random() < 0.4:
        cnames = ["n"]; decl["n"] = rng.choice([0, 1, 1, 2])
    twos = 0
    node = [gen_sub(rng, ctx)] if rng.random() < 0.85 else []
    for level in range(d):
        sib_before = [gen_sub(rng, ctx)] if rng.random() < 0.25 else []
        sib_after = [gen_sub(rng, ctx)] if rng.random() < 0.25 else []
        if api and rng.random() < 0.35:
            child = ["blk", node, blk_kind(rng, ctx)]
        else:
            c = 1
            r = rng.random()
            if r < 0.22 and twos < 5: c = 2; twos += 1
            elif r < 0.27: c = 0
            elif r < 0.37 and cnames: c = "n"
            elif r < 0.40 and twos < 4: c = 3; twos += 2
            child = ["loop", c, node, opt(rng, ctx)]
        node = sib_before + [child] + sib_after
    if not api:      # text: `{` directly inside `{` does not parse; blocks only at top level (none generated here)
        pass
    return base_prog(node, [[k, v] for k, v in decl.items()], [("r", sizes[0])]), None


def stream_big(rng, thorough):
    t = rng.random()
    override = None
    if t < 0.30:
        # many visits
        sizes = [rng.choice([1, 2])]
        ctx = {"sizes": sizes, "pempty": 0.3}
        N = rng.choice([100, 255, 256, 257, 1000] * 6 + [65535, 65536, 65537] if not thorough else [255, 256, 257, 1000, 4096] * 2 + [65535, 65536, 65537])
        lets = []
        c = N
        if rng.random() < 0.4:
            if rng.random() < 0.5: lets = [["big", N]]
            else:
                lets = [["big", rng.choice([0, 1, 2])]]; override = {"big": N}
            c = "big"
        body = [gen_sub(rng, ctx)]
        if N <= 1000 and rng.random() < 0.4: body.append(["loop", rng.choice([0, 1, 2]), [gen_sub(rng, ctx)], opt(rng, ctx)])
        items = [["loop", c, body, opt(rng, ctx)]]
        if rng.random() < 0.5: items.insert(0, gen_sub(rng, ctx))
        if rng.random() < 0.5: items.append(gen_sub(rng, ctx))
        return base_prog(items, lets, [("r", sizes[0])]), override
    if t < 0.75:
        # astronomically large counts on loops that execute nothing
        sizes = pick_sizes(rng)
        api = rng.random() < 0.4
        ctx = {"sizes": sizes, "api": api}
        H = rng.choice(HUGE)
        lets = []
        c = H
        r = rng.random()
        if r < 0.25: lets = [["big", H]]; c = "big"
        elif r < 0.45: lets = [["big", rng.choice([0, 1, 3])]]; override = {"big": H}; c = "big"

        def nothing():
            k = rng.random()
            if k < 0.5 or not api: return []
            if k < 0.8: return [["blk", [], blk_kind(rng, ctx)]]
            return [["loop", rng.choice([1, 2, H]), [], opt(rng, ctx)]]

        shape = rng.random()
        if shape < 0.35:      # between subcircuits at top level
            items = [gen_sub(rng, ctx), ["loop", c, nothing(), opt(rng, ctx)], gen_sub(rng, ctx)]
            if rng.random() < 0.4: items.insert(0, ["loop", c, nothing(), opt(rng, ctx)])
        elif shape < 0.65:    # inside a loop body between subcircuits
            items = [["loop", rng.choice([1, 2, 3]), [gen_sub(rng, ctx), ["loop", c, nothing(), opt(rng, ctx)], gen_sub(rng, ctx)], opt(rng, ctx)],
                     gen_sub(rng, ctx)]
        elif shape < 0.9:     # below a zero-count loop, around subcircuits that are therefore never visited
            inner = [["loop", c, [gen_sub(rng, ctx)] + ([["loop", 2, [gen_sub(rng, ctx)], opt(rng, ctx)]] if rng.random() < 0.4 else []), opt(rng, ctx)]]
            items = [gen_sub(rng, ctx), ["loop", 0, inner, opt(rng, ctx)], gen_sub(rng, ctx)]
            if rng.random() < 0.5: items = [["loop", 2, items, opt(rng, ctx)]]
        else:                 # inside a subcircuit (an empty loop there): the output-list parser only
            items = [["sub", "sc", [["g", "X", 0, 0], ["iloop", c, []]]], ["loop", 2, [["sub", "pm", [["iloop", c, []]]]], opt(rng, ctx)]]
        return base_prog(items, lets, [("r", sizes[0])]), override
    # wide registers, extreme output values (the emulator is not asked: its matrices would be 4**n entries)
    nq = rng.choice([8, 12, 16, 17] if not thorough else [8, 12, 16, 17, 20])
    ctx = {"sizes": [nq], "pempty": 0.3}
    items = [["sub", "sc", [["g", "X", 0, nq - 1]]], ["loop", rng.choice([2, 3]), [gen_sub(rng, ctx), gen_sub(rng, ctx)], opt(rng, ctx)]]
    lets = []
    size = nq
    if rng.random() < 0.3:
        lets = [["w", nq]]; size = "w"
    return base_prog(items, lets, [("r", size)]), None


def stream_api(rng, thorough):
    mode = rng.choice(["plain", "plain", "plain", "multi", "multi", "multi", "usersub", "usersub", "share"])
    multi, usersub, share = mode == "multi", mode == "usersub", mode == "share"
    sizes = pick_sizes(rng, multi)
    cnames = rng.sample(CNAMES, rng.choice([0, 1, 2]))
    decl = {nm: rng.choice([0, 1, 2, 2]) for nm in cnames}
    ctx = {"sizes": sizes, "api": True, "usersub": usersub, "cnames": cnames, "plet": 0.4, "pempty": 0.2, "pzero": 0.25}
    if share: ctx["forms"] = ["sc"]; ctx["pempty"] = 0.5
    items = gen_tree(rng, ctx, 0, 3, True, minlen=2 if share else 1)
    r = rng.random()
    if r < 0.35:
        # the shapes of the object-level API that matter most: a special block as the loop body / wrapped / nested
        kind = blk_kind(rng, ctx)
        if kind == "seq": kind = "unsched"
        inner = [gen_sub(rng, ctx), ["loop", rng.choice([1, 2, 2]), [gen_sub(rng, ctx)], opt(rng, ctx)]]
        w = rng.random()
        if w < 0.4: special = ["loop", rng.choice([1, 2, 2, 3]), inner, {"body": kind, "cls": "loop"}]
        elif w < 0.7: special = ["loop", rng.choice([1, 2]), [["blk", inner, kind]], opt(rng, ctx)]
        else: special = ["blk", [["blk", inner, kind], gen_sub(rng, ctx)], "seq"]
        items.insert(rng.randrange(len(items) + 1), special)
    elif r < 0.5 and share:
        s = gen_sub(rng, ctx); s[1] = "sc"
        l = ["loop", 2, [copy.deepcopy(s)], {"body": "seq", "cls": "loop"}]
        items += [s, copy.deepcopy(l), copy.deepcopy(s), ["loop", 1, [copy.deepcopy(l)], {"body": "seq", "cls": "loop"}]]
    regs = [(REGNAMES[i], s) for i, s in enumerate(sizes)]
    return base_prog(items, [[k, v] for k, v in decl.items()], regs, share=share), None


def stream_mix(rng, thorough):
    t = rng.random()
    override = None
    if t < 0.3:
        # a macro parameter as count: argument 0, a let equal to 0, an overridden let
        sizes = pick_sizes(rng)
        cnames = rng.sample(CNAMES, rng.randint(1, 2))
        decl = {nm: rng.choice([0, 0, 1, 2, 3]) for nm in cnames}
        if rng.random() < 0.5: override = {nm: rng.choice([0, 1, 2]) for nm in rng.sample(cnames, 1)}
        ctx = {"sizes": sizes, "cnames": cnames, "F": True, "plet": 0.5, "pempty": 0.05}
        items = gen_tree(rng, ctx, 0, 2, True)
        return base_prog(items, [[k, v] for k, v in decl.items()], [("r", sizes[0])], F=True), override
    if t < 0.5:
        # the same let is the register size and a loop count (and indices stay below the smallest size)
        decl = {"n": rng.choice([2, 3])}
        if rng.random() < 0.5: override = {"n": rng.choice([2, 3, 4])}
        ctx = {"sizes": [2], "cnames": ["n"], "plet": 0.7}
        items = gen_tree(rng, ctx, 0, 2, True)
        return base_prog(items, [["n", decl["n"]]], [("r", "n")]), override
    if t < 0.7:
        # the same let is a qubit index and a loop count: 0 and 1
        sizes = [rng.choice([2, 3, 4])]
        decl = {"z": rng.choice([0, 0, 1])}
        if rng.random() < 0.5: override = {"z": rng.choice([0, 1])}
        ctx = {"sizes": sizes, "cnames": ["z"], "inames": ["z"], "plet": 0.7, "F": rng.random() < 0.5}
        items = gen_tree(rng, ctx, 0, 2, True)
        return base_prog(items, [["z", decl["z"]]], [("r", sizes[0])], F=ctx["F"]), override
    if t < 0.9:
        # a macro that expands to a loop around a subcircuit, called with 0 / 1 / 2 / a let at several depths
        sizes = pick_sizes(rng)
        cnames = ["n"]
        decl = {"n": rng.choice([0, 1, 2])}
        if rng.random() < 0.4: override = {"n": rng.choice([0, 1, 2])}
        ctx = {"sizes": sizes, "cnames": cnames, "G": True, "F": rng.random() < 0.5, "plet": 0.4, "forms": ["sc", "sc", "pm"]}
        items = gen_tree(rng, ctx, 0, 2, True)
        if not any(it[0] == "G" for it in items): items.append(["G", rng.choice([0, 1, 2, "n"])])
        return base_prog(items, [["n", decl["n"]]], [("r", sizes[0])], G=True, F=ctx["F"]), override
    sizes = pick_sizes(rng)
    ctx = {"sizes": sizes, "forms": ["ppm", "pm", "sc"], "pempty": 0.4}
    items = gen_tree(rng, ctx, 0, 3, True)
    return base_prog(items, [], [("r", sizes[0])]), None


GEN = {"zero": stream_zero, "wide": stream_wide, "deep": stream_deep, "big": stream_big, "api": stream_api, "mix": stream_mix}


def gen_outputs(rng, sizes, nvis):
    """an output list of matching length: values below 2**(all measured qubits), biased to 0, to the largest value and
    to values that do not fit in the LAST register alone; ints and bit strings (qubit 0 first) mixed"""
    nq = sum(sizes)
    top = 2 ** nq
    last = 2 ** sizes[-1]
    mode = rng.random()
    outs = []
    for _ in range(nvis):
        r = rng.random()
        if mode < 0.1: v = 0
        elif mode < 0.2: v = top - 1
        elif r < 0.15: v = 0
        elif r < 0.30: v = top - 1
        elif r < 0.5 and last < top: v = rng.randrange(last, top)
        elif r < 0.6 and nq > 1: v = 1 << rng.randrange(nq)
        else: v = rng.randrange(top)
        outs.append(format(v, "b").zfill(nq)[::-1] if rng.random() < 0.4 else v)
    return outs


def out_int(v):
    return int(v[::-1], 2) if isinstance(v, str) else v


def gen_case(rng, stream, thorough):
    for _ in range(300):
        prog, override = GEN[stream](rng, thorough)
        env = env_of(prog, override)
        cap = 70000 if stream == "big" else MAX_VISITS
        want = ref_visits(prog["items"], env, cap)
        if want is None: continue
        try:
            ref_support(prog, env)
        except OverflowError:
            continue
        f = features(prog)
        if override and any(isinstance(v, float) for v in override.values()): f.add("float_override")
        if len({SCOPE_CLASS[x] for x in f if x in SCOPE_CLASS}) > 1: continue
        render = rng.choice(renderers_for(prog))
        sizes = reg_sizes(prog, env)
        case = {"stream": stream, "prog": prog, "render": render, "override": override,
                "lists": rng.random() < 0.4, "evaluated": rng.random() < 0.5, "kw": rng.random() < 0.5,
                "pre": rng.choice(["none", "none", "none", "es", "fill", "all"]),
                "via": "parse_let" if (render == "text" and override is not None and rng.random() < 0.5) else "fill",
                "backend": rng.random() < 0.25, "npseed": rng.randrange(2 ** 31),
                "emulate": (len(sizes) == 1 and sum(sizes) <= EMU_MAX_QUBITS and "huge_in_sub" not in f
                            and (thorough or len(want) <= 5000)),
                "outs": gen_outputs(rng, sizes, len(want))}
        if override is None and case["pre"] == "fill" and rng.random() < 0.5: case["pre"] = "none"
        return case
    raise RuntimeError("generator could not produce a case")


def scope_of(case):
    """the arguable-scope classes a case belongs to (the generator produces at most one)"""
    f = features(case["prog"])
    if case.get("override") and any(isinstance(v, float) for v in case["override"].values()): f.add("float_override")
    return sorted({SCOPE_CLASS[x] for x in f if x in SCOPE_CLASS})


# ---------------------------------------------------------------- executing one case on the real code

def construct(R, case):
    """the circuit object handed to the observed calls"""
    prog, ov = case["prog"], case.get("override")
    render = case["render"]
    GI = R["GI"]
    filled = False
    if render == "text":
        text = prog_text(prog)
        if ov is not None and case["via"] == "parse_let":
            c = R["parse"](text, inject_pulses=GI, autoload_pulses=False, expand_let=True, override_dict=dict(ov))
            filled = True
        else:
            c = R["parse"](text, inject_pulses=GI, autoload_pulses=False)
    elif render == "sexpr":
        c = R["CB"].build(prog_sexpr(prog, case.get("lists", False)), inject_pulses=GI)
    elif render == "builder":
        c = render_builder(R, prog, case.get("evaluated", False))
    else:
        c = render_core(R, prog, case.get("kw", False), bool(prog.get("share")))
    if ov is not None and not filled:
        c = R["fill"](c, dict(ov))
        filled = True
    pre = case.get("pre", "none")
    if pre == "es": c = R["es"](c)
    elif pre == "fill" and not filled: c = R["fill"](c)
    elif pre == "all": c = R["em"](R["fill"](R["es"](c)))
    return c


def judge(r, want, nsub, given, support, tag):
    """-> [(oracle, ok, detail)] for one ExecutionResult"""
    res = []
    oname = "edge_emulator_visits" if given is None else "edge_output_list_visits"
    got = [ro.subcircuit.index for ro in r.readouts]
    subs = list(r.subcircuits)
    ok = (got == want and len(subs) == nsub and [sc.index for sc in subs] == list(range(nsub))
          and all(ro.subcircuit is subs[ro.subcircuit.index] for ro in r.readouts if 0 <= ro.subcircuit.index < len(subs)))
    detail = f"{tag}: visits {short(got)} over {len(subs)} subcircuits, reference {short(want)} over {nsub}"
    if ok and given is not None:
        vals = [int(ro.as_int) for ro in r.readouts]
        ok = vals == given
        detail = f"{tag}: readout values {short(vals)}, outputs given {short(given)}"
    res.append((oname, ok, "" if ok else detail))
    ok = [ro.index for ro in r.readouts] == list(range(len(r.readouts)))
    detail = f"readout indices {short([ro.index for ro in r.readouts])}"
    by_sub = {}
    for ro in r.readouts:
        by_sub.setdefault(id(ro.subcircuit), []).append(ro)
    for k, sc in enumerate(subs):
        own = by_sub.get(id(sc), [])
        mine = list(sc.readouts)
        freq = sc.relative_frequency_by_int
        hist = {}
        for ro in own:
            hist[int(ro.as_int)] = hist.get(int(ro.as_int), 0) + 1
        bad = len(mine) != len(own) or any(a is not b for a, b in zip(mine, own))
        why = f"{len(mine)} readouts listed, {len(own)} own readouts in the result"
        if not bad:
            if any(not (0 <= v < len(freq)) for v in hist):
                bad = True; why = f"own readout values {sorted(hist)} do not index the frequency table of length {len(freq)}"
            elif any(abs(float(freq[v]) - h) > 1e-9 for v, h in hist.items()) or abs(float(sum(freq)) - len(own)) > 1e-6:
                bad = True
                why = f"frequencies {[(v, float(freq[v])) for v in sorted(hist)]} (sum {float(sum(freq))}), own histogram {sorted(hist.items())}"
        if bad:
            ok = False; detail = f"subcircuit {k}: {why}"; break
    res.append(("edge_own_readouts", ok, "" if ok else f"{tag}: {detail}"))
    if given is None:
        ok = True; detail = ""
        for ro in r.readouts:
            k = ro.subcircuit.index
            pr = ro.subcircuit.simulated_probability_by_int
            v = int(ro.as_int)
            if not (0 <= v < len(pr)) or not pr[v] > 0:
                ok = False; detail = f"readout {ro.index} = {v} has probability 0 in subcircuit {k}"; break
            if 0 <= k < len(support) and any(b is not None and ((v >> q) & 1) != b for q, b in enumerate(support[k])):
                ok = False
                detail = (f"readout {ro.index} = {v} (bit q = qubit q) is impossible for subcircuit {k} of this program: "
                          f"reference bits {support[k]}")
                break
        res.append(("edge_outcome_possible", ok, "" if ok else f"{tag}: {detail}"))
    return res


def short(xs, n=40):
    xs = list(xs)
    return str(xs) if len(xs) <= n else f"{xs[:n // 2]} ... {xs[-n // 2:]} ({len(xs)} entries)"


def exec_case(case, R=None):
    """-> [(oracle, ok, detail)]"""
    R = R or _load()
    np, T = R["np"], R["T"]
    prog = case["prog"]
    env = env_of(prog, case.get("override"))
    want = ref_visits(prog["items"], env, 10 ** 6)
    nsub = count_subs(prog["items"])
    support = ref_support(prog, env)
    checks = []
    tag0 = f"[{case['stream']}/{case['render']}/pre={case.get('pre')}] env {env}"

    def call(f, *a, **k):
        signal.alarm(int(T.limit()))
        try:
            return f(*a, **k)
        finally:
            signal.alarm(0)

    old = signal.signal(signal.SIGALRM, _alarm)
    st = np.random.get_state()
    np.random.seed(case.get("npseed", 0))
    try:
        try:
            try:
                c = call(construct, R, case)
                checks.append(("edge_accepted", True, ""))
                checks.append(("edge_terminates", True, ""))
            except Hang:
                raise
            except Exception as e:
                checks.append(("edge_accepted", False, f"{tag0}: construction raised {type(e).__name__}: {e}"))
                return checks
            observed = []
            if case.get("emulate"):
                observed.append("run")
            observed.append("out")
            for op in observed:
                tag = f"{tag0} {op}"
                oname = "edge_emulator_visits" if op == "run" else "edge_output_list_visits"
                try:
                    if op == "run":
                        r = call(R["run"], c, backend=R["Backend"]()) if case.get("backend") else call(R["run"], c)
                        given = None
                    else:
                        given = [out_int(v) for v in case["outs"]]
                        r = call(R["out"], c, list(case["outs"]))
                except Hang:
                    raise
                except Exception as e:
                    checks.append((oname, False, f"{tag}: {type(e).__name__}: {e}; reference visits {short(want)} over {nsub} subcircuits"))
                    checks.append(("edge_terminates", True, ""))
                    continue
                checks.append(("edge_terminates", True, ""))
                try:
                    checks += call(judge, r, want, nsub, given, support, tag)
                except Hang:
                    raise
                except Exception as e:       # a result object that cannot even be read
                    checks.append((oname, False, f"{tag}: reading the result raised {type(e).__name__}: {e}"))
        except Hang:
            T.saw_hang()
            checks.append(("edge_terminates", False, f"{tag0}: no result within the time limit"))
    finally:
        signal.alarm(0)
        signal.signal(signal.SIGALRM, old)
        np.random.set_state(st)
    return checks


def describe(case):
    """the program as text where it can be written as text, else as the S-expression / a note"""
    prog = case["prog"]
    try:
        if not (features(prog) & API_ONLY):
            return prog_text(prog)
        if not (features(prog) & CORE_ONLY):
            return repr(prog_sexpr(prog))
    except Exception:
        pass
    return "core objects: " + json.dumps(prog["items"])


# ---------------------------------------------------------------- protocol

def run(seed: int, n: int, driver: str = DEFAULT_DRIVER, thorough: bool = False) -> dict:
    R = _load()
    rng = random.Random(f"c08_edge:{seed}")
    if thorough: n = n * 6
    oracle = {k: {"cases": 0, "failures": [], "total": 0} for k in ORACLES}
    dist = {}
    samples = []
    distinct = set()

    def bump(k, v=1):
        dist[k] = dist.get(k, 0) + v

    for i in range(n):
        stream = STREAMS[i % len(STREAMS)]
        case = gen_case(rng, stream, thorough)
        arguable = scope_of(case)
        checks = exec_case(case, R)
        failed = set()
        for name, ok, detail in checks:
            target = "edge_scope_" + arguable[0] if arguable else name
            oracle[target]["cases"] += 1
            if not ok and (target, name) not in failed:
                failed.add((target, name))
                oracle[target]["total"] += 1
                if len(oracle[target]["failures"]) < 20:
                    d = detail if not arguable else f"({name}; uses {', '.join(arguable)}) {detail}"
                    oracle[target]["failures"].append({"case": json.loads(json.dumps(case)), "detail": d + "\n" + describe(case)[:1500]})
        # ---- what was covered
        prog = case["prog"]
        env = env_of(prog, case.get("override"))
        want = ref_visits(prog["items"], env, 10 ** 6)
        f = features(prog)
        bump("cases"); bump("stream_" + stream); bump("render_" + case["render"]); bump("pre_" + case["pre"])
        bump("entry_output_list")
        if case["emulate"]: bump("entry_emulator_explicit_backend" if case["backend"] else "entry_emulator")
        for x in f: bump("uses_" + x)
        for x in arguable: bump("scope_" + x)
        if case.get("override") is not None:
            bump("override_via_" + case["via"])
            decl = dict((a, b) for a, b in prog["lets"])
            if any(int(v) == 0 and int(decl.get(k, 0)) != 0 for k, v in case["override"].items()): bump("override_positive_to_zero")
            if any(int(v) != 0 and int(decl.get(k, 1)) == 0 for k, v in case["override"].items()): bump("override_zero_to_positive")
            if any(isinstance(v, float) for v in case["override"].values()): bump("override_float")
        if zero_loop_around_sub(prog["items"], env): bump("zero_count_loop_around_subcircuit")
        if count_subs(prog["items"]) == 0: bump("no_subcircuit_at_all")
        elif not want: bump("subcircuits_but_no_visit")
        if max_width(prog["items"]) >= 10: bump("block_with_10_or_more_statements")
        d = max_depth(prog["items"])
        bump("depth_ge_5" if d >= 5 else "depth_lt_5")
        if d >= 13: bump("depth_ge_13")
        if len(want) >= 100: bump("visits_ge_100")
        if len(want) >= 65535: bump("visits_ge_65535")
        if any(isinstance(x, int) and x >= 2 ** 31 for x in list(env.values()) + _counts(prog["items"])): bump("count_ge_2**31")
        if sum(reg_sizes(prog, env)) >= 8: bump("register_ge_8_qubits")
        if any(isinstance(v, str) for v in case["outs"]): bump("outputs_with_bit_strings")
        if len(reg_sizes(prog, env)) > 1 and any(out_int(v) >= 2 ** reg_sizes(prog, env)[-1] for v in case["outs"]):
            bump("multireg_output_beyond_last_register")
        if case["render"] == "core" and case["kw"]: bump("keyword_gate_calls")
        if len(want) >= 2:
            distinct.add(json.dumps([prog, case["render"], case.get("override")], sort_keys=True))
        if len(samples) < 6 and i % len(STREAMS) == len(samples): samples.append(json.loads(json.dumps(case)))
    return {"corr": {}, "oracle": oracle, "distribution": dist, "samples": samples, "nontrivial": len(distinct)}


def _counts(items):
    out = []
    for it in items:
        if it[0] == "loop": out.append(it[1]); out += _counts(it[2])
        elif it[0] == "blk": out += _counts(it[1])
        elif it[0] == "sub": out += [x[1] for x in it[2] if x[0] == "iloop"]
    return out


def replay(case: dict, driver: str = DEFAULT_DRIVER) -> dict:
    checks = exec_case(case, _load())
    fails = [f"{name}: {detail}" for name, ok, detail in checks if not ok]
    return {"oracle_ok": not fails, "detail": "; ".join(fails[:4]) or "ok",
            "impl": {"checks": len(checks), "failed": len(fails), "scope": scope_of(case)}}


def main():
    ap = argparse.ArgumentParser()
    ap.add_argument("--seed", type=int, default=0)
    ap.add_argument("--n", type=int, default=600)
    ap.add_argument("--thorough", action="store_true")
    a = ap.parse_args()
    res = run(a.seed, a.n, thorough=a.thorough)
    bad = 0
    for name, d in res["oracle"].items():
        bad += d["total"]
        print(f"oracle {name:26} cases {d['cases']:6}  failures {d['total']}")
        for x in d["failures"][:3]:
            print("   ", x["detail"][:2500])
    print("distribution", json.dumps(res["distribution"], sort_keys=True), "nontrivial", res["nontrivial"])
    sys.exit(0 if bad == 0 else 1)


if __name__ == "__main__":
    main()
