#!/venv/bin/python
"""C08 at SCALE, with UNUSUAL IDENTIFIERS, over the DEFAULTS of the public entry points and over the VALUE KINDS of
hardware output lists.

The other C08 streams (walk_diff, extra_c08, c08_history, c08_edge) keep programs small: at most ~15 statements per
block, nesting <= 12 (30 thorough), a handful of lets called n / m / k, no alias, macros F / G only, Python ints and
bit strings in a Python list as outputs, run_jaqal_circuit(c) with or without one explicit backend.  Here every case
pushes ONE dimension across the thresholds 8 / 16 / 32 / 64 / 128 / 256 (1000 where cheap; t-1, t, t+1 and the sizes
20 / 33 / 34 / 40 / 49 / 65 / 100 / 200) while the rest of the program stays small:

    depth    nesting depth of loops around subcircuits (<= 129; beyond 120 "Program is nested too deeply" is a
             documented rejection)
    width    statements of one block (top level, a loop body, a top-level { } block): the structure sits at the
             positions t-1, t, t+1 and at both ends; flat subcircuit numbers >= 10 / 100 / 256
    gates    inside ONE subcircuit: number of gate statements, iterations of a loop (bodies of period 2 and 3 - X, SWAP,
             ROT3 - so that a shortcut modulo a power of two shows), depth of nested loops, width of a parallel block
             (8..14 qubits, emulated), many statements on one `;`-separated line
    iters    loop counts (literal, let-valued, overridden in both directions) around one / two subcircuits, outside
             and inside another loop
    macros   chains of macros calling each other (<= 100 must work), many macro definitions of which the ones at
             threshold positions are called, macros with many parameters; a chain whose innermost macro holds
             `loop c { subcircuit { } }` (arguable scope: oracle scale_scope_macro_subcircuit)
    alias    chains of map aliases (whole / slices / single qubits; <= 130), many aliases
    header   many lets of which the ones at threshold positions are loop counts / qubit indices / the register size,
             override dicts with one entry, a few, or one entry per let
    qubits   registers of 8..14 qubits in the emulator, 16..20 for the output-list parser
    ident    legal but unusual spellings for lets / registers / aliases / macros / macro parameters / gates: dotted
             names, pairs that differ by a dotted prefix or suffix, dunder names, prefixes / extensions / case
             variants / dotted uses of keywords and of prepare_all / measure_all (also as NATIVE one-qubit gates:
             prepare_all_x, prepare_al, measure_all_, measure_all.x, loop.X ... see EXTRA_GATES), gate names as let
             names, names of 255..5000 characters that agree on their first 253+ characters; the first two loop
             counts are such a pair and have DIFFERENT values, overrides address one of the two
    outs     small programs on >= 4 qubits whose outputs are values like 10, 11, 100, 101 and the extremes

Every case also draws an ENTRY configuration (the defaults dimension):
    front    parse_jaqal_string / parse_jaqal_file (inject_pulses) | the same with `usepulses` statements and
             autoload_pulses=True (one module, the same statement twice, the gate set split over two modules) |
             run_jaqal_string / run_jaqal_file; optionally a comment (block or line) in front of every top-level statement
    flags    expand_let / expand_let_map / expand_macro / return_usepulses, override_dict absent / None / {} / dict
    passes   caller-side fill_in_let(c) / (c, None) / (c, {}) / (c, dict), expand_subcircuits, fill_in_map,
             expand_macros() / (preserve_definitions=True / False), in pipeline order
    run      run_jaqal_circuit(c) | backend=None | backend=UnitarySerializedEmulator() | emulator_backend=... |
             force_sim=True
and an output list whose CONTAINER is a list, a tuple or a numpy array and whose ELEMENTS are Python ints, bit strings,
numpy integer scalars of every width (int8..int64, uint8..uint64, intp) or numpy.str_ bit strings.

Expectations come from an independent reference over the abstract program (unrolling for the visits, textual order
for the numbering, alias resolution with Python slicing, classical propagation of X/Y/Z/CX for the measured bits).

oracle (corr is empty):
  scale_terminates          every library call returns within the alarm
  scale_accepted            constructing the valid program (parse + flags + caller-side passes) raises nothing
  scale_emulator_visits     emulator: [readout.subcircuit.index] == reference unrolling; subcircuits 0,1,2,... in
                            flat order (also the never-visited ones); no exception
  scale_output_list_visits  parse_jaqal_output_list, outputs = Python list of int / str of matching length: same
                            attribution, readout k carries output k
  scale_output_kinds        the same statement when the list is a tuple / numpy array or holds numpy scalars
  scale_own_readouts        readout indices 0,1,2,...; each subcircuit's .readouts are its own readouts in order and
                            its relative frequencies count exactly those
  scale_outcome_possible    every sampled outcome has non-zero probability in its subcircuit's distribution and agrees
                            with the classically determined bits of THAT subcircuit
  scale_scope_macro_subcircuit   all of the above for programs whose macros contain subcircuits

CLI: c08_scale.py [--seed S] [--n N] [--thorough]
"""
import os, sys, json, random, signal, argparse, tempfile

DEFAULT_DRIVER = "/verif/lean/.lake/build/bin/jaqal-model"
CORE_ORACLES = ("scale_terminates", "scale_accepted", "scale_emulator_visits", "scale_output_list_visits",
                "scale_output_kinds", "scale_own_readouts", "scale_outcome_possible")
ORACLES = CORE_ORACLES + ("scale_scope_macro_subcircuit",)
STREAMS = ("depth", "width", "ident", "gates", "iters", "macros", "alias", "header", "qubits", "ident", "outs")
TH = (8, 16, 32, 64, 128, 256)
ODD = (20, 33, 34, 40, 49, 65, 100, 200)
MAX_VISITS = 3000
EMU_MAX_QUBITS = 14
DEEP_REJECT_FROM = 120        # nesting / chain length from which "Program is nested too deeply" is a legitimate answer
NP_INT_KINDS = ("int8", "int16", "int32", "int64", "uint8", "uint16", "uint32", "uint64", "intp")
EXTRA_GATES = (("cal.X", "U_Z"), ("X.cal", "U_X"), ("__X", "U_Y"), ("prepare_all_x", "U_X"), ("prepare_all.z", "U_Z"), ("prepare_al", "U_X"),
               ("measure_all_", "U_Z"), ("measure_all.x", "U_X"), ("measure_al", "U_Z"), ("subcircuit_", "U_X"), ("loop.X", "U_X"))
FLIP = {"X": 1, "Y": 1, "Z": 0, "I_X": 0, "S": 0}
FLIP.update({nm: int(u != "U_Z") for nm, u in EXTRA_GATES})
_real = {}
_gates = {}


def _root():
    root = os.path.dirname(os.path.dirname(os.path.dirname(os.path.abspath(__file__))))   # .../verif
    if not os.path.isfile(os.path.join(root, "harness", "gates.py")):
        root = "/verif"
    return root


def gate_set(kind="all"):
    """the injected gate set, extended by one-qubit gates with dotted / dunder / keyword-like names (EXTRA_GATES: cal.X is
    a Z (no flip), X.cal an X, __X a Y, prepare_all_x an X, measure_all_ a Z, ...).  kind "a" / "b" split it in two (for two usepulses statements)."""
    if not _gates:
        if _root() not in sys.path:
            sys.path.insert(0, _root())
        from harness import gates as HG
        from jaqalpaq.core import GateDefinition, Parameter, ParamType
        g = dict(HG.GATES_IDLE)
        for nm, u in EXTRA_GATES:
            g[nm] = GateDefinition(nm, [Parameter("q", ParamType.QUBIT)], ideal_unitary=getattr(HG, u))
        a = {k: v for k, v in g.items() if k in ("X", "Y", "Z", "S", "SX", "I_X") or k in FLIP}
        _gates.update(all=g, a=a, b={k: v for k, v in g.items() if k not in a})
    return _gates[kind]


def _load():
    """import jaqalpaq lazily (no work at import time)"""
    if _real:
        return _real
    os.environ["JAQALPAQ_RUN_EMULATOR"] = "1"
    root = _root()
    if root not in sys.path:
        sys.path.insert(0, root)
    import warnings
    warnings.filterwarnings("ignore")
    import numpy
    from harness import timeouts as T
    from jaqalpaq.parser import parse_jaqal_string, parse_jaqal_file
    from jaqalpaq.emulator import run_jaqal_circuit, run_jaqal_string, run_jaqal_file
    from jaqalpaq.emulator.unitary import UnitarySerializedEmulator
    from jaqalpaq.core.algorithm import fill_in_let, expand_subcircuits, expand_macros
    from jaqalpaq.core.algorithm.fill_in_map import fill_in_map
    from jaqalpaq.core.result import parse_jaqal_output_list
    from jaqalpaq.error import JaqalError
    # a directory with three pulse modules for `from .NAME usepulses *`
    d = tempfile.mkdtemp(prefix="c08scale_")
    import atexit, shutil
    atexit.register(shutil.rmtree, d, True)
    me = "harness.agents.c08_scale"
    for mod, kind in (("c08s_all", "all"), ("c08s_a", "a"), ("c08s_b", "b")):
        os.makedirs(os.path.join(d, mod))
        with open(os.path.join(d, mod, "__init__.py"), "w") as f:
            f.write("")
        with open(os.path.join(d, mod, "jaqal_gates.py"), "w") as f:
            f.write(f"import sys\nif {root!r} not in sys.path: sys.path.insert(0, {root!r})\n"
                    f"from {me} import gate_set\nALL_GATES = gate_set({kind!r})\n")
    _real.update(T=T, np=numpy, parse=parse_jaqal_string, parse_file=parse_jaqal_file, run=run_jaqal_circuit,
                 run_string=run_jaqal_string, run_file=run_jaqal_file, Backend=UnitarySerializedEmulator,
                 fill=fill_in_let, es=expand_subcircuits, em=expand_macros, fmap=fill_in_map,
                 out=parse_jaqal_output_list, JaqalError=JaqalError, dir=d)
    return _real


class Hang(Exception):
    pass


def _alarm(*a):
    raise Hang()


# ---------------------------------------------------------------- abstract programs and the reference
# prog = {"lets": [[name, int]], "reg": [name, size], "maps": [[name, src, sel]], "macros": [[name, [params], body, kind]],
#         "items": [...], "sep": "\n" | "; "}
#   size: int | let name;   sel: None | ["idx", i] | ["slice", lo, hi, step]  (i/lo/hi/step: int | None | let name)
#   macro kind "inner": body = inner items;  kind "top": body = top items (it holds subcircuits)
# top items:    ["sub", form, inner]   form "sc" | "pm"
#               ["loop", count, items] | ["blk", items] | ["mcall", name, [count, ...]]
# inner items:  ["g", gate, q] | ["cx", q, q] | ["rot3", q, q, q] | ["swap", q, q] | ["iloop", count, inner] | ["par", [inner]] | ["line", [inner]]
#               ["call", name, [["q", q] | ["c", count], ...]]
#   q: [name, idx]   name = register / alias (idx int | let name, or None for a single-qubit alias) or a macro parameter (idx None)
#   count: int | let name | macro parameter

class Ref:
    def __init__(self, prog, override=None):
        self.prog = prog
        self.env = {nm: int(v) for nm, v in prog["lets"]}
        if override:
            self.env.update({k: int(v) for k, v in override.items()})
        self.nq = self.val(prog["reg"][1], {})
        self.alias = {prog["reg"][0]: list(range(self.nq))}
        for nm, src, sel in prog["maps"]:
            base = self.alias[src]
            if sel is None:
                pos = list(base)
            elif sel[0] == "idx":
                pos = base[self.val(sel[1], {})]          # an int: the alias names ONE qubit
            else:
                lo, hi, st = (None if x is None else self.val(x, {}) for x in sel[1:])
                pos = base[slice(lo, hi, st)]
            self.alias[nm] = pos
        self.macros = {m[0]: m for m in prog["macros"]}

    def val(self, c, bind):
        if isinstance(c, int): return c
        if c in bind: return bind[c]
        return self.env[c]

    def qpos(self, q, bind):
        nm, idx = q
        if nm in bind: return bind[nm]
        a = self.alias[nm]
        if isinstance(a, int): return a
        return a[self.val(idx, bind)]

    # ---- visits
    def visits(self, cap=MAX_VISITS):
        """-> (visit sequence, [(sub item, bindings)] in flat order) or None when longer than cap"""
        self.k = 0
        self.subs = []
        try:
            out = self._walk(self.prog["items"], {}, True, cap)
        except OverflowError:
            return None
        return out, self.subs

    def _walk(self, items, bind, live, cap):
        out = []
        for it in items:
            if it[0] == "sub":
                if live: out.append(self.k)
                self.subs.append((it, bind)); self.k += 1
            elif it[0] == "loop":
                c = self.val(it[1], bind)
                body = self._walk(it[2], bind, live and c > 0, cap)
                if live and c > 0 and body:
                    if c * len(body) > cap: raise OverflowError
                    out += body * c
            elif it[0] == "blk":
                out += self._walk(it[1], bind, live, cap)
            else:
                m = self.macros[it[1]]
                nb = {p: self.val(a, bind) for p, a in zip(m[1], it[2])}
                out += self._walk(m[2], nb, live, cap)
            if len(out) > cap: raise OverflowError
        return out

    # ---- measured bits
    def support(self):
        """per subcircuit the bits (0 / 1 / None=unknown) after its gates, qubit q at position q"""
        res = []
        for it, bind in self.subs:
            st = [0] * self.nq
            self.steps = 0
            self._bits(it[2], bind, st)
            res.append(st)
        return res

    def _bits(self, inner, bind, st):
        for it in inner:
            self.steps += 1
            if self.steps > 400000: raise OverflowError
            k = it[0]
            if k == "g":
                p = self.qpos(it[2], bind)
                if it[1] == "SX": st[p] = None
                elif FLIP[it[1]] and st[p] is not None: st[p] = 1 - st[p]
            elif k == "cx":
                c, t = self.qpos(it[1], bind), self.qpos(it[2], bind)
                if st[c] is None: st[t] = None
                elif st[c] == 1 and st[t] is not None: st[t] = 1 - st[t]
            elif k == "rot3":      # ROT3 a b c: the bit of a moves to b, b to c, c to a
                a, b, c = (self.qpos(q, bind) for q in it[1:4])
                st[a], st[b], st[c] = st[c], st[a], st[b]
            elif k == "swap":
                a, b = self.qpos(it[1], bind), self.qpos(it[2], bind)
                st[a], st[b] = st[b], st[a]
            elif k == "iloop":
                n = self.val(it[1], bind)
                if it[2]:
                    for _ in range(n): self._bits(it[2], bind, st)
            elif k in ("par", "line"):
                self._bits(it[1], bind, st)
            else:
                m = self.macros[it[1]]
                nb = {}
                for p, a in zip(m[1], it[2]):
                    nb[p] = self.qpos(a[1], bind) if a[0] == "q" else self.val(a[1], bind)
                self._bits(m[2], nb, st)


# ---------------------------------------------------------------- text

def q_text(q):
    return q[0] if q[1] is None else f"{q[0]}[{q[1]}]"


def inner_text(inner, ind, sep="\n"):
    out = []
    for it in inner:
        k = it[0]
        if k == "g": out.append(f"{ind}{it[1]} {q_text(it[2])}")
        elif k == "cx": out.append(f"{ind}CX {q_text(it[1])} {q_text(it[2])}")
        elif k == "rot3": out.append(f"{ind}ROT3 {q_text(it[1])} {q_text(it[2])} {q_text(it[3])}")
        elif k == "swap": out.append(f"{ind}SWAP {q_text(it[1])} {q_text(it[2])}")
        elif k == "iloop": out.append(f"{ind}loop {it[1]} {{\n" + inner_text(it[2], ind + " ") + f"\n{ind}}}")
        elif k == "par": out.append(f"{ind}< " + " | ".join(inner_text([g], "") for g in it[1]) + " >")
        elif k == "line": out.append(ind + "; ".join(inner_text([g], "") for g in it[1]))
        else: out.append(f"{ind}{it[1]} " + " ".join(q_text(a[1]) if a[0] == "q" else str(a[1]) for a in it[2]))
    return "\n".join(out)


def items_text(items, ind="", comments=False):
    out = []
    for n, it in enumerate(items):
        if comments: out.append(f"/* statement {n}: {it[0]} */" if n % 3 else f"// statement {n} /* {it[0]}")
        if it[0] == "sub":
            body = inner_text(it[2], ind + " ")
            if it[1] == "sc": out.append(f"{ind}subcircuit {{\n{body}\n{ind}}}")
            else: out.append(f"{ind}prepare_all\n{body}\n{ind}measure_all")
        elif it[0] == "loop": out.append(f"{ind}loop {it[1]} {{\n" + items_text(it[2], ind + " ") + f"\n{ind}}}")
        elif it[0] == "blk": out.append(f"{ind}{{\n" + items_text(it[1], ind + " ") + f"\n{ind}}}")
        else: out.append(f"{ind}{it[1]} " + " ".join(str(a) for a in it[2]))
    return "\n".join(out)


def sel_text(sel):
    if sel is None: return ""
    if sel[0] == "idx": return f"[{sel[1]}]"
    lo, hi, st = ("" if x is None else str(x) for x in sel[1:])
    return f"[{lo}:{hi}" + (f":{st}" if st else "") + "]"


def prog_text(prog, use=(), comments=False):
    head = "".join(f"from .{m} usepulses *\n" for m in use)
    if comments: head += "/* header\n   loop 3 { subcircuit { } } */\n"
    head += "".join(f"let {nm} {v}\n" for nm, v in prog["lets"])
    head += f"register {prog['reg'][0]}[{prog['reg'][1]}]\n"
    head += "".join(f"map {nm} {src}{sel_text(sel)}\n" for nm, src, sel in prog["maps"])
    for nm, params, body, kind in prog["macros"]:
        btxt = inner_text(body, "  ") if kind == "inner" else items_text(body, "  ")
        head += f"macro {nm} {' '.join(params)}{' ' if params else ''}{{\n{btxt}\n}}\n"
    return head + items_text(prog["items"], "", comments) + ("/* the end */" if comments else "\n")


# ---------------------------------------------------------------- generator helpers

def pick_size(rng, cap, lo=7, big=None):
    """a size at / next to a threshold, <= cap"""
    pool = [t + d for t in TH for d in (-1, 0, 0, 1) if lo <= t + d <= cap] + [x for x in ODD if lo <= x <= cap]
    if big and rng.random() < big[1]:
        return big[0] + rng.choice([-1, 0, 0, 1])
    return rng.choice(pool)


def marks(n):
    """positions of a block of n statements that carry structure: both ends and t-1, t, t+1 for every threshold"""
    s = {0, n - 1, n // 2, max(0, n - 2)}
    for t in TH + (10, 100, 1000):
        for d in (-1, 0, 1):
            if 0 <= t + d < n: s.add(t + d)
    return sorted(s)


def base_prog(items, reg=("r", 2), lets=(), maps=(), macros=()):
    return {"lets": [list(x) for x in lets], "reg": list(reg), "maps": [list(x) for x in maps],
            "macros": [list(x) for x in macros], "items": items}


def small_inner(rng, reg, nq, maxlen=2):
    out = []
    for _ in range(rng.randint(0, maxlen)):
        r = rng.random()
        if r < 0.7 or nq < 2: out.append(["g", rng.choice(["X", "X", "X", "Y", "Z", "SX"]), [reg, rng.randrange(nq)]])
        elif r < 0.85:
            a, b = rng.sample(range(nq), 2); out.append(["cx", [reg, a], [reg, b]])
        else: out.append(["iloop", rng.choice([0, 1, 2, 3]), [["g", "X", [reg, rng.randrange(nq)]]]])
    return out


def mark_sub(rng, reg, nq, k):
    """a subcircuit whose outcome is the number k (mod 2**nq): distinguishes neighbours"""
    v = k % (2 ** nq)
    return ["sub", rng.choice(["sc", "sc", "pm"]), [["g", "X", [reg, q]] for q in range(nq) if (v >> q) & 1]]


def gen_sub(rng, reg, nq):
    return ["sub", rng.choice(["sc", "sc", "pm"]), small_inner(rng, reg, nq)]


# ---------------------------------------------------------------- streams: each -> (prog, override, {"dim": size})

def stream_depth(rng, thorough):
    nq = rng.choice([1, 2, 3])
    d = pick_size(rng, 129)
    lets, cn = [], []
    if rng.random() < 0.5:
        lets = [["n", rng.choice([1, 1, 2])], ["one", 1]]; cn = ["n", "one", "one"]
    override = None
    if lets and rng.random() < 0.4:
        override = {"n": rng.choice([0, 1, 2])}
    twos = 0
    node = [gen_sub(rng, "r", nq)] if rng.random() < 0.9 else []
    zero_at = rng.randrange(d) if rng.random() < 0.2 else -1
    for level in range(d):
        before = [gen_sub(rng, "r", nq)] if rng.random() < 0.1 else []
        after = [gen_sub(rng, "r", nq)] if rng.random() < 0.1 else []
        c = 1
        r = rng.random()
        if level == zero_at: c = 0
        elif r < 0.06 and twos < 5: c = 2; twos += 1
        elif r < 0.08 and twos < 4: c = 3; twos += 2
        elif r < 0.25 and cn: c = rng.choice(cn)
        node = before + [["loop", c, node]] + after
    # the levels next to a threshold carry a sibling each, so that "stops at depth t" shows in the numbering
    return base_prog(node, ("r", nq), lets), override, {"depth": d}


def stream_width(rng, thorough):
    nq = rng.choice([2, 3, 4])
    n = pick_size(rng, 257, big=(1000, 0.12 if not thorough else 0.2))
    dense = rng.random() < 0.45
    ms = set(marks(n))
    xs = []
    for i in range(n):
        if dense:
            if i in ms and rng.random() < 0.6: xs.append(["loop", rng.choice([0, 1, 2, 2, 3]), [mark_sub(rng, "r", nq, i)]])
            else: xs.append(mark_sub(rng, "r", nq, i))
        else:
            if i in ms and rng.random() < 0.75:
                r = rng.random()
                if r < 0.4: xs.append(mark_sub(rng, "r", nq, i))
                elif r < 0.75: xs.append(["loop", rng.choice([0, 1, 2, 2, 3]), [mark_sub(rng, "r", nq, i), gen_sub(rng, "r", nq)][:rng.choice([1, 2])]])
                else: xs.append(["loop", 2, [["loop", rng.choice([0, 1, 2]), [mark_sub(rng, "r", nq, i)]], gen_sub(rng, "r", nq)]])
            else:
                xs.append(["loop", rng.choice([0, 1, 1, 2]), []])
    c = rng.random()
    if c < 0.4: items = xs
    elif c < 0.75: items = [gen_sub(rng, "r", nq), ["loop", rng.choice([1, 2, 2]), xs]] + ([gen_sub(rng, "r", nq)] if rng.random() < 0.5 else [])
    else: items = [["blk", xs], gen_sub(rng, "r", nq)]
    return base_prog(items, ("r", nq)), None, {"width": n}


def stream_gates(rng, thorough):
    t = rng.random()
    nq = rng.choice([1, 2, 3])
    lets, override = [], None
    if t < 0.3:          # many gate statements
        n = pick_size(rng, 257, big=(1000, 0.15))
        body = [["g", rng.choice(["X", "X", "Y", "Z"]), ["r", rng.randrange(nq)]] for _ in range(n)]
        if rng.random() < 0.3: body = [["line", body]]
        dim = {"gates": n}
    elif t < 0.55:       # many iterations of a loop inside the subcircuit
        n = pick_size(rng, 257, big=(1000, 0.2))
        c = n
        if rng.random() < 0.5:
            lets = [["big", n]]; c = "big"
            if rng.random() < 0.5:
                lets = [["big", rng.choice([0, 1, 2])]]; override = {"big": n}
        r = rng.random()
        if r < 0.45:       # a body of period 3 (a power-of-two shortcut does not preserve it)
            nq = 3
            qs = [0, 1, 2]; rng.shuffle(qs)
            body = [["g", "X", ["r", rng.randrange(3)]], ["iloop", c, [["rot3"] + [["r", q] for q in qs]]]]
        elif r < 0.6:
            nq = rng.choice([2, 3])
            body = [["g", "X", ["r", 0]], ["iloop", c, [["swap", ["r", 0], ["r", 1]]]]]
        else:
            body = [["iloop", c, [["g", "X", ["r", rng.randrange(nq)]]] + ([["g", "Y", ["r", rng.randrange(nq)]]] if rng.random() < 0.3 else [])]]
        dim = {"inner_iters": n}
    elif t < 0.8:        # deep loops inside the subcircuit
        d = pick_size(rng, 129)
        body = [["g", "X", ["r", rng.randrange(nq)]]]
        twos = 0
        for level in range(d):
            c = 1
            if rng.random() < 0.08 and twos < 6: c = rng.choice([2, 3]); twos += 1
            extra = [["g", "X", ["r", rng.randrange(nq)]]] if rng.random() < 0.1 else []
            body = extra + [["iloop", c, body]]
        dim = {"inner_depth": d}
    else:                # a wide parallel block
        nq = rng.randint(8, 14 if thorough else 12)
        qs = list(range(nq)); rng.shuffle(qs)
        w = rng.randint(max(2, nq - 3), nq)
        body = [["par", [["g", rng.choice(["X", "X", "Y", "Z"]), ["r", q]] for q in qs[:w]]]]
        dim = {"par_width": w}
    big = ["sub", rng.choice(["sc", "pm"]), body]
    items = [gen_sub(rng, "r", nq), ["loop", rng.choice([1, 2, 3]), [big] + ([gen_sub(rng, "r", nq)] if rng.random() < 0.5 else [])]]
    if rng.random() < 0.5: items.append(big if rng.random() < 0.5 else gen_sub(rng, "r", nq))
    return base_prog(items, ("r", nq), lets), override, dim


def stream_iters(rng, thorough):
    nq = rng.choice([1, 2, 3])
    n = pick_size(rng, 257, big=(1000, 0.15))
    lets, override, c = [], None, n
    r = rng.random()
    if r < 0.25: lets = [["reps", n]]; c = "reps"
    elif r < 0.45: lets = [["reps", rng.choice([0, 1, 2, 127])]]; override = {"reps": n}; c = "reps"
    elif r < 0.55: lets = [["reps", n]]; override = {"reps": rng.choice([0, 1, 2])}; c = "reps"
    s = lambda: gen_sub(rng, "r", nq)
    shape = rng.random()
    if shape < 0.35: core = ["loop", c, [s()]]
    elif shape < 0.5: core = ["loop", c, [s(), s()]]
    elif shape < 0.62: core = ["loop", c, [["loop", rng.choice([0, 1, 2]), [s()]], s()]]
    elif shape < 0.74: core = ["loop", rng.choice([2, 3]), [["loop", c, [s()]]] + ([s()] if rng.random() < 0.5 else [])]
    elif shape < 0.84: core = ["loop", c, [["loop", 1, [s()]]]]
    elif shape < 0.92: core = ["loop", c, [["sub", "pm", small_inner(rng, "r", nq)]]]
    else: core = ["loop", c, [["loop", 0, [s()]], ["loop", 1, []], s()]]
    items = ([s()] if rng.random() < 0.5 else []) + [core] + ([s()] if rng.random() < 0.5 else [])
    if rng.random() < 0.2: items.append(["loop", c, [s()]])
    return base_prog(items, ("r", nq), lets), override, {"iters": n}


def stream_macros(rng, thorough):
    nq = rng.choice([2, 3])
    t = rng.random()
    lets, override = [], None
    q = lambda: ["r", rng.randrange(nq)]
    if t < 0.35:         # chain of macros, each calls the previous one
        k = pick_size(rng, 130, lo=7)
        macros = [["m0", ["a"], [["g", "X", ["a", None]]], "inner"]]
        for i in range(1, k + 1):
            body = [["call", f"m{i - 1}", [["q", ["a", None]]]]]
            if rng.random() < 0.3: body.insert(rng.choice([0, 1]), ["g", rng.choice(["X", "Y", "Z"]), ["a", None]])
            macros.append([f"m{i}", ["a"], body, "inner"])
        calls = [k] + [rng.choice([k, k - 1, k // 2, 0]) for _ in range(rng.randint(0, 2))]
        items = [["sub", "sc", [["call", f"m{j}", [["q", q()]]]]] for j in calls]
        items = [items[0], ["loop", rng.choice([1, 2]), items[1:] + [gen_sub(rng, "r", nq)]]]
        dim = {"macro_chain": k}
    elif t < 0.5:        # chain whose innermost macro holds loop c { subcircuit }
        k = pick_size(rng, 100, lo=7)
        macros = [["m0", ["c"], [["loop", "c", [["sub", "sc", [["g", "X", ["r", 0]]]]]]], "top"]]
        for i in range(1, k + 1):
            body = [["mcall", f"m{i - 1}", ["c"]]]
            if rng.random() < 0.05: body.append(["sub", "sc", []])
            macros.append([f"m{i}", ["c"], body, "top"])
        lets = [["n", rng.choice([0, 1, 2])]]
        if rng.random() < 0.4: override = {"n": rng.choice([0, 1, 2, 3])}
        items = [gen_sub(rng, "r", nq), ["mcall", f"m{k}", [rng.choice([0, 1, 2, "n"])]],
                 ["loop", rng.choice([1, 2]), [["mcall", f"m{rng.choice([k, k - 1, 1])}", [rng.choice([1, 2, "n"])]], gen_sub(rng, "r", nq)]]]
        dim = {"macro_chain_top": k}
    elif t < 0.8:        # many definitions; the ones at threshold positions are called
        n = pick_size(rng, 257, big=(1000, 0.08))
        macros = []
        for i in range(n):
            body = [["g", "X", ["a", None]]] * (i % 2) + [["g", "Z", ["a", None]]]
            if i and rng.random() < 0.2: body.append(["call", f"d{rng.randrange(i)}", [["q", ["a", None]]]])
            macros.append([f"d{i}", ["a"], body, "inner"])
        ms = marks(n)
        items = []
        for j in rng.sample(ms, min(len(ms), rng.randint(3, 6))):
            sub = ["sub", "sc", [["call", f"d{j}", [["q", q()]]]]]
            items.append(sub if rng.random() < 0.6 else ["loop", rng.choice([0, 1, 2]), [sub]])
        dim = {"macro_defs": n}
    else:                # many parameters
        p = pick_size(rng, 129)
        params = [f"p{i}" for i in range(p)]
        kinds = [rng.choice("qqc") for _ in range(p)]
        body = []
        for j in rng.sample(marks(p), min(len(marks(p)), rng.randint(2, 5))):
            if kinds[j] == "q": body.append(["g", "X", [params[j], None]])
            else:
                tq = rng.choice([i for i, x in enumerate(kinds) if x == "q"] or [None])
                if tq is None: continue
                body.append(["iloop", params[j], [["g", "X", [params[tq], None]]]])
        macros = [["wide", params, body, "inner"]]
        items = []
        for _ in range(rng.randint(1, 3)):
            args = [["q", q()] if kd == "q" else ["c", rng.choice([0, 1, 2, 3])] for kd in kinds]
            items.append(["sub", "sc", [["call", "wide", args]]])
        items = [items[0], ["loop", 2, items[1:] + [gen_sub(rng, "r", nq)]]]
        dim = {"macro_params": p}
    return base_prog(items, ("r", nq), lets, (), macros), override, dim


def stream_alias(rng, thorough):
    t = rng.random()
    nq = rng.choice([4, 5, 6])
    lets = []
    if t < 0.55:         # a chain
        k = pick_size(rng, 130 if thorough else 101, lo=7)
        if k > 66 and rng.random() < (0.4 if thorough else 0.6): k = rng.choice([31, 32, 33, 63, 64, 65])       # cubic cost
        maps, prev, size = [], "r", nq
        narrow = set(rng.sample(range(k), min(k, rng.randint(0, 3))))
        for i in range(k):
            sel = None
            if i in narrow and size >= 2:
                r = rng.random()
                if r < 0.4: sel = ["slice", 1, None, None]; size -= 1
                elif r < 0.7: sel = ["slice", None, size - 1, None]; size -= 1
                elif size >= 3: sel = ["slice", None, None, 2]; size = (size + 1) // 2
                else: sel = ["slice", 0, size, None]
            maps.append([f"a{i}", prev, sel]); prev = f"a{i}"
        names = [(prev, size), (f"a{k // 2}", None), ("a0", None)]
        dim = {"alias_chain": k}
    else:                # many aliases
        n = pick_size(rng, 257, big=(1000, 0.05))
        maps = []
        for i in range(n):
            r = rng.random()
            if r < 0.3: sel = None
            elif r < 0.6: sel = ["idx", rng.randrange(nq)]
            else:
                lo = rng.randrange(nq - 1); sel = ["slice", lo, rng.randint(lo + 1, nq), None]
            maps.append([f"b{i}", "r", sel])
        names = [(f"b{j}", None) for j in rng.sample(marks(n), min(3, len(marks(n))))]
        dim = {"alias_count": n}
    prog = base_prog([], ("r", nq), lets, maps)
    ref = Ref(prog)

    def use(nm):
        a = ref.alias[nm]
        if isinstance(a, int): return [nm, None]
        return [nm, rng.randrange(len(a))]
    items = []
    for nm, _ in names:
        sub = ["sub", rng.choice(["sc", "pm"]), [["g", "X", use(nm)]] + ([["g", rng.choice(["X", "Y", "Z"]), use(rng.choice(names)[0])]] if rng.random() < 0.4 else [])]
        items.append(sub if rng.random() < 0.5 else ["loop", rng.choice([0, 1, 2, 3]), [sub]])
    prog["items"] = items
    return prog, None, dim


def stream_header(rng, thorough):
    n = pick_size(rng, 257, big=(1000, 0.1))
    nq = rng.choice([2, 3, 4])
    lets = [[f"c{i}", rng.choice([0, 1, 1, 2, 2, 3])] for i in range(n)]
    ms = marks(n)
    reg = ("r", nq)
    if rng.random() < 0.3:
        j = rng.choice(ms); lets[j][1] = nq; reg = ("r", f"c{j}"); ms = [x for x in ms if x != j]
    idx = None
    if rng.random() < 0.4 and len(ms) > 2:
        j = rng.choice(ms); lets[j][1] = rng.randrange(nq); idx = f"c{j}"; ms = [x for x in ms if x != j]
    counts = [f"c{j}" for j in rng.sample(ms, min(len(ms), rng.randint(2, 5)))]
    override = None
    decl = dict((a, b) for a, b in lets)
    other = lambda nm: rng.choice([v for v in (0, 1, 2, 3) if v != decl[nm]])
    r = rng.random()
    if r < 0.2: nm = rng.choice(counts); override = {nm: other(nm)}
    elif r < 0.35: override = {nm: other(nm) for nm in counts}
    elif r < 0.6: override = {nm: (other(nm) if nm in counts else v) for nm, v in lets}
    elif r < 0.7:      # an entry for every let EXCEPT the ones used: they keep their declared values
        override = {nm: rng.choice([0, 5, 7]) for nm, v in lets if nm not in counts and nm != idx and nm != reg[1]}

    def s():
        body = small_inner(rng, "r", nq)
        if idx: body.append(["g", "X", ["r", idx]])
        return ["sub", rng.choice(["sc", "pm"]), body]
    items = []
    for c in counts:
        r = rng.random()
        if r < 0.5: items.append(["loop", c, [s()]])
        elif r < 0.8: items.append(["loop", c, [["loop", rng.choice(counts), [s()]], s()]])
        else: items.append(["loop", 2, [["loop", c, [s()]]]])
        if rng.random() < 0.3: items.append(s())
    if rng.random() < 0.3:
        rng.shuffle(lets)
    return base_prog(items, reg, lets), override, {"lets": n}


def stream_qubits(rng, thorough):
    emu = rng.random() < 0.6
    nq = rng.randint(8, 14 if thorough else 13) if emu else rng.choice([15, 16, 17, 20])
    lets, reg = [], ("r", nq)
    if rng.random() < 0.3: lets = [["w", nq]]; reg = ("r", "w")

    def s():
        body = []
        for _ in range(rng.randint(0, 4)):
            r = rng.random()
            if r < 0.6: body.append(["g", rng.choice(["X", "X", "Y", "Z"]), ["r", rng.choice([0, nq - 1, nq - 2, rng.randrange(nq)])]])
            elif r < 0.9:
                a, b = rng.sample(range(nq), 2); body.append(["cx", ["r", a], ["r", b]])
            else: body.append(["g", "SX", ["r", rng.randrange(nq)]])
        return ["sub", rng.choice(["sc", "pm"]), body]
    items = [s(), ["loop", rng.choice([0, 1, 2, 3]), [s(), s()][:rng.choice([1, 2])]], s()]
    if rng.random() < 0.3: items.insert(1, ["sub", "sc", [["g", "X", ["r", q]] for q in range(nq)]])
    return base_prog(items, reg, lets), None, {"qubits": nq}


KEYWORDISH = ["loopy", "lo", "loo", "loop_", "loops", "Loop", "LOOP", "loop.n", "n.loop", "let_", "le", "lets", "Let", "let.x",
              "ma", "maps", "map_", "map.a", "macr", "macros", "Macro", "macro.m", "reg", "registers", "register_", "Register",
              "register.r", "sub", "subcircuits", "subcircuit_", "subcircui", "Subcircuit", "subcircuit.k", "prepare",
              "prepare_al", "prepare_all_", "prepare_all.x", "Prepare_all", "measure", "measure_al", "measure_all_",
              "measure_all.y", "Measure_all", "fro", "from_", "from.x", "as_", "a.as", "imports", "import_", "usepulses_",
              "usepulse", "branch_", "bran", "branch.b", "pi", "e", "inf", "nan", "None", "True", "self", "lambda"]
DUNDER = ["__macro__", "__c10", "__r0", "__in_context__", "_", "__", "___", "_0", "_1", "__0", "__init__", "__class__",
          "__dict__", "_r", "__loop", "__subcircuit", "__index", "_.a", "a._", "__.__"]
GATEISH = ["X", "Y", "Z", "CX", "SX", "I_X", "cal.X", "X.cal", "__X", "x", "cx", "X_", "X.X", "I_", "I_cal.X"]
NATIVE_NAMES = {"X", "Y", "Z", "S", "SX", "P", "PF", "CX", "CZ", "SWAP", "ISWAP", "HH", "NS", "CCX", "ROT3", "N", "prepare_all",
                "measure_all"} | set(FLIP) | {"I_" + g for g in ("X", "Y", "Z", "S", "SX", "P", "PF", "CX", "CZ", "SWAP",
                                                                            "ISWAP", "HH", "NS", "CCX", "ROT3", "N")}
DOTTED_BASE = ["x", "cal", "q", "n", "a", "b0", "v1"]


def ident_pool(rng):
    """-> a list of distinct legal identifiers of one family (pairs that differ by a dotted prefix / suffix included)"""
    fam = rng.choice(["dotted", "dotted", "keyword", "keyword", "dunder", "gate", "long", "long", "mixed"])
    if fam == "dotted":
        b = rng.sample(DOTTED_BASE, 3)
        pool = [b[0], f"{b[1]}.{b[0]}", f"{b[0]}.{b[1]}", f"{b[1]}.{b[0]}.{b[2]}", f"{b[2]}.{b[1]}.{b[0]}", b[1], f"{b[0]}.{b[0]}",
                f"{b[0]}.0", f"{b[0]}.1", f"{b[0]}.00", f"{b[0]}_{b[1]}", f"{b[0]}.{b[1]}_", f"{b[0]}._{b[1]}", f"{b[1]}.{b[2]}", b[2]]
    elif fam == "keyword": pool = list(KEYWORDISH)
    elif fam == "dunder": pool = list(DUNDER)
    elif fam == "gate": pool = list(GATEISH) + ["prepare_all_", "measure_all.q"]
    elif fam == "long":
        L = rng.choice([255, 256, 257, 300, 1000, 5000])
        stem = "n" * (L - 2)
        pool = [stem + "_a", stem + "_b", stem + ".a", stem + ".b", stem + "aa", "a." + stem, "b." + stem, stem + "_0", stem + "_1"]
    else: pool = rng.sample(KEYWORDISH, 6) + rng.sample(DUNDER, 5) + rng.sample(GATEISH, 3) + ["x", "cal.x", "x.cal"]
    pool = list(dict.fromkeys(pool))
    rng.shuffle(pool)
    # a pair of names that differ only by a dotted prefix / suffix, one character or beyond the 255th character comes first
    # (the two become loop counts with different values)
    pairs = {"dotted": lambda: rng.choice([(b[0], f"{b[1]}.{b[0]}"), (b[0], f"{b[0]}.{b[1]}"), (f"{b[1]}.{b[0]}", f"{b[0]}.{b[1]}"),
                                           (f"{b[1]}.{b[0]}", f"{b[2]}.{b[1]}.{b[0]}"), (f"{b[0]}.0", f"{b[0]}.00")]),
             "keyword": lambda: rng.choice([("lo", "loo"), ("loop_", "loops"), ("loop.n", "n.loop"), ("let_", "lets"), ("sub", "subcircuits"),
                                            ("subcircui", "subcircuit_"), ("prepare_al", "prepare_all_"), ("measure_al", "measure_all_"),
                                            ("Loop", "LOOP"), ("prepare_all.x", "prepare"), ("fro", "from_")]),
             "dunder": lambda: rng.choice([("_", "__"), ("__", "___"), ("_0", "__0"), ("__c10", "__r0"), ("_.a", "a._"), ("__macro__", "__in_context__")]),
             "gate": lambda: rng.choice([("X", "X_"), ("X", "x"), ("cal.X", "X.cal"), ("X", "X.X"), ("I_X", "I_"), ("CX", "cx")]),
             "long": lambda: tuple(rng.sample(pool, 2)),
             "mixed": lambda: rng.choice([("x", "cal.x"), ("x", "x.cal"), ("cal.x", "x.cal")])}[fam]()
    pool = list(pairs) + [x for x in pool if x not in pairs]
    return fam, pool


def stream_ident(rng, thorough):
    fam, pool = ident_pool(rng)
    nq = rng.choice([2, 3, 4])
    take = iter(pool)
    counts = [next(take) for _ in range(rng.randint(2, 4))]
    vals = rng.sample([0, 1, 2, 3, 4], len(counts))
    lets = [[nm, v] for nm, v in zip(counts, vals)]
    idxname = next(take); iv = rng.randrange(nq); lets.append([idxname, iv])
    regname = next(take)
    al1, al2 = next(take), next(take)
    rest = list(take)
    mname = next(x for x in rest + ["mac.ro"] if x not in NATIVE_NAMES)
    rest.remove(mname) if mname in rest else None
    params = rest[:2] if len(rest) >= 2 and rng.random() < 0.7 else ["pa", "pb"]
    rng.shuffle(lets)
    lo = rng.randrange(nq - 1)
    maps = [[al1, regname, ["slice", lo, nq, None]], [al2, al1, ["idx", rng.randrange(nq - lo)]]]
    macros = [[mname, params, [["iloop", params[0], [["g", "X", [params[1], None]]]]], "inner"]]
    gate = lambda: rng.choice(["X", "X", "cal.X", "X.cal", "__X", "Y", "Z", "I_X"] + [nm for nm, _ in EXTRA_GATES])
    override = None
    decl = dict(zip(counts, vals))
    other = lambda nm: rng.choice([v for v in (0, 1, 2, 3) if v != decl[nm]])
    r = rng.random()
    if r < 0.45: nm = rng.choice(counts[:2]); override = {nm: other(nm)}         # ONE of the pair
    elif r < 0.65: override = {nm: other(nm) for nm in rng.sample(counts, rng.randint(1, len(counts)))}

    def s():
        body = []
        for _ in range(rng.randint(1, 3)):
            r = rng.random()
            if r < 0.3: body.append(["g", gate(), [regname, rng.choice([idxname, rng.randrange(nq)])]])
            elif r < 0.5: body.append(["g", gate(), [al1, rng.randrange(nq - lo)]])
            elif r < 0.65: body.append(["g", gate(), [al2, None]])
            elif r < 0.85: body.append(["call", mname, [["c", rng.choice(counts + [1, 2])], ["q", rng.choice([[al2, None], [regname, idxname], [al1, 0]])]]])
            else: body.append(["iloop", rng.choice(counts), [["g", gate(), [regname, rng.randrange(nq)]]]])
        return ["sub", rng.choice(["sc", "pm"]), body]
    items = []
    for c in counts:
        items.append(["loop", c, [s()] + ([["loop", rng.choice(counts), [s()]]] if rng.random() < 0.3 else [])])
        if rng.random() < 0.3: items.append(s())
    return base_prog(items, (regname, nq), lets, maps, macros), override, {"ident_" + fam: max(len(x) for x in pool)}


def stream_outs(rng, thorough):
    nq = rng.choice([4, 4, 5, 6, 7, 8, 10])
    s = lambda: gen_sub(rng, "r", nq)
    items = [s(), ["loop", rng.choice([2, 3, 5, 8]), [s(), s()][:rng.choice([1, 2])]], ["loop", rng.choice([0, 1, 2]), [s()]], s()]
    return base_prog(items, ("r", nq)), None, {"outs": nq}


GEN = {"depth": stream_depth, "width": stream_width, "gates": stream_gates, "iters": stream_iters, "macros": stream_macros,
       "alias": stream_alias, "header": stream_header, "qubits": stream_qubits, "ident": stream_ident, "outs": stream_outs}


# ---------------------------------------------------------------- outputs and entries

def gen_outputs(rng, nq, nvis, stream):
    """-> (container kind, [[element kind, value]]): value an int, or a bit string (qubit 0 first) for str kinds"""
    top = 2 ** nq
    tricky = [v for v in (2, 3, 9, 10, 11, 12, 19, 100, 101, 102, 110, 111, 1000, 1001, 1010, 1011, 1100, 1101, 1110, 1111, 10000) if v < top]
    vals = []
    mode = rng.random()
    for _ in range(nvis):
        r = rng.random()
        if mode < 0.08: v = 0
        elif mode < 0.16: v = top - 1
        elif r < 0.1: v = 0
        elif r < 0.2: v = top - 1
        elif r < (0.6 if stream == "outs" else 0.4) and tricky: v = rng.choice(tricky)
        elif r < 0.7 and nq > 1: v = 1 << rng.randrange(nq)
        else: v = rng.randrange(top)
        vals.append(v)
    c = rng.random()
    pnp = 0.6 if stream in ("outs", "qubits") else 0.4
    if c < 1 - pnp:
        container = "list"
        ek = rng.choice(["int", "int", "str", "mixed"])
    else:
        fits = [k for k in NP_INT_KINDS if top - 1 <= _np_max(k)]
        r = rng.random()
        if r < 0.35:
            container = "ndarray:" + rng.choice(fits); ek = "int"
        elif r < 0.42:
            container = "ndarray:str"; ek = "str"
        elif r < 0.55:
            container = "tuple"; ek = rng.choice(["int", "str", "mixed", "npmixed"])
        else:
            container = "list"; ek = rng.choice(fits + ["npmixed", "npmixed", "np.str_"])
    outs = []
    for v in vals:
        k = ek
        if ek == "mixed": k = rng.choice(["int", "str"])
        elif ek == "npmixed":
            k = rng.choice([x for x in NP_INT_KINDS if v <= _np_max(x)] + ["int", "str", "np.str_"])
        outs.append([k, format(v, "b").zfill(nq)[::-1] if k in ("str", "np.str_") else v])
    return container, outs


def _np_max(kind):
    bits = {"int8": 7, "int16": 15, "int32": 31, "int64": 63, "uint8": 8, "uint16": 16, "uint32": 32, "uint64": 64, "intp": 63}[kind]
    return 2 ** bits - 1


def out_int(e):
    return int(e[1][::-1], 2) if isinstance(e[1], str) else e[1]


def build_outputs(np, container, outs):
    def one(k, v):
        if k in ("int", "str"): return v
        if k == "np.str_": return np.str_(v)
        return getattr(np, k)(v)
    if container.startswith("ndarray:"):
        dt = container.split(":")[1]
        return np.array([v for _, v in outs]) if dt == "str" else np.array([v for _, v in outs], dtype=getattr(np, dt))
    xs = [one(k, v) for k, v in outs]
    return tuple(xs) if container == "tuple" else xs


def plain_outputs(container, outs):
    return container == "list" and all(k in ("int", "str") for k, _ in outs)


def gen_entry(rng, prog, override, heavy):
    """the defaults dimension.  heavy: keep the number of passes over the program small (alias chains are cubic)"""
    e = {"front": "string", "use": [], "flags": {}, "ov_via": None, "ov_none": "absent", "pre": [], "run": "default", "ret_use": False}
    r = rng.random()
    if r < 0.15: e["front"] = "file"
    elif r < 0.27 and override is None: e["front"] = rng.choice(["run_string", "run_file"])
    if e["front"].startswith("run_") or rng.random() < 0.25:
        e["use"] = rng.choice([["c08s_all"], ["c08s_all"], ["c08s_all", "c08s_all"], ["c08s_a", "c08s_b"], ["c08s_b", "c08s_a"],
                               ["c08s_a", "c08s_b", "c08s_a"]])
    e["comments"] = rng.random() < 0.15
    e["run"] = rng.choice(["default", "default", "backend_none", "backend", "emulator_backend", "force_sim", "backend_force"])
    if e["front"].startswith("run_"):
        return e
    fl = e["flags"]
    if not heavy:
        if rng.random() < 0.2: fl["expand_macro"] = rng.random() < 0.8
        if rng.random() < 0.15: fl["expand_let_map"] = rng.random() < 0.8
        if rng.random() < 0.2: fl["expand_let"] = rng.random() < 0.8
    e["ret_use"] = rng.random() < 0.2
    if override is not None:
        e["ov_via"] = rng.choice(["parse", "fill"])
        if e["ov_via"] == "parse" and not (fl.get("expand_let") or fl.get("expand_let_map")):
            fl["expand_let"] = True
        if e["ov_via"] == "fill":        # the caller overrides AFTER parsing: the parser must leave the lets alone
            for k in ("expand_let", "expand_let_map"):
                if fl.get(k): fl[k] = False
    else:
        e["ov_none"] = rng.choice(["absent", "absent", "none", "empty"])
    if not heavy or rng.random() < 0.3:
        seq = rng.choice([[], [], [], ["es"], ["fill"], ["es", "fill"], ["es", "fill", "em"], ["fill", "map"], ["es", "fill", "map", "em"],
                          ["em"], ["fill", "em"]])
        pre = []
        for p in seq:
            if p == "fill":
                if override is not None and e["ov_via"] == "fill": continue      # done first, below
                pre.append(rng.choice(["fill", "fill_none", "fill_empty", "fill_kw_none", "fill_kw_empty"]))
            elif p == "em": pre.append(rng.choice(["em", "em_keep", "em_drop"]))
            else: pre.append(p)
        e["pre"] = pre
    return e


def gen_case(rng, stream, thorough):
    for _ in range(300):
        prog, override, dim = GEN[stream](rng, thorough)
        ref = Ref(prog, override)
        got = ref.visits()
        if got is None: continue
        want, subs = got
        if len(want) * dim.get("depth", 0) > 12000: continue       # the walk costs visits x depth: keep deep cases cheap
        try:
            support = ref.support()
        except OverflowError:
            continue
        scope = "macro_subcircuit" if any(m[3] == "top" for m in prog["macros"]) else None
        heavy = dim.get("alias_chain", 0) > 40 or dim.get("alias_count", 0) > 300
        entry = gen_entry(rng, prog, override, heavy)
        nq = ref.nq
        container, outs = gen_outputs(rng, nq, len(want), stream)
        deep = max(dim.get("depth", 0), dim.get("inner_depth", 0), dim.get("macro_chain", 0), dim.get("macro_chain_top", 0))
        return {"stream": stream, "dim": dim, "text": prog_text(prog, entry["use"], entry["comments"]), "override": override, "entry": entry,
                "want": want, "nsub": len(subs), "support": support, "nq": nq, "scope": scope,
                "container": container, "outs": outs, "npseed": rng.randrange(2 ** 31),
                "emulate": nq <= EMU_MAX_QUBITS, "may_reject_deep": deep >= DEEP_REJECT_FROM}
    raise RuntimeError("generator could not produce a case")


# ---------------------------------------------------------------- executing one case on the real code

def construct(R, case):
    """the circuit object handed to the observed calls (None for the run_string / run_file fronts)"""
    e, ov, text = case["entry"], case.get("override"), case["text"]
    if e["front"].startswith("run_"):
        return None
    kw = dict(e["flags"])
    if e["use"]: kw.update(autoload_pulses=True, import_path=R["dir"])
    else: kw.update(inject_pulses=gate_set("all"), autoload_pulses=False)
    if ov is not None and e["ov_via"] == "parse": kw["override_dict"] = dict(ov)
    elif e["ov_none"] == "none": kw["override_dict"] = None
    elif e["ov_none"] == "empty": kw["override_dict"] = {}
    if e["ret_use"]: kw["return_usepulses"] = True
    if e["front"] == "file":
        fd, path = tempfile.mkstemp(suffix=".jaqal", dir=R["dir"])
        try:
            with os.fdopen(fd, "w") as f:
                f.write(text)
            c = R["parse_file"](path, **kw)
        finally:
            os.unlink(path)
    else:
        c = R["parse"](text, **kw)
    if e["ret_use"]:
        c = c[0]
    if ov is not None and e["ov_via"] == "fill":
        c = R["fill"](c, dict(ov))
    for p in e["pre"]:
        if p == "es": c = R["es"](c)
        elif p == "fill": c = R["fill"](c)
        elif p == "fill_none": c = R["fill"](c, None)
        elif p == "fill_empty": c = R["fill"](c, {})
        elif p == "fill_kw_none": c = R["fill"](c, override_dict=None)
        elif p == "fill_kw_empty": c = R["fill"](c, override_dict={})
        elif p == "map": c = R["fmap"](c)
        elif p == "em": c = R["em"](c)
        elif p == "em_keep": c = R["em"](c, preserve_definitions=True)
        elif p == "em_drop": c = R["em"](c, preserve_definitions=False)
    return c


def run_kwargs(R, mode):
    if mode == "backend_none": return {"backend": None}
    if mode == "backend": return {"backend": R["Backend"]()}
    if mode == "emulator_backend": return {"emulator_backend": R["Backend"]()}
    if mode == "force_sim": return {"force_sim": True}
    if mode == "backend_force": return {"backend": R["Backend"](), "force_sim": True}
    return {}


def emulate(R, case, c):
    e = case["entry"]
    kw = run_kwargs(R, e["run"])
    if e["front"] == "run_string":
        return R["run_string"](case["text"], import_path=R["dir"], **kw)
    if e["front"] == "run_file":
        fd, path = tempfile.mkstemp(suffix=".jaqal", dir=R["dir"])
        try:
            with os.fdopen(fd, "w") as f:
                f.write(case["text"])
            return R["run_file"](path, **kw) if case["npseed"] % 2 else R["run_file"](path, import_path=R["dir"], **kw)
        finally:
            os.unlink(path)
    return R["run"](c, **kw)


def short(xs, n=40):
    xs = list(xs)
    return str(xs) if len(xs) <= n else f"{xs[:n // 2]} ... {xs[-n // 2:]} ({len(xs)} entries)"


def judge(r, want, nsub, given, support, tag, oname):
    """-> [(oracle, ok, detail)] for one ExecutionResult"""
    res = []
    got = [ro.subcircuit.index for ro in r.readouts]
    subs = list(r.subcircuits)
    ok = (got == want and len(subs) == nsub and [sc.index for sc in subs] == list(range(nsub))
          and all(ro.subcircuit is subs[ro.subcircuit.index] for ro in r.readouts))
    detail = f"{tag}: visits {short(got)} over {len(subs)} subcircuits, reference {short(want)} over {nsub}"
    if ok and given is not None:
        vals = [int(ro.as_int) for ro in r.readouts]
        ok = vals == given
        if not ok:
            k = next(i for i, (a, b) in enumerate(zip(vals, given)) if a != b)
            detail = f"{tag}: readout {k} carries {vals[k]}, output {k} of the list is {given[k]}; readouts {short(vals)}, outputs {short(given)}"
    res.append((oname, ok, "" if ok else detail))
    ok = [ro.index for ro in r.readouts] == list(range(len(r.readouts)))
    detail = f"readout indices {short([ro.index for ro in r.readouts])}"
    by_sub = {}
    for ro in r.readouts:
        by_sub.setdefault(id(ro.subcircuit), []).append(ro)
    for k, sc in enumerate(subs):
        own = by_sub.get(id(sc), [])
        mine = list(sc.readouts)
        freq = sc.relative_frequency_by_int
        hist = {}
        for ro in own:
            hist[int(ro.as_int)] = hist.get(int(ro.as_int), 0) + 1
        bad = len(mine) != len(own) or any(a is not b for a, b in zip(mine, own))
        why = f"{len(mine)} readouts listed, {len(own)} own readouts in the result"
        if not bad:
            if any(not (0 <= v < len(freq)) for v in hist):
                bad = True; why = f"own readout values {sorted(hist)} do not index the frequency table of length {len(freq)}"
            elif any(abs(float(freq[v]) - h) > 1e-9 for v, h in hist.items()) or abs(float(freq.sum()) - len(own)) > 1e-6:
                bad = True
                why = f"frequencies {[(v, float(freq[v])) for v in sorted(hist)][:8]} (sum {float(freq.sum())}), own histogram {sorted(hist.items())[:8]} ({len(own)} readouts)"
        if bad:
            ok = False; detail = f"subcircuit {k}: {why}"; break
    res.append(("scale_own_readouts", ok, "" if ok else f"{tag}: {detail}"))
    if given is None:
        ok = True; detail = ""
        for ro in r.readouts:
            k = ro.subcircuit.index
            pr = ro.subcircuit.simulated_probability_by_int
            v = int(ro.as_int)
            if not (0 <= v < len(pr)) or not pr[v] > 0:
                ok = False; detail = f"readout {ro.index} = {v} has probability 0 in subcircuit {k}"; break
            if 0 <= k < len(support) and any(b is not None and ((v >> q) & 1) != b for q, b in enumerate(support[k])):
                ok = False
                detail = (f"readout {ro.index} = {v} (bit q = qubit q) is impossible for subcircuit {k} of this program: "
                          f"reference bits {support[k]}")
                break
        res.append(("scale_outcome_possible", ok, "" if ok else f"{tag}: {detail}"))
    return res


def exec_case(case, R=None):
    """-> [(oracle, ok, detail)]"""
    R = R or _load()
    np, T = R["np"], R["T"]
    e = case["entry"]
    want, nsub, support = case["want"], case["nsub"], case["support"]
    checks = []
    tag0 = (f"[{case['stream']} {case['dim']} front={e['front']} use={e['use']} flags={e['flags']} override={_ovtxt(case)} "
            f"pre={e['pre']} run={e['run']}]")

    def call(f, *a, **k):
        signal.alarm(int(T.limit()))
        try:
            return f(*a, **k)
        finally:
            signal.alarm(0)

    def too_deep(ex):
        return case.get("may_reject_deep") and isinstance(ex, R["JaqalError"]) and "nested too deeply" in str(ex)

    old = signal.signal(signal.SIGALRM, _alarm)
    st = np.random.get_state()
    np.random.seed(case.get("npseed", 0))
    lim = sys.getrecursionlimit()
    try:
        try:
            try:
                c = call(construct, R, case)
                checks.append(("scale_accepted", True, ""))
                checks.append(("scale_terminates", True, ""))
            except Hang:
                raise
            except Exception as ex:
                if too_deep(ex):
                    checks.append(("scale_terminates", True, "")); checks.append(("rejected_too_deep", True, ""))
                    return checks
                checks.append(("scale_accepted", False, f"{tag0}: construction raised {type(ex).__name__}: {str(ex)[:300]}"))
                return checks
            observed = (["run"] if case.get("emulate") else []) + ([] if c is None else ["out"])
            for op in observed:
                tag = f"{tag0} {op}"
                if op == "run": oname = "scale_emulator_visits"
                else: oname = "scale_output_list_visits" if plain_outputs(case["container"], case["outs"]) else "scale_output_kinds"
                try:
                    if op == "run":
                        r = call(emulate, R, case, c)
                        given = None
                    else:
                        given = [out_int(x) for x in case["outs"]]
                        arg = build_outputs(np, case["container"], case["outs"])
                        tag += f" outputs={case['container']} of {sorted({k for k, _ in case['outs']})}"
                        r = call(R["out"], c, arg)
                except Hang:
                    raise
                except Exception as ex:
                    checks.append(("scale_terminates", True, ""))
                    if too_deep(ex):
                        checks.append(("rejected_too_deep", True, "")); continue
                    checks.append((oname, False, f"{tag}: {type(ex).__name__}: {str(ex)[:300]}; reference visits {short(want)} over {nsub} subcircuits"
                                   + (f"; outputs given {short(given)}" if op == "out" else "")))
                    continue
                checks.append(("scale_terminates", True, ""))
                try:
                    checks += call(judge, r, want, nsub, given, support, tag, oname)
                except Hang:
                    raise
                except Exception as ex:       # a result object that cannot even be read
                    checks.append((oname, False, f"{tag}: reading the result raised {type(ex).__name__}: {str(ex)[:300]}"))
        except Hang:
            T.saw_hang()
            checks.append(("scale_terminates", False, f"{tag0}: no result within the time limit"))
    finally:
        signal.alarm(0)
        signal.signal(signal.SIGALRM, old)
        np.random.set_state(st)
        sys.setrecursionlimit(lim)
    return checks


def _ovtxt(case):
    ov = case.get("override")
    if ov is None: return f"none({case['entry']['ov_none']})"
    s = json.dumps(ov)
    return (s if len(s) < 120 else s[:117] + "...") + f" via {case['entry']['ov_via']}"


def describe(case):
    t = case["text"]
    return t if len(t) <= 1500 else t[:900] + f"\n... ({len(t)} characters) ...\n" + t[-500:]


# ---------------------------------------------------------------- protocol

def run(seed: int, n: int, driver: str = DEFAULT_DRIVER, thorough: bool = False) -> dict:
    R = _load()
    rng = random.Random(f"c08_scale:{seed}")
    if thorough: n = n * 4
    oracle = {k: {"cases": 0, "failures": [], "total": 0} for k in ORACLES}
    dist = {}
    samples = []
    distinct = set()

    def bump(k, v=1):
        dist[k] = dist.get(k, 0) + v

    for i in range(n):
        stream = STREAMS[i % len(STREAMS)]
        case = gen_case(rng, stream, thorough)
        checks = exec_case(case, R)
        failed = set()
        for name, ok, detail in checks:
            if name == "rejected_too_deep":
                bump("rejected_nested_too_deeply"); continue
            target = "scale_scope_" + case["scope"] if case["scope"] else name
            oracle[target]["cases"] += 1
            if not ok and (target, name) not in failed:
                failed.add((target, name))
                oracle[target]["total"] += 1
                if len(oracle[target]["failures"]) < 20:
                    d = detail if not case["scope"] else f"({name}; uses {case['scope']}) {detail}"
                    oracle[target]["failures"].append({"case": json.loads(json.dumps(case)), "detail": d + "\n" + describe(case)})
        # ---- what was covered
        e = case["entry"]
        bump("cases"); bump("stream_" + stream)
        for dname, size in case["dim"].items():
            bump("dim_" + dname)
            for t in TH + (1000,):
                if size >= t: bump(f"dim_{dname}_ge_{t}")
        bump("front_" + e["front"]); bump("run_" + e["run"]); bump(f"usepulses_{len(e['use'])}" + ("_split" if len(set(e["use"])) > 1 else ""))
        for k, v in e["flags"].items(): bump(f"flag_{k}_{v}")
        if e["ret_use"]: bump("flag_return_usepulses")
        if e["comments"]: bump("text_with_comments_between_statements")
        for p in e["pre"]: bump("pre_" + p)
        if not e["pre"]: bump("pre_none")
        if case["override"] is None: bump("override_" + e["ov_none"])
        else:
            bump("override_via_" + e["ov_via"])
            bump("override_entries_ge_8" if len(case["override"]) >= 8 else "override_entries_lt_8")
        if case["emulate"]: bump("entry_emulator")
        if not e["front"].startswith("run_"):
            bump("entry_output_list"); bump("outputs_" + case["container"])
            for k in {k for k, _ in case["outs"]}: bump("outputs_elem_" + k)
            if any(out_int(x) >= 2 and not isinstance(x[1], str) and (x[0] != "int" or case["container"] != "list") and set(str(x[1])) <= {"0", "1"} for x in case["outs"]):
                bump("outputs_numpy_value_with_binary_looking_decimal")
        if case["scope"]: bump("scope_" + case["scope"])
        if len(case["want"]) >= 100: bump("visits_ge_100")
        if len(case["want"]) >= 1000: bump("visits_ge_1000")
        if case["nsub"] >= 10: bump("subcircuits_ge_10")
        if case["nsub"] >= 100: bump("subcircuits_ge_100")
        if case["nsub"] and not case["want"]: bump("subcircuits_but_no_visit")
        if len(case["text"]) >= 10000: bump("text_ge_10000_chars")
        if len(case["want"]) >= 2:
            distinct.add(json.dumps([case["text"], case["override"], e], sort_keys=True))
        if len(samples) < 5 and i % len(STREAMS) == 2 * len(samples) + 1 and len(case["text"]) < 3000:
            samples.append(json.loads(json.dumps(case)))
    return {"corr": {}, "oracle": oracle, "distribution": dist, "samples": samples, "nontrivial": len(distinct)}


def replay(case: dict, driver: str = DEFAULT_DRIVER) -> dict:
    checks = exec_case(case, _load())
    fails = [f"{name}: {detail}" for name, ok, detail in checks if not ok]
    return {"oracle_ok": not fails, "detail": "; ".join(fails[:4]) or "ok",
            "impl": {"checks": len(checks), "failed": len(fails), "scope": case.get("scope")}}


def main():
    ap = argparse.ArgumentParser()
    ap.add_argument("--seed", type=int, default=0)
    ap.add_argument("--n", type=int, default=300)
    ap.add_argument("--thorough", action="store_true")
    a = ap.parse_args()
    res = run(a.seed, a.n, thorough=a.thorough)
    bad = 0
    for name, d in res["oracle"].items():
        bad += d["total"]
        print(f"oracle {name:30} cases {d['cases']:6}  failures {d['total']}")
        for x in d["failures"][:3]:
            print("   ", x["detail"][:2500])
    print("distribution", json.dumps(res["distribution"], sort_keys=True), "nontrivial", res["nontrivial"])
    sys.exit(0 if bad == 0 else 1)


if __name__ == "__main__":
    main()
