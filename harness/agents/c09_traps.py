#!/venv/bin/python
"""C09 under DERIVED OBJECTS, PYTHON TRAPS, FAILED CALLS, RE-ENTRANCY, NUMERIC FORM and ACCESS ORDER (sixth round).

The programs come from the generator of c09_combo (all its knobs are kept and cycled: shadowing parameters, empty and
degenerate constructs, positions of the subcircuit blocks), and so do the independent reference (scoping, sections in
flat order, unrolled visits, the one possible outcome of every section) and the dumps.  What is new are eight more knobs,
cycled with co-prime strides; every case forces one value of each:

    table    the gate table the circuits are made with: the shared injected one | a table of `.copy()`s of ALREADY USED
             definitions | copies made BEFORE any use | `copy.copy` / `copy.deepcopy` of the used table | idle gates added
             to a copied table | a table that also holds renamed parameterless copies (prepare_hw, measure_hw, prepare,
             measure_al ...) | a freshly made table
    defs     the bounding definitions handed to expand_subcircuits: default | (None, None) | a name made at RUN TIME
             ("".join) of a native gate | names that are SUBSTRINGS / extensions of the bounding names | the name of another
             parameterless native gate | a fresh definition | `.copy(name=)` of a native definition made after / before its
             first use | `.copy()` (same name, other object) | a copy of a copy | `.copy(parameters=[])`,
             `.copy(ideal_unitary=)` | copy.copy / copy.deepcopy | ONE object for both | the definitions of ANOTHER circuit
             (made with another table) | prepare only / measure only / positional / keyword
    build    text | s-expression with strings created at run time and no tuple shared | s-expression where equal
             sub-expressions are ONE tuple object (the same block in two scopes; one statement of the program is doubled
             on purpose: at top level and inside a loop) | lists instead of tuples | CircuitBuilder object | circuit objects
             in which equal statements of the body are ONE object | generated text parsed again | copy.deepcopy of the circuit
    names    user names as generated | chains of SUBSTRINGS (q, qq, q0, q00, a, ab ...) | names that are substrings /
             extensions of prepare_all / measure_all | declared in DESCENDING order | shuffled
    num      counts as generated | `True` for 1 (loop counts, subcircuit counts) | a let of the same value | subcircuit
             counts 0 / True / 10**30 / a let
    mix      nothing | explicit prepare_all / measure_all INSIDE subcircuit bodies (first, last, both, in the middle, a
             body that is only bounding gates; with caller's definitions: a body that begins / ends with a gate of the
             caller's name) - judged by shape and by the explicit spelling only (no reference for these)
    pre      what happened in this process before: nothing | the program was run / expanded / its outputs parsed | a call
             that FAILS HALF-WAY: a program nested too deeply (run, output parsing, expansion), a subcircuit block smuggled
             into a parallel / subcircuit block, a bounding definition that cannot be called without arguments (fails after
             the first body was visited), a macro named as bounding gate, a gate outside a section at the END, TWO defects,
             outputs too few / too many / malformed / None, a backend that raises after it was handed the program - where
             possible on the SAME circuit object that is used afterwards; the failing call is made again between observations
    order    the order in which the views of one result are read (by_str before by_int, readouts before subcircuits,
             the subcircuit's readouts first, last subcircuit first)
plus, per case, a route (other passes first) and a CHAIN after the first observation: the result of expand_subcircuits is
expanded again with other definitions (nothing may change), is run, has outputs parsed, goes through fill_in_let /
expand_macros and is run again, is printed and parsed again and run - every stage must report like the explicit spelling.
Outputs are given as int / str / numpy / bool-int mixtures in ONE list.

oracle (corr is empty):
  traps_terminates              every library call returns within the alarm
  traps_accepted                the program with subcircuit blocks is built when its explicit spelling is
  traps_expand_shape            dump(expand_subcircuits(X)) == dump(X) (taken BEFORE the call) with every subcircuit block
                                replaced by the sequential block [prepare, *body, measure] and nothing else changed; an
                                expansion of a circuit without subcircuit blocks changes nothing
  traps_no_subcircuit_left      no subcircuit block reachable from the result
  traps_bounding_gates          every inserted statement is a parameterless call whose name and DEFINITION OBJECT are the
                                expected ones: the circuit's native object, or the caller's object (also when it is a copy)
  traps_run_like_explicit       run_jaqal_circuit: same outcome class, subcircuits, probabilities, visit sequence, sampled
                                outcomes for both spellings - at every stage of the chain and after every failed call; and
                                the reference where the explicit spelling meets it
  traps_output_like_explicit    the same for parse_jaqal_output_list
  traps_failed_call_leaves_input a refused call leaves the circuit it was given as it was (dump before == dump after)
Never more than the property: statement objects may be shared or not; only names, definitions and structure are compared;
where the library refuses the explicit spelling only the same refusal is demanded of the subcircuit spelling.

Recommended n: 400 (quick, ~12 s), 5000 (thorough, ~2.5 min).       CLI: c09_traps.py [--seed S] [--n N] [--thorough]
"""
import os, sys, json, random, signal, argparse, gc
import copy as pycopy

DEFAULT_DRIVER = "/verif/lean/.lake/build/bin/jaqal-model"
ORACLES = ("traps_terminates", "traps_accepted", "traps_expand_shape", "traps_no_subcircuit_left", "traps_bounding_gates",
           "traps_run_like_explicit", "traps_output_like_explicit", "traps_failed_call_leaves_input")
TABLES = ("shared", "copied_used", "copied_unused", "pycopy", "deepcopy", "idle_of_copied", "extra_named", "fresh")
DEFS = ("default", "copy_after_use", "none_none", "runtime_native", "copy_same_name", "substr_names", "other_native", "fresh_def",
        "copy_of_copy", "copy_before_use", "copy_params", "copy_unitary", "pycopy", "deepcopy", "one_object", "other_circuit",
        "prepare_only_copy", "measure_only_copy", "positional_copy", "busy_fresh")
BUILDS = ("text", "sexpr_fresh", "sexpr_shared", "sexpr_lists", "builder_obj", "obj_unified", "roundtrip", "deepcopy")
NAMES = ("plain", "substr", "bounding_like", "descending", "shuffled")
NUMS = ("plain", "bool_one", "let_counts", "sub_counts", "plain")
MIXES = ("none", "p_first", "none", "m_last", "none", "both", "none", "none", "p_middle", "none", "only_bounding", "none", "none", "mp_middle", "none", "caller_named", "none")
PRES = ("none", "ran", "deep_run", "expanded", "sub_in_par", "bad_measure_def", "parsed", "deep_outlist", "macro_named",
        "gate_outside_end", "two_defects", "out_too_few", "bad_prepare_def", "out_malformed", "boom_backend", "sub_in_sub",
        "deep_expand", "out_too_many", "out_none")
ORDERS = ("int_first", "str_first", "readouts_first", "sub_readouts_first", "reverse")
ROUTES = ("none", "none", "let", "macros", "none", "subs", "macros_keep")
RUN_VARIANTS = ("default", "shared", "backend", "recording")
OUT_KINDS = ("int", "str", "mixed", "np", "mixed")
KEYWORDS = {"let", "map", "register", "macro", "loop", "subcircuit", "from", "usepulses", "import", "branch", "pi", "prepare_all", "measure_all"}
_real = {}


class Hang(Exception):
    pass


def _alarm(signum, frame):
    raise Hang()


def _load():
    if _real:
        return _real
    os.environ["JAQALPAQ_RUN_EMULATOR"] = "1"
    root = os.path.dirname(os.path.dirname(os.path.dirname(os.path.abspath(__file__))))
    if not os.path.isfile(os.path.join(root, "harness", "gates.py")):
        root = "/verif"
    if root not in sys.path:
        sys.path.insert(0, root)
    from harness.agents import c09_combo as K
    R = dict(K._load())
    from harness import gates as G
    from jaqalpaq.core.gatedef import BusyGateDefinition, add_idle_gates
    from jaqalpaq.core.circuitbuilder import CircuitBuilder
    from jaqalpaq.core import Circuit
    from jaqalpaq.generator import generate_jaqal_program
    USE = R["USE"]
    JaqalError = R["JaqalError"]

    class Boom(USE):
        """takes the program like the default emulator, then refuses"""

        def __call__(self, circ):
            super().__call__(circ)
            raise JaqalError("backend refuses")

    R.update(K=K, G=G, Busy=BusyGateDefinition, add_idle=add_idle_gates, CircuitBuilder=CircuitBuilder, Circuit=Circuit,
             gen=generate_jaqal_program, Boom=Boom)
    _real.update(R)
    return _real


# ------------------------------------------------------------------------------------------------------------------
# transformations of abstract programs (the representation of c09_combo)
# ------------------------------------------------------------------------------------------------------------------
def identifiers(p):
    """user names in the order of their declaration"""
    out = []

    def add(x):
        if isinstance(x, str) and x not in out and x not in ("prepare_all", "measure_all"):
            out.append(x)
    for l in p["lets"]:
        add(l[0])
    add(p["reg"])
    for m in p["maps"]:
        add(m[0])
    for m in p["macros"]:
        add(m[0])
        for x in m[1]:
            add(x)
    return out


def rename_prog(p, mp):
    r = lambda x: mp.get(x, x) if isinstance(x, str) else x

    def arg(a):
        if a[0] == "r":
            return ["r", r(a[1]), r(a[2])]
        if a[0] == "n":
            return ["n", r(a[1])]
        return list(a)

    def stmt(s):
        k = s[0]
        if k == "g":
            return ["g", s[1], [arg(a) for a in s[2]]]
        if k == "c":
            return ["c", r(s[1]), [arg(a) for a in s[2]]]
        if k in ("loop", "loopp"):
            return [k, r(s[1]), [stmt(x) for x in s[2]]]
        if k == "loops":
            return [k, r(s[1]), r(s[2]), [stmt(x) for x in s[3]]]
        if k in ("par", "seq"):
            return [k, [stmt(x) for x in s[1]]]
        if k == "sub":
            return [k, r(s[1]), [stmt(x) for x in s[2]]]
        return list(s)

    def sel(x):
        if isinstance(x, list):
            return ["s"] + [r(y) for y in x[1:4]]
        return r(x)
    return {"reg": r(p["reg"]), "nq": r(p["nq"]), "lets": [[r(n), v] for n, v in p["lets"]],
            "maps": [[r(n), r(src), sel(s)] for n, src, s in p["maps"]],
            "macros": [[r(n), [r(x) for x in ps], [stmt(s) for s in body]] for n, ps, body in p["macros"]],
            "body": [stmt(s) for s in p["body"]], "ov": {r(k): v for k, v in p["ov"].items()}}


SUBSTR_POOL = ("q", "qq", "q0", "q00", "qqq", "a", "ab", "abc", "b", "ba", "bab", "aa", "q0q", "qa", "aq", "x", "xx", "xy", "y", "yx",
               "m", "mm", "m0", "g", "g0", "gg", "n", "nn", "n0", "k", "kk", "z", "zz", "i", "ii", "t", "tt", "s", "ss", "u", "uu", "e", "e0")
BOUNDING_POOL = ("prepare", "prepare_al", "repare_all", "prepare_all_", "_prepare_all", "measure", "measure_al", "easure_all", "measure_all2",
                 "all", "prepare_allmeasure_all", "p", "pr", "me", "prepare_all0", "_all", "measure_allprepare_all", "e_all", "prepare_", "re_a",
                 "prepare_all_all", "ure", "asure_all", "prepar", "m", "a", "l", "al", "ll", "prepare_a", "measure_a", "pm", "mp", "e", "r", "ep")


def choose_names(kind, ids, rng, gates):
    if kind == "plain" or not ids:
        return {}
    ok = lambda n: n not in KEYWORDS and n not in gates
    if kind == "substr":
        pool = [n for n in SUBSTR_POOL if ok(n)]
        rng.shuffle(pool) if rng.random() < 0.5 else None
    elif kind == "bounding_like":
        pool = [n for n in BOUNDING_POOL if ok(n)]
        rng.shuffle(pool)
    elif kind == "descending":
        pool = [f"{c}{d}" for c in "zyxwv" for d in "9876543210"]
    else:
        pool = [f"{c}{d}" for c in "abcdwxyz" for d in ("", "1", "_", "a")]
        rng.shuffle(pool)
    pool = [n for n in pool if ok(n)]
    if len(pool) < len(ids):
        pool += [f"id{j}" for j in range(len(ids))]
    return {old: pool[j] for j, old in enumerate(ids)}


def sub_nodes(K, p):
    out, seen = [], set()
    for s in K.walk_all(p):
        if s[0] == "sub" and id(s) not in seen:
            seen.add(id(s))
            out.append(s)
    return out


def apply_num(K, p, kind, rng):
    if kind == "plain":
        return False
    lets = {}
    for n, v in p["lets"]:
        lets.setdefault(v, n)
    shadow = {x for m in p["macros"] for x in m[1]}
    bool_used = False
    for s in list(K.walk_all(p)):
        k = s[0]
        if kind == "bool_one":
            if k in ("loop", "loopp", "loops") and s[1] == 1 and rng.random() < 0.8:
                s[1] = True
                bool_used = True
            if k == "sub" and (s[1] is None or s[1] == 1) and rng.random() < 0.5:
                s[1] = True
                bool_used = True
        elif kind == "let_counts":
            if k in ("loop", "loopp", "loops") and isinstance(s[1], int) and not isinstance(s[1], bool) and lets.get(s[1]) and lets[s[1]] not in shadow:
                s[1] = lets[s[1]]
        elif kind == "sub_counts" and k == "sub":
            c = rng.choice((0, True, 10 ** 30, "let", 1, 2 ** 63))
            if c == "let":
                c = next((n for v, n in lets.items() if n not in shadow), 7)
            if c is True:
                bool_used = True
            s[1] = c
    return bool_used


def apply_mix(K, p, kind, rng, pname="prepare_all", mname="measure_all"):
    """explicit bounding gates inside subcircuit bodies (the program stays legal Jaqal; whether it can be executed is for the
    explicit spelling to say)"""
    if kind == "none":
        return False
    subs = sub_nodes(K, p)
    if not subs:
        return False
    P = ["P"] if pname == "prepare_all" else ["g", pname, []]
    M = ["M"] if mname == "measure_all" else ["g", mname, []]
    chosen = [s for s in subs if rng.random() < 0.6] or [rng.choice(subs)]
    for s in chosen:
        b = s[2]
        if kind == "p_first":
            b.insert(0, list(P))
        elif kind == "m_last":
            b.append(list(M))
        elif kind == "both":
            b.insert(0, list(P))
            b.append(list(M))
        elif kind == "p_middle":
            b.insert(rng.randrange(len(b) + 1), list(P))
        elif kind == "mp_middle":
            i = rng.randrange(len(b) + 1)
            b[i:i] = [list(M), list(P)]
        elif kind == "only_bounding":
            b[:] = rng.choice(([list(P)], [list(M)], [list(P), list(M)], [list(P), list(P)]))
        elif kind == "caller_named":
            if rng.random() < 0.5:
                b.insert(0, list(P))
            else:
                b.append(list(M))
    return True


def duplicate_statement(K, p, rng):
    """the same statement at top level and inside a loop (for the builds that share equal objects)"""
    B = p["body"]
    idx = [i for i, s in enumerate(B) if s[0] in ("sub", "c", "loop")]
    if not idx:
        return
    s = B[rng.choice(idx)]
    B.append(s)
    if rng.random() < 0.6:
        B.append(["loop", rng.choice((1, 2)), [s]])


# ------------------------------------------------------------------------------------------------------------------
# gate tables and bounding definitions
# ------------------------------------------------------------------------------------------------------------------
def use_table(tab):
    """every parameterless definition of the table has been called once (what any parse of `prepare_all` does)"""
    for g in list(tab.values()):
        if not g.parameters:
            try:
                g()
            except Exception:
                pass


def make_table(R, kind, rng):
    GI = R["GI"]
    if kind == "shared":
        return GI
    if kind == "fresh":
        return R["add_idle"](R["G"].make_gates())
    if kind == "copied_unused":
        return {n: g.copy() for n, g in R["add_idle"](R["G"].make_gates()).items()}
    use_table(GI)
    if kind == "copied_used":
        return {n: g.copy() for n, g in GI.items()}
    if kind == "pycopy":
        return {n: pycopy.copy(g) for n, g in GI.items()}
    if kind == "deepcopy":
        return pycopy.deepcopy(dict(GI))
    if kind == "idle_of_copied":
        return R["add_idle"]({n: g.copy() for n, g in GI.items() if not n.startswith("I_")})
    tab = dict(GI)
    for n in ("prepare_hw", "measure_hw", "prepare", "measure_al", "prepare_all_", "all"):
        src = GI["prepare_all" if n.startswith(("p", "a")) else "measure_all"]
        tab[n] = src.copy(name="".join(list(n)))
    return tab


def table_gate_names(tab):
    return set(tab)


def make_defs(R, kind, c, rng, other):
    """-> (args, kwargs, expected prepare, expected measure); expected = ("is", object, name) | ("new", name)"""
    GD = R["GateDefinition"]
    ng = c.native_gates
    natp, natm = ng.get("prepare_all"), ng.get("measure_all")
    nat = lambda name: ("is", ng[name], name) if name in ng else ("new", name)
    P0, M0 = nat("prepare_all"), nat("measure_all")
    is_ = lambda d: ("is", d, d.name)
    rt = lambda s: "".join(list(s))
    if kind == "none_none":
        return (None, None), {}, P0, M0
    if kind == "runtime_native":
        return (rt("prepare_all"),), {"measure_def": "measure_" + rt("all")}, P0, M0
    if kind == "substr_names":
        a = rng.choice(("prepare", "prepare_al", "prepare_all_", "repare_all", "all", "p"))
        b = rng.choice(("measure", "measure_al", "measure_all2", "easure_all", "_all", "m"))
        if a in c.macros or b in c.macros:
            return (), {}, P0, M0
        return (rt(a), rt(b)), {}, nat(a), nat(b)
    if kind == "other_native":
        cand = [n for n, g in ng.items() if not g.parameters and n not in c.macros]
        a, b = rng.choice(cand), rng.choice(cand)
        return (rt(a),), {"measure_def": rt(b)}, nat(a), nat(b)
    if kind == "fresh_def":
        a, b = GD("prepare_hw", []), GD(rt("measure_all"))
        return (a, b), {}, is_(a), is_(b)
    if kind == "busy_fresh":
        a, b = R["Busy"]("prepare_all", []), R["Busy"]("my.measure", [])
        return (), {"prepare_def": a, "measure_def": b}, is_(a), is_(b)
    if natp is None or natm is None:
        return (), {}, P0, M0
    if kind == "copy_before_use":
        a, b = R["Busy"]("prepare_all", []).copy(name="prepare_hw"), GD("measure_all").copy(name="measure_hw")
        return (a, b), {}, is_(a), is_(b)
    # --- copies of definitions that HAVE been used ---
    natp()
    natm()
    if kind == "copy_after_use":
        a, b = natp.copy(name="prepare_hw"), natm.copy(name="measure_hw")
    elif kind == "copy_same_name":
        a, b = natp.copy(), natm.copy()
    elif kind == "copy_of_copy":
        a1, b1 = natp.copy(name="p1"), natm.copy(name="m1")
        a1()
        b1()
        a, b = a1.copy(name="p2"), b1.copy()
    elif kind == "copy_params":
        a, b = natp.copy(parameters=[]), natm.copy(name="measure_hw", parameters=[])
    elif kind == "copy_unitary":
        a, b = natp.copy(ideal_unitary=lambda: None), natm.copy(ideal_unitary=lambda: None)
    elif kind == "pycopy":
        a, b = pycopy.copy(natp), pycopy.copy(natm)
    elif kind == "deepcopy":
        a, b = pycopy.deepcopy(natp), pycopy.deepcopy(natm)
    elif kind == "one_object":
        a = natp.copy(name="bound")
        return (a, a), {}, is_(a), is_(a)
    elif kind == "other_circuit":
        a, b = other.native_gates["prepare_all"], other.native_gates["measure_all"]
        a()
        b()
    elif kind == "prepare_only_copy":
        a = natp.copy(name="prepare_hw")
        return (), {"prepare_def": a}, is_(a), M0
    elif kind == "measure_only_copy":
        b = natm.copy(name="measure_hw")
        return (), {"measure_def": b}, P0, is_(b)
    elif kind == "positional_copy":
        a, b = natp.copy(name="prepare_hw"), natm.copy()
        return (a, b), {}, is_(a), is_(b)
    else:
        return (), {}, P0, M0
    return (), {"prepare_def": a, "measure_def": b}, is_(a), is_(b)


def norm_bool(d):
    """`True` written for the count 1 is the count 1 (only the VALUE of a count is demanded to stay)"""
    if isinstance(d, list):
        if len(d) == 2 and d[0] == "num" and d[1] in ("True", "False"):
            return ["num", "1" if d[1] == "True" else "0"]
        return [norm_bool(x) for x in d]
    if isinstance(d, dict):
        return {k: norm_bool(v) for k, v in d.items()}
    return d


def check_bound(R, st, exp, c_in, what):
    GS = R["GateStatement"]
    if not isinstance(st, GS):
        return f"the {what} statement of an expanded block is {type(st).__name__}"
    if st.parameters:
        return f"the inserted {what} statement has arguments {dict(st.parameters)}"
    name = exp[-1]
    if st.name != name:
        return f"the inserted {what} statement is a call of {st.name!r}, expected {name!r}"
    gd = st.gate_def
    if exp[0] == "is":
        if gd is not exp[1]:
            return (f"the definition of the inserted {what} statement {st.name!r} is not the expected object "
                    f"(got {gd!r} id {id(gd):#x}, expected {exp[1]!r} id {id(exp[1]):#x})")
    else:
        if not isinstance(gd, R["GateDefinition"]) or gd.name != name or gd.parameters:
            return f"inserted {what} {name!r}: unexpected definition {gd!r}"
    return None


# ------------------------------------------------------------------------------------------------------------------
# builds
# ------------------------------------------------------------------------------------------------------------------
def fresh_sexpr(x, as_list=False):
    if isinstance(x, str):
        return "".join(list(x)) if len(x) > 1 else x
    if isinstance(x, (tuple, list)):
        t = [fresh_sexpr(y, as_list) for y in x]
        return t if as_list else tuple(t)
    return x


def shared_sexpr(x, table):
    if isinstance(x, tuple):
        t = tuple(shared_sexpr(y, table) for y in x)
        try:
            return table.setdefault(t, t)
        except TypeError:
            return t
    return x


def unify_body(R, c):
    """equal statements of the body (outside macros) become ONE object"""
    BS, LS, GS = R["BlockStatement"], R["LoopStatement"], R["GateStatement"]
    seen = []
    n = 0

    def canon(s):
        nonlocal n
        for t in seen:
            if type(t) is type(s) and t is not s and t == s and repr(t) == repr(s):
                n += 1
                return t
        seen.append(s)
        return s

    def rec(s):
        if isinstance(s, BS):
            lst = s.statements
            for i in range(len(lst)):
                rec(lst[i])
                lst[i] = canon(lst[i])
        elif isinstance(s, LS):
            rec(s.statements)
    rec(c.body)
    return n


def build_circuit(R, p, style, build, tab):
    K = R["K"]
    if build in ("text", "roundtrip", "deepcopy", "obj_unified") and not K.needs_sexpr(p) and not p.get("_sexpr_only"):
        c = R["parse"](K.to_text(p, style), inject_pulses=tab, autoload_pulses=False)
    else:
        sx = K.to_sexpr(p, style)
        if build == "sexpr_shared":
            sx = shared_sexpr(sx, {})
        elif build == "sexpr_lists":
            sx = fresh_sexpr(sx, as_list=True)
        else:
            sx = fresh_sexpr(sx)
        if build == "builder_obj":
            cb = R["CircuitBuilder"](native_gates=tab)
            cb.expression.extend(sx[1:])
            c = cb.build()
        else:
            c = R["build"](sx, inject_pulses=tab)
    if build == "roundtrip":
        try:        # (what the generator prints is not always text the parser reads, e.g. a loop directly over a subcircuit block: not C09)
            c = R["parse"](R["gen"](c), inject_pulses=tab, autoload_pulses=False)
        except Hang:
            raise
        except Exception:
            pass
    elif build == "deepcopy":
        c = pycopy.deepcopy(c)
    elif build == "obj_unified":
        unify_body(R, c)
    return c


# ------------------------------------------------------------------------------------------------------------------
# results, read in a given order
# ------------------------------------------------------------------------------------------------------------------
def summarize(R, r, kind, order):
    np = R["np"]
    out = {}
    subs = None

    def read_subs():
        nonlocal subs
        subs = list(r.subcircuits)
        seq = list(reversed(subs)) if order == "reverse" else subs
        tabs = {}
        for s in seq:
            d = {}
            fields = ["int", "str"] if order in ("int_first", "readouts_first") else ["str", "int"]
            if kind == "out" and order == "sub_readouts_first":
                d["own"] = [x.index for x in s.readouts]
            for f in fields:
                if kind == "run":
                    d[f] = np.asarray(s.probability_by_int) if f == "int" else {k: float(v) for k, v in dict(s.probability_by_str).items()}
                else:
                    d[f] = np.asarray(s.relative_frequency_by_int) if f == "int" else {k: float(v) for k, v in dict(s.relative_frequency_by_str).items()}
            if "own" not in d:
                d["own"] = [x.index for x in s.readouts] if hasattr(s, "readouts") else None
            tabs[s.index] = d
        out["nsub"] = len(subs)
        out["sub_index"] = [s.index for s in subs]
        out["probs" if kind == "run" else "freq"] = [tabs[s.index]["int"] for s in subs]
        out["by_str"] = [sorted((k, round(v, 12)) for k, v in tabs[s.index]["str"].items() if v) for s in subs]
        out["own"] = [tabs[s.index]["own"] for s in subs]

    def read_outs():
        ro = list(r.readouts)
        seq = list(reversed(ro)) if order == "reverse" else ro
        vals = {}
        for x in seq:
            if order in ("str_first", "sub_readouts_first"):
                a = x.as_str
                b = int(x.as_int)
            else:
                b = int(x.as_int)
                a = x.as_str
            vals[id(x)] = (b, a, x.subcircuit.index, x.index)
        out["values"] = [vals[id(x)][0] for x in ro]
        out["strs"] = [vals[id(x)][1] for x in ro]
        out["visits"] = [vals[id(x)][2] for x in ro]
        out["idx"] = [vals[id(x)][3] for x in ro]
    if order == "readouts_first":
        read_outs()
        read_subs()
    else:
        read_subs()
        read_outs()
    return out


def same_summary(R, a, b):
    np = R["np"]
    for k in a:
        x, y = a[k], b[k]
        if k in ("probs", "freq"):
            if len(x) != len(y) or not all(u.shape == v.shape and np.array_equal(u, v) for u, v in zip(x, y)):
                i = next((i for i, (u, v) in enumerate(zip(x, y)) if u.shape != v.shape or not np.array_equal(u, v)), None)
                return f"{k} differ (first at subcircuit {i}; {len(x)} vs {len(y)} subcircuits)"
        elif x != y:
            return f"{k}: {str(x)[:120]} != {str(y)[:120]}"
    return None


def make_outputs(R, kind, rng, nvis, nq):
    vals = [rng.randrange(2 ** nq) for _ in range(nvis)]
    for i in range(0, nvis, 5):
        vals[i] = rng.choice((0, 2 ** nq - 1, 2 ** (nq - 1), 1))
    bits = lambda v: "".join("1" if (v >> k) & 1 else "0" for k in range(nq))
    np = R["np"]
    outs = []
    for j, v in enumerate(vals):
        form = kind if kind != "mixed" else ("int", "str", "np", "bool", "rt_str")[(j + nvis) % 5]
        if form == "str":
            outs.append(bits(v))
        elif form == "rt_str":
            outs.append("".join(list(bits(v))))
        elif form == "np":
            outs.append(np.int64(v))
        elif form == "bool" and v in (0, 1):
            outs.append(bool(v))
        else:
            outs.append(int(v))
    return outs, vals


# ------------------------------------------------------------------------------------------------------------------
# calls that fail
# ------------------------------------------------------------------------------------------------------------------
def deep_circuit(R, tab, depth=1500):
    c = R["Circuit"](native_gates=tab)
    reg = R["Register"]("q", 1)
    c.registers["q"] = reg
    BS = R["BlockStatement"]
    inner = tab["X"](reg[0])
    for level in range(depth):
        inner = BS(parallel=(level % 2 == 1), statements=[inner])
    c.body.statements.append(BS(subcircuit=True, statements=[inner]))
    return c


def failing_call(R, kind, cs, p, tab, build, col, judge, tag):
    """a call the library refuses (its outcome is only counted); where it is made on `cs` itself, cs must stay as it was"""
    K = R["K"]
    BS = R["BlockStatement"]
    attempt = K.attempt
    on_cs = kind in ("bad_measure_def", "bad_prepare_def", "macro_named", "out_too_few", "out_too_many", "out_malformed", "out_none", "boom_backend")
    before = K.d_circuit(R, cs) if on_cs else None
    nq = None
    try:
        nq = len(list(cs.fundamental_registers())[0])
    except Exception:
        nq = 2
    if kind == "deep_run":
        k, r = attempt(lambda: R["run"](deep_circuit(R, tab)))
    elif kind == "deep_outlist":
        k, r = attempt(lambda: R["outlist"](deep_circuit(R, tab), [0]))
    elif kind == "deep_expand":
        k, r = attempt(lambda: R["expand"](deep_circuit(R, tab)))
    elif kind in ("sub_in_par", "sub_in_sub"):
        def make():
            c = build_circuit(R, p, "sub", build, tab)
            inner = BS(subcircuit=True, statements=[BS(subcircuit=True, statements=[])])
            c.body.statements.append(BS(parallel=(kind == "sub_in_par"), subcircuit=(kind == "sub_in_sub"), statements=[inner, BS(subcircuit=True, statements=[])]))
            return R["run"](c)
        k, r = attempt(make)
    elif kind == "bad_measure_def":
        k, r = attempt(lambda: R["expand"](cs, measure_def=tab["X"]))
    elif kind == "bad_prepare_def":
        k, r = attempt(lambda: R["expand"](cs, tab["CX"]))
    elif kind == "macro_named":
        k, r = attempt(lambda: R["expand"](cs, measure_def=next(iter(cs.macros), "measure_all")) if cs.macros else R["expand"](cs, tab["X"]))
    elif kind == "gate_outside_end":
        q = dict(p, body=p["body"] + [["g", "X", [["r", p["reg"], 0]]]])
        k, r = attempt(lambda: R["run"](build_circuit(R, q, "sub", build, tab)))
    elif kind == "two_defects":
        q = dict(p, body=p["body"] + [["sub", None, [["g", "N", [["r", p["reg"], 0]]]]], ["g", "X", [["r", p["reg"], 0]]]])
        k, r = attempt(lambda: R["run"](build_circuit(R, q, "sub", build, tab)))
    elif kind == "out_too_few":
        k, r = attempt(lambda: R["outlist"](cs, []))
    elif kind == "out_too_many":
        k, r = attempt(lambda: R["outlist"](cs, [0] * (K.MAX_VISITS + 50)))
    elif kind == "out_malformed":
        k, r = attempt(lambda: R["outlist"](cs, ["0" * nq, "2" * nq, "0" * (nq + 1), -1, 2 ** nq] * 4))
    elif kind == "out_none":
        k, r = attempt(lambda: R["outlist"](cs, [0, None] * 3))
    elif kind == "boom_backend":
        k, r = attempt(lambda: R["run"](cs, backend=R["Boom"]()))
    else:
        return
    col.count(f"failing_call:{kind}:{'returns' if k == 'ok' else k}")
    if on_cs and k != "ok":
        d = K.first_diff(before, K.d_circuit(R, cs))
        judge("traps_failed_call_leaves_input", d is None, f"{tag}after the refused call [{kind}] ({k}: {str(r)[:80]}) the circuit it was given differs: {d}")


# ------------------------------------------------------------------------------------------------------------------
# one case
# ------------------------------------------------------------------------------------------------------------------
def make_prog(R, spec):
    """-> (program, has_reference, mapping used) or None; deterministic in spec"""
    K = R["K"]
    T = spec["trap"]
    rng = random.Random(f"c09traps/{spec['rs']}/{json.dumps(spec['knobs'], sort_keys=True)}")
    base = None
    for _ in range(30):
        try:
            cand = K.gen_prog(rng, spec["knobs"])
            K.Ref(cand)
            base = cand
            break
        except K.RefError:
            continue
    if base is None:
        return None
    trng = random.Random(f"c09traps/t/{spec['rs']}")
    p = json.loads(json.dumps(base))
    if T["build"] in ("sexpr_shared", "obj_unified"):
        duplicate_statement(K, p, trng)
    sexpr_only = apply_num(K, p, T["num"], trng)
    pn, mn = ("prepare_hw", "measure_hw") if T["mix"] == "caller_named" else ("prepare_all", "measure_all")
    mixed = apply_mix(K, p, T["mix"], trng, pn, mn)
    mp = choose_names(T["names"], identifiers(p), trng, set(R["GI"]) | {"prepare_hw", "measure_hw", "prepare", "measure_al", "prepare_all_", "all"})
    if mp:
        p = rename_prog(p, mp)
    if sexpr_only:
        p["_sexpr_only"] = True
    has_ref = not mixed
    if has_ref:
        try:
            K.Ref(p)
        except K.RefError:
            return None
    return p, has_ref, mp


def text_of(R, p):
    try:
        return R["K"].to_text({k: v for k, v in p.items() if k != "_sexpr_only"}, "sub")
    except Exception as e:
        return f"<{e}>"


def observe(R, spec, p, ref, tab, col, judge, rng):
    K = R["K"]
    T = spec["trap"]
    attempt = K.attempt
    build = T["build"]
    route = spec["route"]
    ov = {}
    tag = ""
    if T["mix"] == "caller_named" and "prepare_hw" not in tab:
        tab = dict(tab)
        tab["prepare_hw"] = tab["prepare_all"].copy(name="prepare_hw")
        tab["measure_hw"] = tab["measure_all"].copy(name="measure_hw")
    # --- history: a failing call BEFORE anything else is made with this program (on a circuit of its own) ---------------
    pre = T["pre"]
    prior = None
    if pre not in ("none", "ran", "expanded", "parsed"):
        k0, prior = attempt(lambda: build_circuit(R, p, "sub", build, tab))
        if k0 == "ok":
            failing_call(R, pre, prior, p, tab, build, col, judge, "[before] ")
        else:
            prior = None
    # --- construction ---------------------------------------------------------------------------------------------------
    ke, ce = attempt(lambda: build_circuit(R, p, "exp", build, tab))
    if ke != "ok":
        col.count("explicit_spelling_refused:build")
        if os.environ.get("C09_TRAPS_DEBUG"):
            print("BUILD REFUSED", ce, "\n" + text_of(R, p))
        return
    if prior is not None and pre in ("bad_measure_def", "bad_prepare_def", "macro_named", "out_too_few", "out_too_many", "out_malformed", "out_none", "boom_backend"):
        ks, cs = "ok", prior        # the circuit the failed call was given is the one used from here on
        col.count("valid_calls_on_the_input_of_a_failed_call")
    else:
        ks, cs = attempt(lambda: build_circuit(R, p, "sub", build, tab))
    judge("traps_accepted", ks == "ok", f"building the program ({build}) with subcircuit blocks raises {ks}: {str(cs)[:200]} - the explicit spelling is accepted")
    if ks != "ok":
        return
    if pre == "ran":
        attempt(lambda: R["run"](cs))
    elif pre == "expanded":
        attempt(lambda: R["expand"](cs))
    elif pre == "parsed":
        attempt(lambda: R["outlist"](cs, [0] * (len(ref.visits) if ref else 1)))
    # --- the route ------------------------------------------------------------------------------------------------------
    ke, xe = attempt(lambda: K.apply_route(R, route, ce, ov))
    if ke != "ok":
        col.count("explicit_spelling_refused:route:" + route)
        return
    ks, xs = attempt(lambda: K.apply_route(R, route, cs, ov))
    if ks != "ok":
        if route == "subs":
            judge("traps_expand_shape", False, f"expand_subcircuits raises {ks}: {xs}")
        else:
            col.count("route_refused_for_subcircuit_spelling_only(not C09):" + route)
        return
    dxs, dxe = K.d_circuit(R, xs), K.d_circuit(R, xe)
    neutral = K.first_diff(K.flat_circuit(K.t_circuit(dxs, "prepare_all", "measure_all")), K.flat_circuit(dxe)) is None
    if not neutral:
        if route == "subs":
            judge("traps_expand_shape", False, "expand_subcircuits(program with subcircuit blocks) is not the explicit spelling: " + str(K.first_diff(K.flat_circuit(dxs), K.flat_circuit(dxe))))
        elif route == "none":
            judge("traps_accepted", False, "the two spellings are built as different programs: " + str(K.first_diff(K.flat_circuit(K.t_circuit(dxs, "prepare_all", "measure_all")), K.flat_circuit(dxe))))
        else:
            col.count("route_not_spelling_neutral(not C09):" + route)
    # --- expand_subcircuits with the chosen definitions ----------------------------------------------------------------
    other = None
    if T["defs"] == "other_circuit":
        other = R["parse"]("register r[1]\nsubcircuit { X r[0] }\nprepare_all\nmeasure_all\n", inject_pulses=R["add_idle"](R["G"].make_gates()), autoload_pulses=False)
        attempt(lambda: R["run"](other))
    expansions = []
    for dk in (T["defs"], "default" if T["defs"] != "default" else "copy_after_use"):
        kd, made = attempt(lambda: make_defs(R, dk, xs, rng, other))
        if kd != "ok":
            col.count("defs_not_made:" + dk)
            continue
        args, kwargs, expp, expm = made
        before = K.d_circuit(R, xs)
        kind, e = attempt(lambda: R["expand"](xs, *args, **kwargs))
        if kind != "ok":
            judge("traps_expand_shape", False, f"expand_subcircuits [{dk}] after route {route} raises {kind}: {e}")
            continue
        want = norm_bool(K.t_circuit(before, expp[-1], expm[-1]))
        have = norm_bool(K.d_circuit(R, e))
        d = K.first_diff(want, have)
        judge("traps_expand_shape", d is None, f"expand_subcircuits [{dk}] after route {route}: expected vs result: {d}")
        left = K.subcircuits_left(R, e)
        judge("traps_no_subcircuit_left", not left, f"expand_subcircuits [{dk}] after route {route} leaves {len(left)} subcircuit block(s), e.g. at {left[0] if left else None}")
        msgs, nfound = [], 0
        for first, last in K.bounding_statements(R, xs, e):
            nfound += 1
            for st, exp, what in ((first, expp, "prepare"), (last, expm, "measure")):
                m = check_bound(R, st, exp, xs, what)
                if m:
                    msgs.append(m)
        nsubs = K.count_subs(R, xs)
        if nfound < nsubs:
            msgs.append(f"only {nfound} blocks of the result stand for the {nsubs} subcircuit blocks of the input")
        judge("traps_bounding_gates", not msgs, f"expand_subcircuits [{dk}] after route {route}: " + "; ".join(msgs[:3]))
        col.count("bounding_blocks_checked", nfound)
        expansions.append((dk, e, expp, expm, have))
        # re-entrancy: the result, expanded again with OTHER definitions, stays what it is
        k2, e2 = attempt(lambda: R["expand"](e, "again.prepare", R["GateDefinition"]("again.measure")))
        if k2 != "ok":
            judge("traps_expand_shape", False, f"expanding the result of expand_subcircuits [{dk}] again raises {k2}: {e2}")
        else:
            d = K.first_diff(have, norm_bool(K.d_circuit(R, e2)))
            judge("traps_expand_shape", d is None, f"expanding the result of expand_subcircuits [{dk}] again (no subcircuit block is left) changes it: {d}")
    if not neutral:
        return
    # --- execution and reporting: stages -----------------------------------------------------------------------------
    stages = [("the program", xs)]
    chain = spec["chain"]
    std = next((e for dk, e, expp, expm, _ in expansions if expp[-1] == "prepare_all" and expm[-1] == "measure_all"), None)
    if std is not None and chain != "none":
        stages.append(("its expansion", std))
        if chain == "let_macros":
            k3, e3 = attempt(lambda: R["macros"](R["fill"](std)))
            if k3 == "ok":
                stages.append(("fill_in_let + expand_macros of its expansion", e3))
            else:
                col.count("chain_refused:" + k3)
        elif chain == "text":
            k3, e3 = attempt(lambda: R["parse"](R["gen"](std), inject_pulses=tab, autoload_pulses=False))
            if k3 == "ok":
                stages.append(("its expansion printed and parsed again", e3))
            else:
                col.count("chain_refused(generator, not C09):" + k3)
        elif chain == "let_then_expand":
            k3, e3 = attempt(lambda: R["expand"](R["fill"](xs)))
            if k3 == "ok":
                stages.append(("expand_subcircuits(fill_in_let(program))", e3))
            else:
                col.count("chain_refused:" + k3)
    order = T["order"]
    seed = spec["rs"] % 2 ** 31
    rv = spec["run"]
    ke, ge = attempt(lambda: K.call_run(R, rv, xe, seed))
    se = summarize(R, ge[0], "run", order) if ke == "ok" else None
    if ke != "ok":
        col.count("explicit_spelling_refused:run:" + ke)
    nvis = len(ref.visits) if ref else (len(se["values"]) if se else 1)
    nq = ref.nq if ref else len(list(xe.fundamental_registers())[0])
    outs, vals = make_outputs(R, spec["outs"], rng, nvis, nq)
    ko, go = attempt(lambda: R["outlist"](xe, list(outs)))
    so = summarize(R, go, "out", order) if ko == "ok" else None
    if ko != "ok":
        col.count("explicit_spelling_refused:output:" + ko)
    for si, (what, circ) in enumerate(stages):
        if si and pre not in ("none", "ran", "expanded", "parsed"):
            failing_call(R, pre, cs, p, tab, build, col, judge, "[between] ")
        ks, gs = attempt(lambda: K.call_run(R, rv, circ, seed))
        if ke != "ok":
            if ks == "ok":
                judge("traps_run_like_explicit", False, f"run [{rv}] of {what}: the explicit spelling is refused ({ge[:100]}), this one is accepted")
            else:
                judge("traps_run_like_explicit", ks == ke, f"run [{rv}] of {what}: refused with {ks} ({gs[:80]}), the explicit spelling with {ke} ({ge[:80]})")
        elif ks != "ok":
            judge("traps_run_like_explicit", False, f"run [{rv}] of {what} raises {ks}: {gs} - the explicit spelling runs")
        else:
            ss = summarize(R, gs[0], "run", order)
            d = same_summary(R, se, ss)
            judge("traps_run_like_explicit", d is None, f"run [{rv}, read {order}] of {what} vs the explicit spelling: {d}")
            if gs[1] is not None and ge[1] is not None:
                left = K.subcircuits_left(R, gs[1])
                d = K.first_diff(K.flat_dump(K.d_stmt(R, ge[1].body)), K.flat_dump(K.d_stmt(R, gs[1].body)))
                judge("traps_run_like_explicit", not left and d is None, f"run [{rv}] of {what}: the backend is handed a different program: {left[0] if left else d}")
            if ref is not None:
                msgs, msgs_e = K.ref_run(ref, ss), K.ref_run(ref, se)
                if msgs and msgs_e:
                    col.count("reference_differs_from_both_spellings:run")
                else:
                    judge("traps_run_like_explicit", not msgs, f"run [{rv}] of {what} vs reference: " + "; ".join(msgs))
        ks, gs = attempt(lambda: R["outlist"](circ, list(outs)))
        if ko != "ok":
            if ks == "ok":
                judge("traps_output_like_explicit", False, f"parse_jaqal_output_list of {what}: the explicit spelling is refused ({go[:100]}), this one is accepted")
            else:
                judge("traps_output_like_explicit", ks == ko, f"parse_jaqal_output_list of {what}: refused with {ks}, the explicit spelling with {ko}")
        elif ks != "ok":
            judge("traps_output_like_explicit", False, f"parse_jaqal_output_list [{spec['outs']}] of {what} raises {ks}: {gs} - the explicit spelling is parsed")
        else:
            ss = summarize(R, gs, "out", order)
            d = same_summary(R, so, ss)
            judge("traps_output_like_explicit", d is None, f"parse_jaqal_output_list [{spec['outs']}, read {order}] of {what} vs the explicit spelling: {d}")
            if ref is not None:
                msgs, msgs_e = K.ref_out(ref, ss, vals), K.ref_out(ref, so, vals)
                if msgs and msgs_e:
                    col.count("reference_differs_from_both_spellings:output")
                else:
                    judge("traps_output_like_explicit", not msgs, f"parse_jaqal_output_list of {what} vs reference: " + "; ".join(msgs))
        col.count("stages_judged")
    col.count("readouts", nvis)
    col.count("programs_with_reference" if ref is not None else "programs_judged_by_the_explicit_spelling_only")
    col.count("explicit_runs" if ke == "ok" else "explicit_refused_at_run")


class Collector:
    def __init__(self):
        self.oracle = {o: {"cases": 0, "failures": []} for o in ORACLES}
        self.dist = {}

    def case(self, name, ok, case, detail):
        o = self.oracle[name]
        o["cases"] += 1
        if not ok and len(o["failures"]) < 20:
            o["failures"].append({"case": case, "detail": detail})
        elif not ok:
            self.count("failures_not_listed:" + name)

    def count(self, key, k=1):
        if k:
            self.dist[key] = self.dist.get(key, 0) + k


def run_case(R, spec, col, record=True):
    K = R["K"]
    fails = []
    case = dict(spec)
    count_col = col if record else Collector()

    def judge(name, ok, detail=""):
        if record:
            col.case(name, ok, case, detail)
        if not ok:
            fails.append((name, detail))

    made = make_prog(R, spec)
    if made is None:
        count_col.count("skipped:no_valid_program")
        return fails
    p, has_ref, mp = made
    case["text"] = text_of(R, p)[:1500]
    T = R["T"]
    rng = random.Random(f"c09traps/outs/{spec['rs']}")
    signal.signal(signal.SIGALRM, _alarm)
    signal.alarm(int(T.limit(2)))
    try:
        pp = {k: v for k, v in p.items()}
        ref = K.Ref(pp) if has_ref else None
        tab = make_table(R, spec["trap"]["table"], rng)
        observe(R, spec, pp, ref, tab, count_col, judge, rng)
        judge("traps_terminates", True)
    except Hang:
        T.saw_hang()
        judge("traps_terminates", False, "no result within the time limit")
    except RecursionError:
        judge("traps_accepted", False, "RecursionError")
    except K.RefError as e:
        count_col.count("skipped_by_reference:" + str(e)[:30])
    except Exception as e:
        import traceback
        tb = traceback.extract_tb(e.__traceback__)
        where = next((f"{os.path.basename(f.filename)}:{f.lineno}" for f in reversed(tb) if "jaqalpaq" in f.filename), f"{os.path.basename(tb[-1].filename)}:{tb[-1].lineno}")
        judge("traps_accepted", False, f"{type(e).__name__}: {str(e)[:200]} {where}")
    finally:
        signal.alarm(0)
    if record:
        for k, v in spec["knobs"].items():
            col.count(f"{k}:{v}")
        for k, v in spec["trap"].items():
            col.count(f"{k}:{v}")
        for k in ("route", "chain", "run", "outs"):
            col.count(f"{k}:{spec[k]}")
        if mp:
            col.count("identifiers_renamed", len(mp))
        for f in sorted(K.features({k: v for k, v in p.items() if k != "_sexpr_only"})):
            col.count("has:" + f)
    return fails


CHAINS = ("expansion", "let_macros", "none", "text", "let_then_expand")


def specs(seed, n, thorough):
    K = _real["K"]
    rng = random.Random(f"c09traps/{seed}/{thorough}")
    k0 = rng.randrange(10000)
    out = []
    for i in range(n):
        k = k0 + i
        knobs = {"shadow": K.SHADOWS[k % len(K.SHADOWS)], "empty": K.EMPTIES[(k * 5 + k // 10) % len(K.EMPTIES)],
                 "where": K.WHERES[(k * 3 + k // 120) % len(K.WHERES)], "pos": K.POSES[(k * 7 + k // 13) % len(K.POSES)]}
        trap = {"table": TABLES[(k * 3 + k // 11) % len(TABLES)], "defs": DEFS[(k * 7 + k // 23) % len(DEFS)],
                "build": BUILDS[(k * 5 + k // 9) % len(BUILDS)], "names": NAMES[(k * 2 + k // 7) % len(NAMES)],
                "num": NUMS[(k * 3 + k // 31) % len(NUMS)], "mix": MIXES[(k * 3 + k // 13) % len(MIXES)],
                "pre": PRES[(k * 5 + k // 19) % len(PRES)], "order": ORDERS[(k * 2 + k // 3) % len(ORDERS)]}
        out.append({"rs": rng.randrange(2 ** 40), "knobs": knobs, "trap": trap, "route": ROUTES[(k * 3 + k // 17) % len(ROUTES)],
                    "chain": CHAINS[(k + k // 6) % len(CHAINS)], "run": RUN_VARIANTS[(k + k // 5) % len(RUN_VARIANTS)],
                    "outs": OUT_KINDS[(k + k // 4) % len(OUT_KINDS)]})
    return out


SPEC_KEYS = ("rs", "knobs", "trap", "route", "chain", "run", "outs")


def run(seed, n, driver=DEFAULT_DRIVER, thorough=False):
    R = _load()
    col = Collector()
    samples, distinct = [], set()
    for spec in specs(seed, n, thorough):
        run_case(R, spec, col)
        distinct.add(json.dumps(spec, sort_keys=True))
        if len(samples) < 6:
            made = make_prog(R, spec)
            if made:
                samples.append(dict(spec, text=text_of(R, made[0])[:1200]))
        if len(distinct) % 50 == 0:
            gc.collect()
    return {"corr": {}, "oracle": col.oracle, "distribution": dict(sorted(col.dist.items())), "samples": samples, "nontrivial": len(distinct)}


def replay(case, driver=DEFAULT_DRIVER):
    R = _load()
    spec = {k: case[k] for k in SPEC_KEYS}
    fails = run_case(R, spec, Collector(), record=False)
    if fails:
        return {"oracle_ok": False, "detail": "; ".join(f"{o}: {d}" for o, d in fails[:4]), "model": None, "impl": None}
    return {"oracle_ok": True, "detail": "all oracles hold on this case", "model": None, "impl": None}


def main():
    ap = argparse.ArgumentParser()
    ap.add_argument("--seed", type=int, default=0)
    ap.add_argument("--n", type=int, default=400)
    ap.add_argument("--thorough", action="store_true")
    a = ap.parse_args()
    r = run(a.seed, a.n, thorough=a.thorough)
    print(json.dumps({"oracle": {k: (v["cases"], len(v["failures"])) for k, v in r["oracle"].items()}, "distribution": r["distribution"],
                      "nontrivial": r["nontrivial"]}, indent=1, default=str))
    for k, v in r["oracle"].items():
        for f in v["failures"][:3]:
            print("FAIL", k, f["detail"], json.dumps({x: f["case"][x] for x in SPEC_KEYS}))
            print(f["case"].get("text"))
    return 1 if any(v["failures"] for v in r["oracle"].values()) else 0


if __name__ == "__main__":
    sys.exit(main())
