#!/venv/bin/python
"""C07 against PYTHON TRAPS in name resolution: object identity, sharing, order, scope nesting, failures (oracles only).

    PYTHONPATH=/verif /venv/bin/python /verif/harness/agents/c07_traps.py [--seed 0] [--n 500] [--thorough]

Why.  The other C07 streams give the builder a program once, as text or as a freshly made S-expression in which every
statement is its own Python object, definitions first, header in one fixed order, and they look at the result through
the built objects and `expand_macros` only.  C07 says that an identifier denotes the innermost binding in scope WHERE
IT IS WRITTEN and that a statement's meaning never depends on another statement.  This stream keeps the programs small
and rich in collisions and varies what the language / the object graph can do behind the text:

* ONE OBJECT, TWO SCOPES  every route that hands the builder an S-expression exists in a hash-consed form: equal
  statements, equal arguments (`("array_item", "p", 0)`), equal blocks are ONE tuple (or ONE list) wherever they occur
  - macro body, another macro, main body, loop body - as the CPython compiler makes them for equal tuple literals and
  as a user makes them who re-uses a block builder (`cb.macro("m", ["a"], body); cb.loop(2, body)`).  The opposite
  form gives every occurrence of every identifier its own `str` object (made at run time, never interned).
* NESTED SCOPES  macros call macros whose parameters have the same names bound to something else; arguments of the
  form `p[0]`, `p[i]`, `p`, where p / i are parameters of the caller (array name, index, direct argument), handed to a
  callee that has its own p / i; observed through the built objects, through `expand_macros` and through
  `get_used_qubit_indices` ON THE UNEXPANDED circuit (identifier -> qubit resolution across calls).
* ORDER  parameters that shadow a header name after / between parameters that shadow nothing (2-4 parameters, all
  orders); header names used AFTER such a macro (main body, later macros, as argument, array name, index, loop count);
  header statements in shuffled (dependency-respecting) order, names declared in descending order; macro definitions
  INTERLEAVED with main-body statements (identical texts earlier and later than the definition).
* NAMES that are substrings of each other (a / ab / ba, q / q0, r / r0, i / i1, n / nn, m / mm / m1).
* FALSY objects  empty blocks, empty macro bodies, loops over empty blocks, counts 0, index 0, values 0 / 0.0 / -0.0,
  int against integral float (1 / 1.0) in textually different twins.
* FAILURES  a build that raises JaqalError half-way (an identifier that is bound only in ANOTHER scope, where the same
  statement text is valid - one defect or two) followed by the build of the valid program from the SAME shared
  objects / the same CircuitBuilder: the failed input is unchanged, the valid build is what a fresh one gives.
* ACCESS ORDER / RE-ENTRANCY  the observations of one circuit (objects, expand_macros, expand_macros(preserve),
  fill_in_let, used qubits before / after expansion) are made in a shuffled order, the circuit must be unchanged by
  them, a CircuitBuilder is built twice.

Routes (all must give the circuit the lexical reference describes):
  text          parse_jaqal_string, definitions first, header lets / register / maps in this order
  text-mixed    parse_jaqal_string, header shuffled, macro definitions interleaved with the main body
  sx-shared     build(S-expression of TUPLES, hash-consed: equal sub-expressions are one object), interleaved
  sx-lists      build(S-expression of LISTS, hash-consed)
  sx-fresh      build(S-expression in which no two occurrences of a name are the same str object, nothing shared)
  cb-shared     CircuitBuilder (everything unevaluated=True); block builders re-used for equal blocks; built twice

Reference.  Programs are JSON trees in the format of c07_edge.py (imported: renderer of statements, `lex_program` - the
lexical evaluation - and `obj_program`, the walker of the real objects).  The used-qubit reference resolves every gate
application of the lexically expanded main body through the header (register, aliases, lets) in this script.

Oracles (all on the real code alone)
* `C07_traps_accepts`       every generated program is lexically valid: every route accepts it (JaqalError or any
                            other exception is a failure).
* `C07_traps_lexical`       the built circuit, walked object by object (main body with calls followed into the macros,
                            every macro opened on its symbolic parameters, block structure included), IS the lexical
                            reference; a Parameter that is not in scope where it stands is a failure.
* `C07_traps_passes`        expand_macros (with / without preserve_definitions), fill_in_let . expand_macros give the
                            gate applications of the lexical expansion, in order; the input circuit is unchanged.
* `C07_traps_used_qubits`   get_used_qubit_indices on the UNEXPANDED circuit, and on the expanded one, is the set of
                            qubits the lexical expansion touches (arguments evaluated in the scope of the call).
* `C07_traps_rejects`       a program in which a statement uses a name that is bound only in another scope (parameter
                            of another macro; not a header name) is rejected with JaqalError by every route, however
                            many valid occurrences of the same text (the same object) there are; also with two defects.
* `C07_traps_after_failure` after such a rejection the rejected S-expression is unchanged and the valid program, built
                            from the same shared objects / the same CircuitBuilder, is the lexical reference.

Sizes: quick n=500 (about 8 s on an idle machine: 500 generated + 9 fixed programs, 4 routes each, 1-2 defect sets on
3 routes), thorough n=3000 (all 6 routes, all observations, defect sets on 4 routes: 75-100 s).  `corr` is empty (no
Lean model here).  Every kept failure carries the program tree, the route and the salt; `replay` re-runs that route.
Importable: `run(seed, n, driver, thorough) -> dict`, `replay(case, driver) -> dict`.
"""
import argparse
import copy
import hashlib
import json
import os
import random
import sys

sys.path.insert(0, os.path.dirname(os.path.dirname(os.path.dirname(os.path.abspath(__file__)))))

from harness.agents import c07_edge as E  # noqa: E402

DEFAULT_DRIVER = "/verif/lean/.lake/build/bin/jaqal-model"

POOL = ["a", "ab", "ba", "b", "q", "q0", "r", "r0", "i", "i1", "n", "nn", "s", "st", "t", "x", "xy"]
MACRO_NAMES = ["m", "mm", "m1", "mg", "gm", "f"]
# usage letters: q qubit, r register (array), f any number, x index (0/1), c count
SIG = {"g": "q", "h": "qq", "u": "qf", "v": "fq", "w": "r", "k": "f", "kk": "ff", "z": ""}
WEIGHT = {"g": 5, "h": 2, "u": 4, "v": 1, "w": 1, "k": 3, "kk": 1, "z": 0.3}
PARAM_SORTS = ["reg", "reg", "reg", "qubit", "qubit", "idx", "idx", "cnt", "num", "num"]
SORT_USAGE = {"reg": "r", "qubit": "q", "idx": "x", "cnt": "c", "num": "f"}
USAGE_SORTS = {"x": ("idx",), "c": ("idx", "cnt"), "f": ("idx", "cnt", "num")}
F_LITS = ["0", "1", "2", "0.5", "-1.5", "2.5", "1.0", "0.0", "-0.0", "7"]

ROUTES = ["text", "text-mixed", "sx-shared", "sx-lists", "sx-fresh", "cb-shared"]
ORACLES = ("C07_traps_accepts", "C07_traps_lexical", "C07_traps_passes", "C07_traps_used_qubits",
           "C07_traps_rejects", "C07_traps_after_failure")

_L = {}


def lib():
    if _L:
        return _L
    L = E.lib()
    from jaqalpaq.core.algorithm import get_used_qubit_indices
    from jaqalpaq.core.circuitbuilder import SubcircuitBlockBuilder

    _L.update(L)
    _L.update(used=get_used_qubit_indices, SubcircuitBlockBuilder=SubcircuitBlockBuilder)
    return _L


guarded = E.guarded


def sub_rng(*parts):
    h = hashlib.sha256(json.dumps(parts, sort_keys=True, default=str).encode()).digest()
    return random.Random(int.from_bytes(h[:8], "big"))


# ---------------------------------------------------------------------------------------------------------------
# tree helpers

def G(name, *args):
    return ["gate", name, list(args)]


def C(name, *args):
    return ["call", name, list(args)]


def N(t):
    return ["num", str(t)]


def I(n):
    return ["id", n]


def IT(a, i):
    return ["item", a, i]


def children(s):
    if s[0] == "loop":
        return s[3]
    if s[0] in ("seq", "par"):
        return s[1]
    if s[0] == "sub":
        return s[2]
    return []


def arg_names(a):
    if a[0] == "num":
        return []
    if a[0] == "id":
        return [a[1]]
    return [a[1]] + arg_names(a[2])


def calls_in(s):
    if s[0] == "call":
        return [s[1]]
    if s[0] == "gate":
        return []
    return [c for x in children(s) for c in calls_in(x)]


def simple_stmts(stmts):
    out = []
    for s in stmts:
        if s[0] in ("gate", "call"):
            out.append(s)
        else:
            out.extend(simple_stmts(children(s)))
    return out


def count_kind(stmts, pred):
    n = 0
    for s in stmts:
        if pred(s):
            n += 1
        n += count_kind(children(s), pred)
    return n


# ---------------------------------------------------------------------------------------------------------------
# rendering (header order and interleaving of definitions and main statements are part of the program tree)

def plain_orders(prog):
    horder = [["let", k] for k in range(len(prog["lets"]))] + [["reg"]] + [["map", k] for k in range(len(prog["maps"]))]
    border = [["M", k] for k in range(len(prog["macros"]))] + [["S", j] for j in range(len(prog["main"]))]
    return horder, border


def header_line(prog, item):
    if item[0] == "let":
        name, text, _role = prog["lets"][item[1]]
        return f"let {name} {text}"
    if item[0] == "reg":
        return f"register {prog['reg'][0]}[{prog['reg'][1]}]"
    m = prog["maps"][item[1]]
    if m[1] == "whole":
        return f"map {m[0]} {m[2]}"
    if m[1] == "qubit":
        return f"map {m[0]} {m[2]}[{m[3]}]"
    start, stop, step = ("" if v is None else str(v) for v in m[3:6])
    return f"map {m[0]} {m[2]}[{start}:{stop}" + (f":{step}" if step else "") + "]"


def render(prog, mixed=False):
    horder, border = (prog.get("horder"), prog.get("border")) if mixed else (None, None)
    ph, pb = plain_orders(prog)
    lines = [header_line(prog, it) for it in (horder or ph)]
    for it in (border or pb):
        if it[0] == "M":
            name, params, _sorts, kind, body = prog["macros"][it[1]]
            lines.append("macro " + " ".join([name] + list(params)) + " " + E.r_block(kind, body, {}))
        else:
            lines.append(E.r_stmt(prog["main"][it[1]]))
    return "\n".join(lines) + "\n"


# ---------------------------------------------------------------------------------------------------------------
# S-expressions: hash-consed tuples / lists, or nothing shared and every name a fresh str object

class Cons:
    """mode 'tuple' / 'list': equal sub-expressions are ONE object; 'fresh': nothing shared, names are new str objects"""

    def __init__(self, mode):
        self.mode = mode
        self.table = {}
        self.shared_hits = 0

    def name(self, s):
        if self.mode != "fresh":
            return s
        return "".join(list(s))  # a str made at run time (CPython: a new object when it has two or more characters)

    def node(self, *items):
        if self.mode == "fresh":
            return tuple(items)
        key = repr(items)
        if key in self.table:
            self.shared_hits += 1
            return self.table[key]
        v = tuple(items) if self.mode == "tuple" else list(items)
        self.table[key] = v
        return v

    def arg(self, a):
        if a[0] == "num":
            return E.py_number(a[1])
        if a[0] == "id":
            return self.name(a[1])
        return self.node("array_item", self.name(a[1]), self.arg(a[2]))

    def stmt(self, s):
        if s[0] in ("gate", "call"):
            return self.node("gate", self.name(s[1]), *[self.arg(a) for a in s[2]])
        if s[0] == "loop":
            return self.node("loop", self.arg(s[1]), self.block(s[2], s[3]))
        if s[0] in ("seq", "par"):
            return self.block(s[0], s[1])
        return self.node("subcircuit_block", "" if s[1] is None else self.arg(s[1]), *[self.stmt(x) for x in s[2]])

    def block(self, kind, stmts):
        return self.node("parallel_block" if kind == "par" else "sequential_block", *[self.stmt(s) for s in stmts])

    def header(self, prog, item):
        if item[0] == "let":
            name, text, _role = prog["lets"][item[1]]
            return self.node("let", self.name(name), E.py_number(text))
        if item[0] == "reg":
            size = prog["reg"][1]
            return self.node("register", self.name(prog["reg"][0]), self.name(size) if isinstance(size, str) else size)
        m = prog["maps"][item[1]]
        if m[1] == "whole":
            return self.node("map", self.name(m[0]), self.name(m[2]))
        if m[1] == "qubit":
            return self.node("map", self.name(m[0]), self.name(m[2]), self.name(m[3]) if isinstance(m[3], str) else m[3])
        return self.node("map", self.name(m[0]), self.name(m[2]), m[3], m[4], m[5])

    def circuit(self, prog, mixed=True):
        horder, border = (prog.get("horder"), prog.get("border")) if mixed else (None, None)
        ph, pb = plain_orders(prog)
        out = ["circuit"] + [self.header(prog, it) for it in (horder or ph)]
        for it in (border or pb):
            if it[0] == "M":
                name, params, _sorts, kind, body = prog["macros"][it[1]]
                out.append(self.node("macro", self.name(name), *[self.name(p) for p in params], self.block(kind, body)))
            else:
                out.append(self.stmt(prog["main"][it[1]]))
        return tuple(out) if self.mode != "list" else out


class CbMaker:
    """CircuitBuilder route: one block builder per distinct block text, re-used wherever that text occurs"""

    def __init__(self):
        self.cache = {}
        self.cons = Cons("tuple")
        self.reused = 0

    def block(self, kind, stmts):
        L = lib()
        key = (kind, E.r_block(kind, stmts, {}))
        if key in self.cache:
            self.reused += 1
            return self.cache[key]
        b = L["ParallelBlockBuilder"]() if kind == "par" else L["SequentialBlockBuilder"]()
        self.fill(b, stmts)
        self.cache[key] = b
        return b

    def fill(self, b, stmts):
        L = lib()
        for s in stmts:
            if s[0] in ("gate", "call"):
                b.gate(s[1], *[self.cons.arg(a) for a in s[2]])
            elif s[0] == "loop":
                b.loop(self.cons.arg(s[1]), self.block(s[2], s[3]), unevaluated=True)
            elif s[0] in ("seq", "par"):
                b.expression.append(self.block(s[0], s[1]).expression)
            else:
                sb = L["SubcircuitBlockBuilder"](None if s[1] is None else self.cons.arg(s[1]))
                self.fill(sb, s[2])
                b.expression.append(sb.expression)

    def circuit(self, prog):
        L = lib()
        cb = L["CircuitBuilder"]()
        horder, border = prog.get("horder"), prog.get("border")
        ph, pb = plain_orders(prog)
        for it in (horder or ph):
            if it[0] == "let":
                name, text, _role = prog["lets"][it[1]]
                cb.let(name, E.py_number(text), unevaluated=True)
            elif it[0] == "reg":
                cb.register(prog["reg"][0], prog["reg"][1], unevaluated=True)
            else:
                m = prog["maps"][it[1]]
                if m[1] == "whole":
                    cb.map(m[0], m[2], unevaluated=True)
                elif m[1] == "qubit":
                    cb.map(m[0], m[2], m[3], unevaluated=True)
                else:
                    cb.map(m[0], m[2], slice(m[3], m[4], m[5]), unevaluated=True)
        for it in (border or pb):
            if it[0] == "M":
                name, params, _sorts, kind, body = prog["macros"][it[1]]
                cb.macro(name, list(params), self.block(kind, body), unevaluated=True)
            else:
                self.fill(cb, [prog["main"][it[1]]])
        return cb


# ---------------------------------------------------------------------------------------------------------------
# used-qubit reference

class RefError(Exception):
    pass


def header_tables(prog, lx):
    """name of a register / alias of several qubits -> [(fundamental register, index)]"""
    def num(v):
        if isinstance(v, str):
            v = lx["lets"][v]
            if v[0] != "int":
                raise RefError("non-integer let as size / index")
            return int(v[1])
        return v

    rname, size = prog["reg"]
    tables = {rname: [(rname, k) for k in range(num(size))]}
    for m in prog["maps"]:
        if m[1] == "whole":
            tables[m[0]] = list(tables[m[2]])
        elif m[1] == "slice":
            tables[m[0]] = tables[m[2]][slice(m[3], m[4], m[5])]
    return tables


def ref_used(prog, lx):
    tables = header_tables(prog, lx)
    used = {}

    def value_qubits(v):
        if v[0] == "hdr":
            return tables.get(v[1], [])
        if v[0] == "item":
            base = value_qubits(v[1])
            idx = v[2]
            if idx[0] == "hdr":
                idx = lx["lets"][idx[1]]
            if idx[0] != "int" or v[1][0] != "hdr" or not (0 <= int(idx[1]) < len(base)):
                raise RefError(f"cannot resolve {E.show(v)}")
            return [base[int(idx[1])]]
        return []

    for t in E.flatten(lx["main"]):
        if t[0] == "gate":
            for a in t[2]:
                for reg, k in value_qubits(a):
                    used.setdefault(reg, set()).add(k)
    return used


def norm_used(d):
    return {k: set(int(x) for x in v) for k, v in dict(d).items() if v}


def show_used(d):
    return "{" + ", ".join(f"{k}: {sorted(v)}" for k, v in sorted(d.items())) + "}"


# ---------------------------------------------------------------------------------------------------------------
# generator

class NoChoice(Exception):
    """nothing of the wanted sort is in scope (every array is shadowed by a number, ...)"""


class Gen:
    def __init__(self, rng):
        self.rng = rng
        self.planted = 0
        self.empties = 0
        self.nested = 0

    def pick(self, xs):
        xs = list(xs)
        if not xs:
            raise NoChoice()
        return xs[self.rng.randrange(len(xs))]

    def chance(self, p):
        return self.rng.random() < p

    def wpick(self, pairs):
        pairs = list(pairs)
        tot = sum(w for _x, w in pairs)
        r = self.rng.random() * tot
        for x, w in pairs:
            r -= w
            if r < 0:
                return x
        return pairs[-1][0]

    def header(self):
        rng = self.rng
        names = list(POOL)
        rng.shuffle(names)
        if self.chance(0.5):
            names.remove("r")
            names.insert(0, "r")
        rname = names.pop(0)
        size = rng.randrange(4, 7)
        lets, maps, scope = [], [], {}
        reg = [rname, size]
        if self.chance(0.2):
            nm = names.pop(0)
            lets.append([nm, self.pick([str(size), f"{size}.0"]), "size"])
            scope[nm] = "num"
            reg = [rname, nm]
        scope[rname] = ("reg", size)
        for _ in range(self.pick([1, 2, 2, 3, 4])):
            role = self.pick(["idx", "idx", "cnt", "num", "num"])
            if role == "idx":
                text = self.pick(["0", "1", "1.0", "0.0"])
            elif role == "cnt":
                text = self.pick(["0", "1", "2", "2.0"])
            else:
                text = self.pick(["0.5", "2.5", "-1.5", "0.25", "7", "-1", "3.0"])
            nm = names.pop(0)
            lets.append([nm, text, role])
            scope[nm] = role
        idx_lets = [l[0] for l in lets if l[2] == "idx"]
        for _ in range(self.pick([0, 1, 2, 2, 3])):
            srcs = [(k, v[1]) for k, v in scope.items() if isinstance(v, tuple)]
            src, ssize = self.pick(srcs)
            kind = self.pick(["whole", "slice", "slice", "qubit", "qubit"])
            nm = names.pop(0)
            if kind == "slice":
                start = self.pick([None, 0, 1, 2])
                step = self.pick([None, None, 1, 2])
                stop = self.pick([None, ssize, ssize - 1])
                ln = len(range(ssize)[slice(start, stop, step)])
                if ln >= 2:
                    maps.append([nm, "slice", src, start, stop, step])
                    scope[nm] = ("reg", ln)
                    continue
                kind = "whole"
            if kind == "qubit":
                index = self.pick(idx_lets) if idx_lets and self.chance(0.4) else rng.randrange(2)
                maps.append([nm, "qubit", src, index])
                scope[nm] = "qubit"
            else:
                maps.append([nm, "whole", src])
                scope[nm] = ("reg", ssize)
        mode = self.pick(["asc", "desc", "shuffle", "shuffle"])
        if mode != "shuffle":
            head = [l for l in lets if l[2] == "size"]
            rest = sorted([l for l in lets if l[2] != "size"], key=lambda l: l[0], reverse=(mode == "desc"))
            lets = head + rest
        return lets, reg, maps, scope, names

    # ---- validity of a statement text in a scope
    def arg_ok(self, a, usage, scope):
        if usage == "q":
            if a[0] == "id":
                return scope.get(a[1]) == "qubit"
            if a[0] != "item" or not isinstance(scope.get(a[1]), tuple):
                return False
            if a[2][0] == "num":
                return a[2][1] in ("0", "1")
            return a[2][0] == "id" and scope.get(a[2][1]) == "idx"
        if usage == "r":
            return a[0] == "id" and isinstance(scope.get(a[1]), tuple)
        if a[0] == "item":
            return False
        if a[0] == "num":
            if usage == "x":
                return a[1] in ("0", "1")
            if usage == "c":
                return a[1] in ("0", "1", "2")
            return True
        return scope.get(a[1]) in USAGE_SORTS[usage]

    def usages(self, s, macros):
        if s[0] == "gate":
            return SIG[s[1]]
        m = macros.get(s[1])
        return None if m is None else [SORT_USAGE[x] for x in m[2]]

    def fits(self, s, scope, macros):
        us = self.usages(s, macros)
        return us is not None and len(us) == len(s[2]) and all(self.arg_ok(a, u, scope) for a, u in zip(s[2], us))

    # ---- arguments
    def gen_arg(self, usage, scope, prefer):
        """prefer: names to favour (parameters of the macro at hand)"""
        def names_of(pred):
            ns = [k for k, v in scope.items() if pred(v)]
            fav = [k for k in ns if k in prefer]
            return fav if fav and self.chance(0.7) else ns

        if usage == "q":
            qs = names_of(lambda v: v == "qubit")
            arrs = names_of(lambda v: isinstance(v, tuple))
            if qs and (not arrs or self.chance(0.4)):
                return I(self.pick(qs))
            xs = names_of(lambda v: v == "idx")
            idx = I(self.pick(xs)) if xs and self.chance(0.5) else N(self.pick(["0", "1"]))
            return IT(self.pick(arrs), idx)
        if usage == "r":
            return I(self.pick(names_of(lambda v: isinstance(v, tuple))))
        ns = names_of(lambda v: v in USAGE_SORTS[usage])
        if ns and self.chance(0.7):
            return I(self.pick(ns))
        if usage == "x":
            return N(self.pick(["0", "1"]))
        if usage == "c":
            return N(self.pick(["0", "1", "2"]))
        return N(self.pick(F_LITS))

    def gen_simple(self, scope, macros, prefer, simple_only=False):
        for _ in range(6):
            try:
                return self.gen_simple1(scope, macros, prefer, simple_only)
            except NoChoice:
                pass
        return G("k", N(self.pick(F_LITS)))

    def gen_simple1(self, scope, macros, prefer, simple_only=False):
        cands = [m for m in macros.values() if not simple_only or m[5]]
        if cands and self.chance(0.45):
            m = self.pick(cands)
            return C(m[0], *[self.gen_arg(SORT_USAGE[s], scope, prefer) for s in m[2]])
        g = self.wpick(WEIGHT.items())
        return G(g, *[self.gen_arg(u, scope, prefer) for u in SIG[g]])

    def gen_stmts(self, n, scope, macros, prefer, where):
        """where: 'top' (main body: everything), 'seq' (inside a sequential block), 'par' (inside a parallel block)"""
        out = []
        for _ in range(n):
            kinds = [("simple", 7)]
            if where != "par":
                kinds += [("loop", 1.5), ("par", 0.8)]
            if where in ("top", "par"):
                kinds += [("seq", 0.7)]
            if where == "top":
                kinds += [("sub", 0.6)]
            kind = self.wpick(kinds)
            if kind == "simple":
                out.append(self.gen_simple(scope, macros, prefer, simple_only=(where == "par")))
            elif kind == "loop":
                out.append(["loop", self.gen_count(scope, prefer), "seq", self.gen_body(scope, macros, prefer, "seq")])
            elif kind == "par":
                out.append(["par", self.gen_body(scope, macros, prefer, "par")])
            elif kind == "seq":
                inner = [self.gen_simple(scope, macros, prefer, simple_only=(where == "par")) for _ in range(self.pick([0, 1, 2]))]
                self.empties += not inner
                out.append(["seq", inner])
            else:
                cnt = None if self.chance(0.4) else self.gen_count(scope, prefer)
                out.append(["sub", cnt, [self.gen_simple(scope, macros, prefer, simple_only=True) for _ in range(self.pick([0, 1, 2]))]])
        return out

    def gen_count(self, scope, prefer):
        return self.gen_arg("c", scope, prefer)

    def gen_body(self, scope, macros, prefer, where):
        n = self.pick([0, 1, 1, 2, 2, 3])
        self.empties += n == 0
        return self.gen_stmts(n, scope, macros, prefer, where)

    def program(self):
        rng = self.rng
        lets, reg, maps, hscope, free = self.header()
        macros, mlist = {}, []
        mnames = list(MACRO_NAMES)
        rng.shuffle(mnames)
        earlier_params = []
        for _k in range(self.pick([1, 2, 2, 3, 3, 4])):
            name = mnames.pop(0)
            nparams = self.pick([0, 1, 1, 2, 2, 2, 3, 3, 4])
            params, sorts = [], []
            for _ in range(nparams):
                r = rng.random()
                if r < 0.5:
                    cand = list(hscope)
                elif r < 0.75 and earlier_params:
                    cand = list(earlier_params)
                else:
                    cand = list(free) + [p + "0" for p in hscope] + [p[:1] for p in hscope if len(p) > 1]
                cand = [c for c in cand if c not in params]
                if not cand:
                    continue
                params.append(self.pick(cand))
                sorts.append(self.pick(PARAM_SORTS))
            # NESTED SCOPES: an earlier macro with a qubit parameter and another parameter P; this macro gets a register
            # parameter also named P and calls it with P[..] for the qubit (written HERE, so it is this macro's P)
            nest = None
            cands = [m for m in mlist if "qubit" in m[2] and len(m[1]) >= 2]
            if cands and self.chance(0.5):
                callee = self.pick(cands)
                others = [p for p, srt in zip(callee[1], callee[2]) if srt != "qubit"] or [p for p in callee[1][1:]]
                P = self.pick(others)
                if P in params:
                    sorts[params.index(P)] = "reg"
                else:
                    params.append(P)
                    sorts.append("reg")
                nest = (callee, P)
            if self.chance(0.5):  # parameters that shadow nothing first
                order = sorted(range(len(params)), key=lambda j: (params[j] in hscope, rng.random()))
                params, sorts = [params[j] for j in order], [sorts[j] for j in order]
            scope = dict(hscope)
            for p, s in zip(params, sorts):
                scope[p] = ("reg", 2) if s == "reg" else s
            kind = "par" if self.chance(0.1) else "seq"
            body = self.gen_body(scope, macros, set(params), kind)
            if nest and kind == "seq":
                callee, P = nest
                try:
                    args = []
                    for cp, srt in zip(callee[1], callee[2]):
                        if srt == "qubit" and (cp != P or not args):
                            xs = [n for n, v in scope.items() if v == "idx" and n in params]
                            args.append(IT(P, I(self.pick(xs)) if xs and self.chance(0.3) else N(self.pick(["0", "1"]))))
                        else:
                            args.append(self.gen_arg(SORT_USAGE[srt], scope, set()))
                    body.insert(rng.randrange(len(body) + 1), C(callee[0], *args))
                    self.nested += 1
                except NoChoice:
                    pass
            simple = all(s[0] == "gate" for s in body)
            m = [name, params, sorts, kind, body, simple]
            macros[name] = m
            mlist.append(m)
            earlier_params.extend(params)
        main = self.gen_stmts(self.pick([1, 2, 3, 4]), hscope, macros, set(), "top")
        for m in mlist:  # every macro is called
            if m[0] not in [c for s in main for c in calls_in(s)] and self.chance(0.85):
                try:
                    main.insert(rng.randrange(len(main) + 1), C(m[0], *[self.gen_arg(SORT_USAGE[s], hscope, set()) for s in m[2]]))
                except NoChoice:
                    pass
        # plant statement texts of other scopes wherever they are valid
        pool = [s for m in mlist for s in simple_stmts(m[4])] + simple_stmts(main)
        for k, m in enumerate(mlist):
            scope = dict(hscope)
            for p, s in zip(m[1], m[2]):
                scope[p] = ("reg", 2) if s == "reg" else s
            vis = {x[0]: x for x in mlist[:k]}
            for _ in range(2):
                if pool and self.chance(0.6):
                    s = self.pick(pool)
                    if self.fits(s, scope, vis) and (m[3] == "seq" or s[0] == "gate"):
                        m[4].insert(rng.randrange(len(m[4]) + 1), copy.deepcopy(s))
                        m[5] = m[5] and s[0] == "gate"
                        self.planted += 1
        for _ in range(2):
            if pool and self.chance(0.7):
                s = self.pick(pool)
                if self.fits(s, hscope, macros):
                    main.insert(rng.randrange(len(main) + 1), copy.deepcopy(s))
                    self.planted += 1
        prog = {"lets": lets, "reg": reg, "maps": maps, "macros": [m[:5] for m in mlist], "main": main}
        prog["horder"], prog["border"] = self.orders(prog)
        return prog, hscope

    def orders(self, prog):
        rng = self.rng
        # header: a random order in which everything is declared before it is used
        items = [["let", k] for k in range(len(prog["lets"]))] + [["reg"]] + [["map", k] for k in range(len(prog["maps"]))]
        declared, horder = set(), []

        def needs(it):
            if it[0] == "let":
                return set()
            if it[0] == "reg":
                return {prog["reg"][1]} if isinstance(prog["reg"][1], str) else set()
            m = prog["maps"][it[1]]
            return {m[2]} | ({m[3]} if m[1] == "qubit" and isinstance(m[3], str) else set())

        def name_of(it):
            return prog["lets"][it[1]][0] if it[0] == "let" else prog["reg"][0] if it[0] == "reg" else prog["maps"][it[1]][0]

        while items:
            ready = [it for it in items if needs(it) <= declared]
            it = ready[rng.randrange(len(ready))]
            items.remove(it)
            horder.append(it)
            declared.add(name_of(it))
        # body: main statements anywhere after the definitions of the macros they call
        idx = {m[0]: k for k, m in enumerate(prog["macros"])}
        border = [["M", k] for k in range(len(prog["macros"]))]
        pos_min = 0
        for j, s in enumerate(prog["main"]):
            need = max([idx[c] for c in calls_in(s)], default=-1)
            lo = max(pos_min, next((p + 1 for p, it in enumerate(border) if it == ["M", need]), 0))
            p = rng.randrange(lo, len(border) + 1)
            border.insert(p, ["S", j])
            pos_min = p + 1
        return horder, border

    # ---- defects: a statement whose text is valid in one macro, placed where one of its names is unbound
    def defects(self, prog, hscope):
        out = []
        for k, m in enumerate(prog["macros"]):
            for s in simple_stmts(m[4]):
                if s[0] != "gate":
                    continue
                names = [n for a in s[2] for n in arg_names(a)]
                unbound_in_main = [n for n in names if n in m[1] and n not in hscope]
                if unbound_in_main:
                    out.append({"stmt": s, "from": m[0], "to": None, "name": unbound_in_main[0]})
                for j, m2 in enumerate(prog["macros"]):
                    if j != k and m2[3] == "seq":
                        ub = [n for n in names if n in m[1] and n not in hscope and n not in m2[1]]
                        if ub:
                            out.append({"stmt": s, "from": m[0], "to": m2[0], "name": ub[0]})
        return out


def apply_defects(prog, ds, rng):
    bad = copy.deepcopy(prog)
    for d in ds:
        s = copy.deepcopy(d["stmt"])
        if d["to"] is None:
            bad["main"].insert(rng.randrange(len(bad["main"]) + 1), s)
        else:
            m = next(m for m in bad["macros"] if m[0] == d["to"])
            m[4].insert(rng.randrange(len(m[4]) + 1), s)
    bad.pop("horder", None)
    bad.pop("border", None)
    return bad


# ---------------------------------------------------------------------------------------------------------------
# fixed programs: the shapes of the class, by hand

def fixed_programs():
    P = []
    # nested calls: p[0] written in outer (p = s) handed to inner, whose own p is t
    P.append({"lets": [], "reg": ["r", 6], "maps": [["s", "slice", "r", 2, 4, None], ["t", "slice", "r", 4, 6, None]],
              "macros": [["inner", ["q", "p"], ["qubit", "reg"], "seq", [G("g", I("q"))]],
                         ["outer", ["p"], ["reg"], "seq", [C("inner", IT("p", N(0)), I("t"))]]],
              "main": [C("outer", I("s"))]})
    P.append({"lets": [], "reg": ["r", 6], "maps": [["t", "slice", "r", 4, 6, None]],
              "macros": [["inner", ["q", "r"], ["qubit", "num"], "seq", [G("g", I("q"))]],
                         ["outer", ["r"], ["reg"], "seq", [C("inner", IT("r", N(1)), N("0.5"))]]],
              "main": [C("outer", I("t"))]})
    P.append({"lets": [], "reg": ["r", 6], "maps": [["s", "slice", "r", 2, 4, None], ["t", "slice", "r", 4, 6, None]],
              "macros": [["low", ["q", "p"], ["qubit", "reg"], "seq", [G("g", I("q")), G("h", IT("p", N(1)), I("q"))]],
                         ["mid", ["q", "p"], ["qubit", "reg"], "seq", [C("low", I("q"), I("r"))]],
                         ["top", ["p"], ["reg"], "seq", [C("mid", IT("p", N(0)), I("t"))]]],
              "main": [C("top", I("s"))]})
    # index parameter of the caller handed on as an index: i of outer against i of inner
    P.append({"lets": [["i", "1", "idx"]], "reg": ["r", 6], "maps": [],
              "macros": [["inner", ["q", "i"], ["qubit", "idx"], "seq", [G("g", I("q")), G("g", IT("r", I("i")))]],
                         ["outer", ["i"], ["idx"], "seq", [C("inner", IT("r", I("i")), N(0)), G("g", IT("r", I("i")))]]],
              "main": [G("g", IT("r", I("i"))), C("outer", N(1)), C("inner", IT("r", I("i")), I("i"))]})
    # the same statement text in a macro (parameter a) and in the main body (let a), both orders
    P.append({"lets": [["a", "7", "num"]], "reg": ["r", 4], "maps": [],
              "macros": [["m", ["a"], ["num"], "seq", [G("k", I("a"))]]],
              "main": [G("k", I("a")), C("m", N(3)), ["loop", N(2), "seq", [G("k", I("a"))]]],
              "border": [["S", 0], ["M", 0], ["S", 1], ["S", 2]]})
    P.append({"lets": [["i", "1", "idx"]], "reg": ["r", 4], "maps": [],
              "macros": [["m", ["i"], ["idx"], "seq", [G("g", IT("r", I("i")))]],
                         ["mm", ["r"], ["reg"], "seq", [G("g", IT("r", I("i")))]]],
              "main": [G("g", IT("r", I("i"))), C("m", N(0)), C("mm", I("r"))],
              "border": [["S", 0], ["M", 0], ["M", 1], ["S", 1], ["S", 2]]})
    # a parameter that shadows nothing before parameters that shadow header names; header names used afterwards
    P.append({"lets": [["k", "2", "cnt"]], "reg": ["r", 4], "maps": [],
              "macros": [["m", ["q", "k"], ["qubit", "num"], "seq", [G("u", I("q"), I("k"))]]],
              "main": [C("m", IT("r", N(0)), N(1)), G("u", IT("r", N(1)), I("k")), ["loop", I("k"), "seq", [G("k", I("k"))]]]})
    P.append({"lets": [["a", "1", "idx"], ["b", "2", "cnt"]], "reg": ["r", 4], "maps": [],
              "macros": [["m", ["x", "b", "a"], ["num", "num", "num"], "seq", [G("kk", I("x"), I("b")), G("k", I("a"))]],
                         ["mm", ["q"], ["qubit"], "seq", [G("u", I("q"), I("b")), G("g", IT("r", I("a")))]]],
              "main": [G("k", I("b")), C("m", N(0), N(1), N(2)), C("mm", IT("r", I("a"))), G("k", I("a"))]})
    # empty things and one block text in three places
    P.append({"lets": [["a", "0", "cnt"]], "reg": ["r", 4], "maps": [["q", "qubit", "r", 0]],
              "macros": [["m", ["a"], ["qubit"], "seq", []], ["mm", ["q"], ["qubit"], "seq", [["loop", I("a"), "seq", []], G("g", I("q"))]],
                         ["m1", ["a"], ["cnt"], "seq", [["loop", I("a"), "seq", []], G("g", I("q"))]]],
              "main": [C("m", I("q")), ["seq", []], ["loop", I("a"), "seq", []], G("g", I("q")), C("mm", IT("r", N(1))), C("m1", N(2))]})
    for p in P:
        ph, pb = plain_orders(p)
        p.setdefault("horder", ph)
        p.setdefault("border", pb)
    return P


# ---------------------------------------------------------------------------------------------------------------
# building along a route, judging a circuit

def build_route(prog, route):
    """-> guarded outcome of the first build, plus extra facts"""
    L = lib()
    facts = {}
    if route == "text":
        return guarded(lambda: L["parse"](render(prog), autoload_pulses=False)), facts
    if route == "text-mixed":
        return guarded(lambda: L["parse"](render(prog, mixed=True), autoload_pulses=False)), facts
    if route in ("sx-shared", "sx-lists", "sx-fresh"):
        cons = Cons({"sx-shared": "tuple", "sx-lists": "list", "sx-fresh": "fresh"}[route])
        sx = cons.circuit(prog)
        facts["shared"] = cons.shared_hits
        snap = copy.deepcopy(sx)
        out = guarded(lambda: L["build"](sx))
        if sx != snap:
            facts["mutated"] = True
        return out, facts
    if route == "cb-shared":
        mk = CbMaker()
        cb = mk.circuit(prog)
        facts["shared"] = mk.reused
        out = guarded(cb.build)
        facts["second"] = guarded(cb.build)
        return out, facts
    raise ValueError(route)


def judge_circuit(prog, lx, want_used, c, rng, thorough):
    """-> [(oracle, detail)]; the observations are made in a shuffled order"""
    L = lib()
    fails = []
    obs = ["lex", "expand", "used", "let"] + (["expand-p", "used-x"] if thorough or rng.random() < 0.4 else [])
    rng.shuffle(obs)
    first = E.obj_program(c) if rng.random() < 0.5 else None
    flat = E.flatten(lx["main"])
    filled = E.flatten(E.fill_trees(lx["main"], lx["lets"]))
    expanded = None
    for o in obs:
        if o == "lex":
            op = E.obj_program(c)
            first = first or op
            if isinstance(op["main"], str):
                fails.append(("C07_traps_lexical", op["main"]))
            elif op["main"] != lx["main"]:
                fails.append(("C07_traps_lexical", "main body: " + E.first_difference(op["main"], lx["main"])))
            if sorted(op["macros"]) != sorted(lx["macros"]):
                fails.append(("C07_traps_lexical", f"macros {sorted(op['macros'])}, expected {sorted(lx['macros'])}"))
            for name, want in lx["macros"].items():
                got = op["macros"].get(name)
                if isinstance(got, str):
                    fails.append(("C07_traps_lexical", got))
                elif got is not None and got != want:
                    fails.append(("C07_traps_lexical", f"macro {name}: " + E.first_difference(got, want)))
        elif o in ("expand", "expand-p", "let"):
            if o == "let":
                out = guarded(lambda: L["expand_macros"](L["fill_in_let"](c)))
                want = filled
            else:
                out = guarded(lambda: L["expand_macros"](c, preserve_definitions=(o == "expand-p")))
                want = flat
            what = {"expand": "expand_macros", "expand-p": "expand_macros(preserve_definitions)", "let": "expand_macros(fill_in_let)"}[o]
            if out[0] != "ok":
                fails.append(("C07_traps_passes", f"{what} fails on a valid program: {out[1:]}"))
                continue
            if o == "expand":
                expanded = out[1]
            got = E.obj_program(out[1])["main"]
            if isinstance(got, str):
                fails.append(("C07_traps_passes", f"after {what}: {got}"))
            elif E.flatten(got) != want:
                fails.append(("C07_traps_passes", f"after {what}: " + E.first_difference(E.flatten(got), want, "gate application")))
        elif o in ("used", "used-x"):
            if want_used is None:
                continue
            target = c
            if o == "used-x":
                if expanded is None:
                    ex = guarded(lambda: L["expand_macros"](c))
                    if ex[0] != "ok":
                        continue
                    expanded = ex[1]
                target = expanded
            out = guarded(lambda: L["used"](target))
            what = "get_used_qubit_indices(" + ("expanded" if o == "used-x" else "unexpanded") + " circuit)"
            if out[0] != "ok":
                fails.append(("C07_traps_used_qubits", f"{what} fails on a valid program: {out[1:]}"))
            elif norm_used(out[1]) != want_used:
                fails.append(("C07_traps_used_qubits", f"{what} = {show_used(norm_used(out[1]))}, lexically {show_used(want_used)}"))
    last = E.obj_program(c)
    if first is not None and last != first:
        fails.append(("C07_traps_passes", "the circuit is not the same after the passes ran on it"))
    return fails


def check_route(prog, route, salt, thorough):
    """-> (status, [(oracle, detail)], facts)"""
    try:
        lx = E.lex_program(prog, "text" if route.startswith("text") else "sx")
    except (E.LexError, ValueError) as e:
        return "invalid", [], {"why": str(e)}
    try:
        want_used = ref_used(prog, lx)
    except RefError:
        want_used = None
    out, facts = build_route(prog, route)
    if out[0] != "ok":
        return "refused", [("C07_traps_accepts", f"{route} refuses a valid program: {out[1:]}")], facts
    fails = []
    if facts.get("mutated"):
        fails.append(("C07_traps_lexical", f"{route}: build changed the S-expression it was given"))
    fails += judge_circuit(prog, lx, want_used, out[1], sub_rng(salt, route), thorough)
    if "second" in facts:
        sec = facts["second"]
        if sec[0] != "ok":
            fails.append(("C07_traps_accepts", f"the second build() of the same CircuitBuilder fails: {sec[1:]}"))
        else:
            op = E.obj_program(sec[1])
            if op["main"] != lx["main"] or any(op["macros"].get(k) != v for k, v in lx["macros"].items()):
                fails.append(("C07_traps_lexical", "second build() of the same CircuitBuilder: not the lexical reference"))
    return "ok", fails, facts


def check_defect(prog, ds, route, salt):
    """-> [(oracle, detail)]: the defective program is rejected, the input is unchanged, and the valid program built
    afterwards from the same shared objects is the lexical reference"""
    L = lib()
    rng = sub_rng(salt, "defect", route)
    bad = apply_defects(prog, ds, rng)
    good = copy.deepcopy(prog)
    good.pop("horder", None)
    good.pop("border", None)
    fails = []
    what = "; ".join(f"`{E.r_stmt(d['stmt'])}` of macro {d['from']} placed in {d['to'] or 'the main body'} ({d['name']} unbound there)" for d in ds)

    def must_reject(out):
        if out[0] == "rej":
            return
        if out[0] == "ok":
            fails.append(("C07_traps_rejects", f"{route} accepts: {what}"))
        else:
            fails.append(("C07_traps_rejects", f"{route} does not answer with JaqalError ({out[:3]}): {what}"))

    lx = E.lex_program(good, "text" if route == "text" else "sx")

    def must_be_good(out, how):
        if out[0] != "ok":
            fails.append(("C07_traps_after_failure", f"{how}: the valid program is refused: {out[1:]}"))
            return
        op = E.obj_program(out[1])
        if isinstance(op["main"], str) or op["main"] != lx["main"]:
            d = op["main"] if isinstance(op["main"], str) else E.first_difference(op["main"], lx["main"])
            fails.append(("C07_traps_after_failure", f"{how}: main body: {d}"))
        for name, want in lx["macros"].items():
            got = op["macros"].get(name)
            if got != want:
                d = got if isinstance(got, str) else E.first_difference(got or [], want)
                fails.append(("C07_traps_after_failure", f"{how}: macro {name}: {d}"))
        ex = guarded(lambda: L["expand_macros"](out[1]))
        if ex[0] != "ok":
            fails.append(("C07_traps_after_failure", f"{how}: expand_macros fails: {ex[1:]}"))
        else:
            got = E.obj_program(ex[1])["main"]
            if isinstance(got, str) or E.flatten(got) != E.flatten(lx["main"]):
                fails.append(("C07_traps_after_failure", f"{how}: expand_macros differs from the lexical expansion"))

    if route == "text":
        must_reject(guarded(lambda: L["parse"](render(bad), autoload_pulses=False)))
        must_be_good(guarded(lambda: L["parse"](render(good), autoload_pulses=False)), "parse after a rejected parse")
    elif route in ("sx-shared", "sx-lists"):
        cons = Cons("tuple" if route == "sx-shared" else "list")
        sx_bad = cons.circuit(bad)
        sx_good = cons.circuit(good)  # shares every equal sub-expression with the defective program
        snap = copy.deepcopy(sx_bad)
        must_reject(guarded(lambda: L["build"](sx_bad)))
        if sx_bad != snap:
            fails.append(("C07_traps_after_failure", "the rejected S-expression was changed by build"))
        must_be_good(guarded(lambda: L["build"](sx_good)), "build of the valid program from the objects of the rejected one")
    else:  # cb-shared: defects in the main body go in and out of ONE CircuitBuilder
        mk = CbMaker()
        cb = mk.circuit(good)
        n0 = len(cb.expression)
        extra = [d for d in ds if d["to"] is None] or ds[:1]
        for d in extra:
            cb.gate(d["stmt"][1], *[mk.cons.arg(a) for a in d["stmt"][2]])
        must_reject(guarded(cb.build))
        del cb.expression[n0:]
        must_be_good(guarded(cb.build), "CircuitBuilder.build after the offending statement was removed")
    return fails


# ---------------------------------------------------------------------------------------------------------------

def _bump(res, key, by=1):
    res["distribution"][key] = res["distribution"].get(key, 0) + by


def _fail(res, oracle, case, detail):
    lst = res["oracle"][oracle]["failures"]
    _bump(res, f"FAILURES (all of them, 20 are kept): {oracle}, " + ("fixed program" if case.get("fixed") else "generated program"))
    if len(lst) < 20:
        lst.append({"case": dict(case, oracle=oracle), "detail": detail})


def features(prog, hscope):
    f = []
    for m in prog["macros"]:
        sh = [p in hscope for p in m[1]]
        if any(sh):
            f.append("macro: parameter named like a header name")
        if any(a and not b for a, b in zip(sh[1:], sh[:-1])):
            f.append("macro: shadowing parameter AFTER a parameter that shadows nothing")
        for p in m[1]:
            if any(p != o and (p in o or o in p) for o in list(hscope) + m[1]):
                f.append("names: a parameter is a substring / superstring of another name in scope")
                break
        if not m[4]:
            f.append("macro: empty body")
        for s in simple_stmts(m[4]):
            if s[0] == "call":
                callee = next(x for x in prog["macros"] if x[0] == s[1])
                if set(callee[1]) & set(m[1]):
                    f.append("nested call: caller and callee have a parameter of the same name")
                    for a in s[2]:
                        if a[0] == "item" and a[1] in m[1] and a[1] in callee[1]:
                            f.append("nested call: argument p[..] where p is a parameter of caller AND callee")
                        if a[0] == "item" and a[2][0] == "id" and a[2][1] in m[1] and a[2][1] in callee[1]:
                            f.append("nested call: argument x[i] where i is a parameter of caller AND callee")
    texts = {}
    for where, stmts in [(m[0], m[4]) for m in prog["macros"]] + [("main", prog["main"])]:
        for s in simple_stmts(stmts):
            texts.setdefault(E.r_stmt(s), set()).add(where)
    if any(len(v) > 1 for v in texts.values()):
        f.append("one statement text in two or more scopes")
    b = prog.get("border") or []
    if any(it[0] == "S" for it in b[: max([k for k, it in enumerate(b) if it[0] == "M"], default=0)]):
        f.append("main-body statement before a macro definition")
    return f


def run_one(res, prog, hscope, gen, salt, thorough, routes, fixed=False):
    case0 = {"prog": prog, "salt": salt, "thorough": thorough, "fixed": fixed, "text": render(prog, mixed=True)}
    for route in routes:
        status, fails, facts = check_route(prog, route, salt, thorough)
        if status == "invalid":
            _bump(res, f"generator: invalid program ({facts['why'][:60]})")
            return
        _bump(res, f"route {route}: {status}")
        if facts.get("shared"):
            _bump(res, f"route {route}: sub-expressions / builders that are one object in two places", facts["shared"])
        res["oracle"]["C07_traps_accepts"]["cases"] += 1
        if status == "ok":
            for o in ("C07_traps_lexical", "C07_traps_passes", "C07_traps_used_qubits"):
                res["oracle"][o]["cases"] += 1
        for o, d in fails[:6]:
            _fail(res, o, dict(case0, route=route), f"{route}: {d}" if not d.startswith(route) else d)
    if gen is None:
        return
    ds = gen.defects(prog, hscope)
    if not ds:
        _bump(res, "defects: none possible (every parameter is also a header name)")
        return
    rng = sub_rng(salt, "which defects")
    picks = [[ds[rng.randrange(len(ds))]]]
    if len(ds) > 1 and (thorough or rng.random() < 0.5):
        picks.append(rng.sample(ds, 2))
    for k, sel in enumerate(picks):
        for route in (["text", "sx-shared", "sx-lists", "cb-shared"] if thorough else ["text", ["sx-shared", "sx-lists"][salt % 2], "cb-shared"]):
            _bump(res, f"defects: {len(sel)} in one program, route {route}")
            res["oracle"]["C07_traps_rejects"]["cases"] += 1
            res["oracle"]["C07_traps_after_failure"]["cases"] += 1
            for o, d in check_defect(prog, sel, route, salt)[:4]:
                _fail(res, o, dict(case0, route=route, defects=sel), d)


def run(seed: int, n: int, driver: str = DEFAULT_DRIVER, thorough: bool = False) -> dict:
    lib()
    E._ISO.clear()
    res = {"corr": {}, "oracle": {o: {"cases": 0, "failures": []} for o in ORACLES},
           "distribution": {}, "samples": [], "nontrivial": 0}
    distinct = set()
    for k, prog in enumerate(fixed_programs()):
        _bump(res, "programs: fixed")
        distinct.add(render(prog, mixed=True))
        run_one(res, prog, None, None, 1000 + k, True, ROUTES, fixed=True)
    for k in range(n):
        gen = Gen(random.Random(seed * 1000003 + k))
        prog, hscope = gen.program()
        salt = seed * 7919 + k
        text = render(prog, mixed=True)
        distinct.add(text)
        _bump(res, "programs: generated")
        _bump(res, f"macros per program: {len(prog['macros'])}")
        _bump(res, "statement texts planted in another scope", gen.planted)
        _bump(res, "empty blocks / bodies", gen.empties)
        _bump(res, "nested call planted: P[..] of the caller's register parameter P to a callee with its own P", gen.nested)
        for f in set(features(prog, hscope)):
            _bump(res, f)
        routes = ROUTES if thorough else ["text-mixed", "sx-shared", "cb-shared", ["text", "sx-lists", "sx-fresh"][k % 3]]
        run_one(res, prog, hscope, gen, salt, thorough, routes)
        if k < 4:
            res["samples"].append({"text": text})
    res["nontrivial"] = len(distinct)
    return res


def replay(case: dict, driver: str = DEFAULT_DRIVER) -> dict:
    lib()
    prog, route, salt = case["prog"], case["route"], case.get("salt", 0)
    oracle = case.get("oracle", "C07_traps_lexical")
    if "defects" in case:
        fails = check_defect(prog, case["defects"], route, salt)
    else:
        _status, fails, _facts = check_route(prog, route, salt, case.get("thorough", True))
    mine = [d for o, d in fails if o == oracle]
    return {"oracle_ok": not mine, "detail": "; ".join(mine)[:1500], "others": [f"{o}: {d}"[:300] for o, d in fails if o != oracle][:5]}


def main():
    ap = argparse.ArgumentParser()
    ap.add_argument("--driver", default=DEFAULT_DRIVER)
    ap.add_argument("--seed", type=int, default=0)
    ap.add_argument("--n", type=int, default=500)
    ap.add_argument("--thorough", action="store_true")
    ap.add_argument("--json", action="store_true")
    a = ap.parse_args()
    res = run(a.seed, a.n, a.driver, a.thorough)
    if a.json:
        print(json.dumps(res, indent=1, default=str))
    bad = 0
    for name, r in res["oracle"].items():
        print(f"oracle {name}: {r['cases']} cases, {len(r['failures'])} failures (first 20 kept)")
        for d in r["failures"][:3]:
            print("  FAIL", d["detail"][:700])
            print("       route", d["case"].get("route"), "defects", d["case"].get("defects"))
            print("       " + d["case"]["text"][:1500].replace("\n", "\n       "))
            rp = replay(json.loads(json.dumps(d["case"])))
            print("       replay:", rp["oracle_ok"], str(rp["detail"])[:200])
        bad += len(r["failures"])
    print("distinct programs:", res["nontrivial"])
    for k in sorted(res["distribution"]):
        print(f"  {res['distribution'][k]:7d}  {k}")
    sys.exit(1 if bad else 0)


if __name__ == "__main__":
    main()
