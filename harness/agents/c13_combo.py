#!/venv/bin/python
"""C13 on COMBINATIONS and POSITIONS: used-qubit analysis and the parallel-disjointness check on programs in which three
ordinary features meet, on shapes "one level off", on first / last elements, and on MANY programs judged in one process.

The other C13 streams (used_diff, c13_history, c13_edge) always write a loop body in braces, never give a macro parameter the
name of a let constant that an ALIAS BOUND / REGISTER SIZE / QUBIT-ALIAS INDEX uses while that alias is used inside the macro,
never apply the passes in another order than expand_subcircuits -> fill_in_let -> expand_macros, never override a let, never
nest every subcircuit, never make a macro call the whole program.  This stream does, systematically:

  shadowing   macro parameters named like a let constant / the register / an alias / a qubit alias that is ALSO used
              (through an alias bound, the register size, a qubit-alias index, an alias-of-alias chain) by something the macro
              body refers to; the parameter itself used as index, loop count, classical argument, qubit, register; the same
              parameter names in caller and callee forwarded crosswise; an override_dict entry for the shadowed name;
              the passes expand_macros / fill_in_let(override) / expand_subcircuits in EVERY order and subset; the parser's
              expand_macro / expand_let flags; get_used_qubit_indices(statement of a macro body, context = the call's arguments)
  shapes      `loop n < a | b >` (LoopStatement whose body IS the parallel block) next to `loop n { < a | b > }`, macros whose
              body is a parallel block (`macro m a b < X a | X b >`), subcircuit blocks that occur ONLY nested (in a loop, in a
              top-level block, in a macro body), a macro call as the only statement of the program, prepare … measure inside
              a macro / inside a loop, an unterminated tail `prepare_all ; …` after the last measure_all
  positions   the colliding use of a qubit as the LAST (or FIRST) statement of its branch / of a macro body / in the last
              branch; the parallel block as last statement of its block / of the program; empty `< >`, `{ }`, `loop n { }`,
              `loop n < >`, calls of empty macros BEFORE the block that collides
  state       a case is a HISTORY of 2-4 different programs run in one process: each program is built (text / S-expressions),
              judged through all its entry points, DROPPED (del + gc.collect(), so that id()s are reused), and the first
              program is judged again at the end, parsed afresh.  Rejected programs (early exits) precede accepted ones and
              the other way round.

Expected values come from an independent reference in this script: a small interpreter (`Ref`) of the program AST with LEXICAL
scoping (aliases and the register size are evaluated once, in the global let environment - overridden values when an
override is applied; a name inside a macro body denotes the parameter when the macro has one of that name, else the global).
It is also what the generator uses to keep programs "otherwise valid" (indices in range, no gate given one qubit twice).

entry points        used[:passes]   get_used_qubit_indices(passes(circuit))            passes: any word over M, L, S
                    used_stmt       get_used_qubit_indices(sub-statement)              (busy-free sub-statements of the body)
                    used_ctx        get_used_qubit_indices(macro body | statement of it, context = dict(call.parameters))
                    vp[:passes]     UsedQubitIndicesVisitor with validate_parallel      accept / reject
                    discover[:p]    DiscoverSubcircuits().visit(...)                   accept / reject
                    run / run_ov    run_jaqal_circuit(circuit | fill_in_let(circuit, override))   accept / reject, state vectors
                    outparse        parse_jaqal_output_list(circuit, zeros)            accept / reject
oracles (real code alone; "corr" is empty)
    used_exact_combo    every used* call returns exactly the reference set (empty entries dropped)
    reject_iff_combo    vp / discover / run / outparse raise JaqalError <=> the reference finds a parallel block with two
                        intersecting branches; any other class, a hang, acceptance of a collision or rejection of a
                        collision-free program fails.  (Programs with an unterminated tail are only judged in the direction
                        "collision => JaqalError": whether such a tail is otherwise valid is C12's subject.)
    order_combo         the program with the branches of every parallel block permuted gives the same used set / acceptance /
                        state vectors (exact: Gaussian-dyadic gates)
Not judged: get_used_qubit_indices on a circuit that still contains `subcircuit` blocks and no busy gate (whether the implied
prepare / measure count as "reachable gates" before expand_subcircuits is not fixed by the property text).

CLI:    PYTHONPATH=/verif /venv/bin/python /verif/harness/agents/c13_combo.py [--seed S] [--n N] [--thorough]
Module: harness.agents.c13_combo.run(seed, n, driver, thorough) -> dict ; replay(case, driver) -> dict
        a case is one whole history {"programs": [...]}: replay needs nothing else.
"""
import os, sys, gc, json, random, signal, argparse, warnings

os.environ.setdefault("JAQALPAQ_RUN_EMULATOR", "1")
_ROOT = os.path.dirname(os.path.dirname(os.path.dirname(os.path.abspath(__file__))))
if _ROOT not in sys.path:
    sys.path.insert(0, _ROOT)

DEFAULT_DRIVER = "/verif/lean/.lake/build/bin/jaqal-model"
FLAVOURS = ["shadow", "shape", "position", "shadow", "shape", "mixed"]
RUN_COST_MAX = 400
ORACLES = ["used_exact_combo", "reject_iff_combo", "order_combo"]

_LIB = {}


def lib():
    """Lazy imports (no work at import time)."""
    if _LIB:
        return _LIB
    warnings.filterwarnings("ignore")
    from harness.gates import GATES_IDLE
    from jaqalpaq.parser import parse_jaqal_string
    from jaqalpaq.core import GateDefinition, Parameter, ParamType
    from jaqalpaq.core.circuitbuilder import build
    from jaqalpaq.core.block import BlockStatement, LoopStatement
    from jaqalpaq.core.algorithm import get_used_qubit_indices, expand_macros, fill_in_let, expand_subcircuits
    from jaqalpaq.core.algorithm.used_qubit_visitor import UsedQubitIndicesVisitor
    from jaqalpaq.core.algorithm.walkers import DiscoverSubcircuits
    from jaqalpaq.core.result import parse_jaqal_output_list
    from jaqalpaq.emulator import run_jaqal_circuit
    from jaqalpaq.error import JaqalError

    G = dict(GATES_IDLE)
    G["RG"] = GateDefinition("RG", [Parameter("g", ParamType.REGISTER)])  # a gate with a REGISTER parameter (no unitary)

    class VP(UsedQubitIndicesVisitor):
        validate_parallel = True

    _LIB.update(locals())
    return _LIB


class Hang(Exception):
    pass


def _alarm(*a):
    raise Hang()


def guarded(f):
    """-> ("ok", value) | ("err", class name, message)"""
    L = lib()
    from harness import timeouts as _T
    old = signal.signal(signal.SIGALRM, _alarm)
    signal.alarm(int(_T.limit()))
    try:
        return ("ok", f())
    except Hang:
        _T.saw_hang()
        return ("err", "hang", "")
    except L["JaqalError"] as e:
        return ("err", "JaqalError", str(e)[:300])
    except RecursionError:
        return ("err", "RecursionError", "")
    except Exception as e:
        return ("err", type(e).__name__, str(e)[:300])
    finally:
        signal.alarm(0)
        signal.signal(signal.SIGALRM, old)


# ------------------------------------------------------------------------------------------------
# program representation (JSON lists throughout)
#
# prog  {"lets": [[name, int]…], "reg": [name, size | let name], "lets_after": k (lets[k:] come after the register line),
#        "maps": [[name, src, None | ["idx", i] | ["slice", start, stop, step]]…]   bounds: int | let name | None,
#        "macros": [[name, [params], par_body(bool), [stmts]]…], "body": [stmts], "compact": bool}
# stmt  ["gate", name, [args]] | ["call", macro, [args]] | ["seq", [stmts]] | ["par", [stmts]]
#       | ["loop", count, ["seq" | "par", [stmts]]] | ["sub", count | None, [stmts]]
# arg   ["qi", base, idx]   base[idx]: base a register / alias / register parameter, idx int | name
#       ["nm", name]        a bare name: qubit alias, whole register / alias, let constant, any parameter
#       ["num", number]
# count int | name

ONE = ["X", "Y", "Z", "S", "SX"]
TWO = ["CX", "CZ", "SWAP", "ISWAP", "HH", "NS"]
BUSY = ("prepare_all", "measure_all")


class Invalid(Exception):
    """the reference interpreter met something that makes the program NOT otherwise valid"""


def gate_positions(name, nargs):
    if name in BUSY:
        return "all"
    if name.startswith("I_"):
        return []
    if name == "PF":
        return [1]
    if name == "P":
        return [0]
    return list(range(nargs))


class Ref:
    """the reference: lexical evaluation of a program (optionally with overridden let values)"""

    def __init__(self, prog, override=None):
        self.prog = prog
        ov = override or {}
        self.lets = {nm: ov.get(nm, v) for nm, v in prog["lets"]}
        rname, rsize = prog["reg"]
        size = self.gval(rsize)
        if not isinstance(size, int) or size < 1:
            raise Invalid("register size")
        self.rname, self.size = rname, size
        self.regs = {rname: [(rname, i) for i in range(size)]}
        self.qals = {}
        # the builder replaces an OMITTED stop by the size the source has with the DECLARED let values; when an override
        # changes that size, what `src[a:]` should mean is not C13's subject: such overrides are not used
        frozen = {nm: len(l) for nm, l in Ref(prog).regs.items()} if ov else None
        for nm, src, spec in prog["maps"]:
            if frozen is not None and spec is not None and spec[0] == "slice" and spec[2] is None \
                    and src in self.regs and frozen[src] != len(self.regs[src]):
                raise Invalid("omitted stop under an override that resizes the source")
            if src not in self.regs:
                raise Invalid("map source")
            l = self.regs[src]
            if spec is None:
                self.regs[nm] = l
            elif spec[0] == "idx":
                i = self.gval(spec[1])
                if not isinstance(i, int) or not 0 <= i < len(l):
                    raise Invalid("qubit alias index")
                self.qals[nm] = l[i]
            else:
                st, sp, se = (self.gval(x) for x in spec[1:])
                st = 0 if st is None else st
                sp = len(l) if sp is None else sp
                se = 1 if se is None else se
                if not all(isinstance(x, int) for x in (st, sp, se)) or se == 0 or st < 0 or sp > len(l) or sp < 0:
                    raise Invalid("slice")
                r = range(st, sp, se)
                if len(r) and (r[0] >= len(l) or r[-1] < 0):
                    raise Invalid("slice range")
                self.regs[nm] = [l[i] for i in r]
        self.all = set(self.regs[rname])
        self.macros = {m[0]: m for m in prog["macros"]}

    def gval(self, x):
        """a global bound / size / count: int | let name | None"""
        if isinstance(x, str):
            if x not in self.lets:
                raise Invalid("unknown let " + x)
            return self.lets[x]
        return x

    def number(self, x, env):
        if isinstance(x, str):
            if x in env:
                v = env[x]
                if v[0] != "n":
                    raise Invalid("not a number: " + x)
                return v[1]
            return self.gval(x)
        return x

    def name(self, nm, env):
        if nm in env:
            return env[nm]
        if nm in self.qals:
            return ("q", self.qals[nm])
        if nm in self.regs:
            return ("r", self.regs[nm])
        if nm in self.lets:
            return ("n", self.lets[nm])
        raise Invalid("unknown name " + nm)

    def arg(self, a, env):
        t = a[0]
        if t == "num":
            return ("n", a[1])
        if t == "nm":
            return self.name(a[1], env)
        if t == "qi":
            b = self.name(a[1], env)
            if b[0] != "r":
                raise Invalid("indexing a non-register")
            i = self.number(a[2], env)
            if not isinstance(i, int) or not 0 <= i < len(b[1]):
                raise Invalid("index out of range")
            return ("q", b[1][i])
        raise ValueError(a)

    def used(self, s, env, ev):
        """fundamental qubits some gate reachable from s acts on; events: "P" parallel branches share a qubit, "G" a gate
        given one qubit twice, "B" a busy gate, "S" a subcircuit block"""
        t = s[0]
        if t == "gate":
            pos = gate_positions(s[1], len(s[2]))
            if pos == "all":
                ev.append("B")
                return set(self.all)
            out, seen = set(), set()
            for j, a in enumerate(s[2]):
                v = self.arg(a, env)
                cur = {v[1]} if v[0] == "q" else set(v[1]) if v[0] == "r" else set()
                if seen & cur:
                    ev.append("G")
                seen |= cur
                if j in pos:
                    out |= cur
            return out
        if t == "call":
            m = self.macros[s[1]]
            if len(m[1]) != len(s[2]):
                raise Invalid("argument count")
            env2 = {p: self.arg(a, env) for p, a in zip(m[1], s[2])}
            return self.block("par" if m[2] else "seq", m[3], env2, ev)
        if t in ("seq", "par"):
            return self.block(t, s[1], env, ev)
        if t == "loop":
            c = self.number(s[1], env)
            if not isinstance(c, int) or c < 0:
                raise Invalid("loop count")
            return self.block(s[2][0], s[2][1], env, ev)
        if t == "sub":
            ev.append("S")
            if s[1] is not None:
                c = self.number(s[1], env)
                if not isinstance(c, int) or c < 1:
                    raise Invalid("subcircuit count")
            return self.block("seq", s[2], env, ev)
        raise ValueError(s)

    def block(self, kind, items, env, ev):
        out = set()
        for x in items:
            cur = self.used(x, env, ev)
            if kind == "par" and out & cur:
                ev.append("P")
            out |= cur
        return out

    def cost(self, s, env, mult):
        """gate instances / loop iterations the emulator executes"""
        if mult == 0:
            return 0
        t = s[0]
        if t == "gate":
            return mult
        if t == "call":
            m = self.macros[s[1]]
            env2 = {p: self.arg(a, env) for p, a in zip(m[1], s[2])}
            return sum(self.cost(x, env2, mult) for x in m[3])
        if t in ("seq", "par"):
            return sum(self.cost(x, env, mult) for x in s[1])
        if t == "loop":
            it = mult * self.number(s[1], env)
            return it + sum(self.cost(x, env, it) for x in s[2][1])
        if t == "sub":
            it = mult * (1 if s[1] is None else self.number(s[1], env))
            return it + sum(self.cost(x, env, it) for x in s[2])
        raise ValueError(s)

    def check_static(self):
        """every reference in a macro body that does not depend on a parameter must be valid even if the macro is never called
        (the library checks literal indices when it builds a circuit)"""
        for name, params, parb, body in self.prog["macros"]:
            sh = set(params)
            for s0 in body:
                for s in walk(s0):
                    if s[0] not in ("gate", "call"):
                        continue
                    for a in s[2]:
                        if a[0] == "qi" and a[1] not in sh and not (isinstance(a[2], str) and a[2] in sh):
                            self.arg(a, {})
                        elif a[0] == "nm" and a[1] not in sh:
                            self.name(a[1], {})

    def whole(self):
        """-> (used set, events) of the program body"""
        ev, out = [], set()
        for s in self.prog["body"]:
            out |= self.used(s, {}, ev)
        return out, ev


def as_used(fqs):
    d = {}
    for r, i in fqs:
        d.setdefault(r, set()).add(i)
    return {k: sorted(v) for k, v in d.items()}


# rendering ---------------------------------------------------------------------------------------

def r_arg(a):
    if a[0] == "qi":
        return f"{a[1]}[{a[2]}]"
    return str(a[1])


def is_leaf(s):
    return s[0] in ("gate", "call")


def r_block(kind, items, ind, compact):
    o, c, sep = ("<", ">", "|") if kind == "par" else ("{", "}", ";")
    if not items:
        return f"{o} {c}"
    if compact and all(is_leaf(x) for x in items):
        return f"{o} " + f" {sep} ".join(r_stmt(x, "", compact) for x in items) + f" {c}"
    if kind == "par":
        return "<\n" + ("\n" + ind + "|\n").join(r_stmt(x, ind + "  ", compact) for x in items) + "\n" + ind + ">"
    return "{\n" + "\n".join(r_stmt(x, ind + "  ", compact) for x in items) + "\n" + ind + "}"


def r_stmt(s, ind="", compact=False):
    t = s[0]
    if t in ("gate", "call"):
        return ind + " ".join([s[1]] + [r_arg(a) for a in s[2]])
    if t in ("seq", "par"):
        return ind + r_block(t, s[1], ind, compact)
    if t == "loop":
        return ind + f"loop {s[1]} " + r_block(s[2][0], s[2][1], ind, compact)
    if t == "sub":
        return ind + "subcircuit " + ("" if s[1] is None else f"{s[1]} ") + r_block("seq", s[2], ind, compact)
    raise ValueError(s)


def r_bound(x):
    return "" if x is None else str(x)


def header_lines(prog):
    lets = [f"let {nm} {v}" for nm, v in prog["lets"]]
    k = prog["lets_after"]
    out = lets[:k] + [f"register {prog['reg'][0]}[{prog['reg'][1]}]"] + lets[k:]
    for nm, src, spec in prog["maps"]:
        if spec is None:
            out.append(f"map {nm} {src}")
        elif spec[0] == "idx":
            out.append(f"map {nm} {src}[{spec[1]}]")
        else:
            t = f"{r_bound(spec[1])}:{r_bound(spec[2])}" + ("" if spec[3] is None else f":{spec[3]}")
            out.append(f"map {nm} {src}[{t}]")
    return out


def render(prog, macros=None, body=None):
    macros = prog["macros"] if macros is None else macros
    body = prog["body"] if body is None else body
    cp = prog["compact"]
    out = header_lines(prog)
    for name, params, parb, mb in macros:
        out.append(" ".join(["macro", name] + list(params)) + " " + r_block("par" if parb else "seq", mb, "", cp))
    out += [r_stmt(x, "", cp) for x in body]
    return "\n".join(out) + "\n"


def x_arg(a):
    if a[0] == "qi":
        return ["array_item", a[1], a[2]]
    return a[1]


def x_block(kind, items):
    return ["parallel_block" if kind == "par" else "sequential_block"] + [x_stmt(x) for x in items]


def x_stmt(s):
    t = s[0]
    if t in ("gate", "call"):
        return ["gate", s[1]] + [x_arg(a) for a in s[2]]
    if t in ("seq", "par"):
        return x_block(t, s[1])
    if t == "loop":
        return ["loop", s[1], x_block(s[2][0], s[2][1])]
    if t == "sub":
        return ["subcircuit_block", "" if s[1] is None else s[1]] + [x_stmt(x) for x in s[2]]
    raise ValueError(s)


def sexpr(prog, macros=None, body=None):
    macros = prog["macros"] if macros is None else macros
    body = prog["body"] if body is None else body
    lets = [["let", nm, v] for nm, v in prog["lets"]]
    k = prog["lets_after"]
    out = ["circuit"] + lets[:k] + [["register", prog["reg"][0], prog["reg"][1]]] + lets[k:]
    for nm, src, spec in prog["maps"]:
        if spec is None:
            out.append(["map", nm, src])
        elif spec[0] == "idx":
            out.append(["map", nm, src, spec[1]])
        else:
            out.append(["map", nm, src, spec[1], spec[2], spec[3]])
    for name, params, parb, mb in macros:
        out.append(["macro", name] + list(params) + [x_block("par" if parb else "seq", mb)])
    return out + [x_stmt(x) for x in body]


def permute(s, rng):
    t = s[0]
    if t in ("gate", "call"):
        return s
    if t == "seq":
        return ["seq", [permute(x, rng) for x in s[1]]]
    if t == "sub":
        return ["sub", s[1], [permute(x, rng) for x in s[2]]]
    if t == "loop":
        return ["loop", s[1], permute(s[2], rng)]
    items = [permute(x, rng) for x in s[1]]
    if len(items) == 2:
        items.reverse()
    else:
        rng.shuffle(items)
    return ["par", items]


def children(s):
    t = s[0]
    return s[1] if t in ("seq", "par") else s[2][1] if t == "loop" else s[2] if t == "sub" else None


def addresses(body, prefix=()):
    """(path, statement): indices into block statements; a loop does not consume an index (its body block does)"""
    out = []
    for i, s in enumerate(body):
        out.append((list(prefix) + [i], s))
        ch = children(s)
        if ch is not None:
            out += addresses(ch, tuple(prefix) + (i,))
    return out


def walk(s):
    yield s
    for x in children(s) or []:
        yield from walk(x)


# ------------------------------------------------------------------------------------------------
# generator

REGN = ["q", "r", "w", "d"]
LETN = ["n", "s", "k", "t", "z", "e"]
ALN = ["a", "b", "c", "ev", "x", "y", "g"]
FRESH = ["u", "v", "p0", "p1", "tgt", "ctl"]
MACN = ["m", "f", "h", "mm", "ff", "hh", "gg", "kk"]
KINDS = ["plain", "pm", "sub", "plain", "pm", "sub", "macro_only", "dangling"]


def jkey(x):
    return json.dumps(x, sort_keys=True)


class Gen:
    def __init__(self, rng, flavour, kind, thorough=False):
        self.rng, self.fl, self.kind, self.thorough = rng, flavour, kind, thorough
        self.feat = {}
        self.prog = {"lets": [], "reg": None, "lets_after": 0, "maps": [], "macros": [], "body": [], "compact": rng.random() < 0.4}
        self.mk = {}  # macro name -> kinds
        self.special = set()  # macros that are not to be called by the ordinary call() (sections, whole)
        self.deps = {}
        self.p_shadow = {"shadow": 0.75, "mixed": 0.4}.get(flavour, 0.15)
        self.p_direct = {"shape": 0.65, "mixed": 0.45}.get(flavour, 0.3)
        self.p_last = {"position": 0.7, "mixed": 0.45}.get(flavour, 0.35)
        self.p_empty = {"position": 0.22, "mixed": 0.12}.get(flavour, 0.06)
        self.p_conf = 0.3

    def hit(self, k, n=1):
        self.feat[k] = self.feat.get(k, 0) + n

    def refresh(self):
        self.R = Ref(self.prog)

    # ---- header --------------------------------------------------------------------------------
    def build_header(self):
        rng, fl, P = self.rng, self.fl, self.prog
        self.rname = rng.choice(REGN)
        size = rng.choice([3, 4, 4, 5, 5] + ([6] if self.thorough else []))
        cand = {"n": [0, 1, 1, 2], "s": [1, 2, 2], "k": [1, 2, 3], "t": [2, 3], "z": [0], "e": [size, size - 1]}
        nl = rng.randint(3, 5) if fl in ("shadow", "mixed") else rng.randint(1, 3)
        lets = [[nm, rng.choice(cand[nm])] for nm in rng.sample(LETN, nl)]
        by_let = rng.random() < (0.35 if fl in ("shadow", "mixed") else 0.15)
        if by_let:
            lets.append(["sz", size])
            self.hit("header:register_sized_by_let")
        rng.shuffle(lets)
        P["lets"] = lets
        need = 1 + [l[0] for l in lets].index("sz") if by_let else 0
        P["lets_after"] = rng.randint(need, len(lets))
        P["reg"] = [self.rname, "sz" if by_let else size]
        self.deps[self.rname] = {"sz"} if by_let else set()
        self.refresh()
        names = [a for a in ALN if a != self.rname]
        rng.shuffle(names)
        p_let = 0.75 if fl in ("shadow", "mixed") else 0.3
        for _ in range(rng.randint(2, 4) if fl in ("shadow", "mixed") else rng.randint(0, 3)):
            nm = names.pop()
            srcs = [s for s, l in self.R.regs.items() if len(l) >= 1]
            al = [s for s in srcs if s != self.rname]
            src = rng.choice(al) if al and rng.random() < 0.4 else rng.choice(srcs)
            l = self.R.regs[src]
            k = rng.random()
            used_lets = set()

            def lv(v, p=p_let):
                c = [n_ for n_, x in P["lets"] if x == v]
                if c and rng.random() < p:
                    n_ = rng.choice(c)
                    used_lets.add(n_)
                    return n_
                return v
            if k < 0.1:
                spec = None
                self.hit("header:alias_whole")
            elif k < 0.32 or len(l) < 2:
                spec = ["idx", lv(rng.randrange(len(l)))]
                self.hit("header:qubit_alias")
            elif k < 0.5:
                start = rng.randrange(1, len(l))
                stop = rng.randrange(0, start)
                spec = ["slice", lv(start), lv(stop), lv(rng.choice([-1, -1, -2]))]
                self.hit("header:alias_negative_step")
            else:
                start = rng.choice([0, 1, rng.randrange(len(l))])
                start = min(start, len(l) - 1)
                stop = rng.randint(start + 1, len(l))
                step = rng.choice([1, 1, 2])
                spec = ["slice",
                        None if (start == 0 and rng.random() < 0.3) else lv(start),
                        None if (stop == len(l) and rng.random() < 0.3) else lv(stop),
                        None if (step == 1 and rng.random() < 0.5) else lv(step)]
                self.hit("header:alias_slice" if step == 1 else "header:alias_strided")
            P["maps"].append([nm, src, spec])
            self.deps[nm] = {src} | used_lets | self.deps[src]
            if used_lets:
                self.hit("header:alias_bound_by_let")
            if src != self.rname:
                self.hit("header:alias_of_alias")
            self.refresh()

    def global_names(self):
        P = self.prog
        return [l[0] for l in P["lets"]] + [self.rname] + [m[0] for m in P["maps"]]

    def cat(self, nm):
        if nm in self.R.lets:
            return "let"
        if nm == self.rname:
            return "register"
        if nm in self.R.qals:
            return "qubit_alias"
        if nm in self.R.regs:
            return "alias"
        return None

    def let_name(self, v, shadowed, p):
        c = [nm for nm, x in self.R.lets.items() if x == v and nm not in shadowed]
        if c and self.rng.random() < p:
            return self.rng.choice(c)
        return v

    def ref(self, fq, shadowed=()):
        """render a fundamental qubit through a register / alias / qubit alias whose NAME is not shadowed"""
        rng = self.rng
        sh = set(shadowed)
        cands = []
        for nm, l in self.R.regs.items():
            if nm not in sh and fq in l:
                cands.append((nm, l.index(fq)))
        for nm, q in self.R.qals.items():
            if nm not in sh and q == fq:
                cands.append((nm, None))
        if not cands:
            return None
        pref = [c for c in cands if self.deps.get(c[0], set()) & sh]
        al = [c for c in cands if c[0] != self.rname]
        if pref and rng.random() < 0.75:
            nm, i = rng.choice(pref)
        elif al and rng.random() < 0.55:
            nm, i = rng.choice(al)
        else:
            nm, i = rng.choice(cands)
        if i is None:
            return ["nm", nm]
        return ["qi", nm, self.let_name(i, sh, 0.3)]

    # ---- macros --------------------------------------------------------------------------------
    def pick_param(self, kind, taken):
        rng = self.rng
        if rng.random() < self.p_shadow:
            gn = [g for g in self.global_names() + [m[0] for m in self.prog["macros"]] if g not in taken]
            depended = set().union(*self.deps.values()) if self.deps else set()
            w = [g for g in gn if g in depended]
            if kind == "n":
                w = [g for g in w if g in self.R.lets] * 2 + w
            if w and rng.random() < 0.8:
                return rng.choice(w)
            if gn:
                return rng.choice(gn)
        c = [f for f in FRESH if f not in taken]
        return rng.choice(c)

    def macro_body(self, params, kinds, earlier, nmin=1, nmax=4):
        """random statements over the parameters and over fixed global qubits (names shadowed by params are avoided)"""
        rng = self.rng
        sh = set(params)
        qps = [p for p, k in zip(params, kinds) if k == "q"]
        nps = [p for p, k in zip(params, kinds) if k == "n"]
        rps = [p for p, k in zip(params, kinds) if k == "r"]
        gregs = [nm for nm, l in self.R.regs.items() if nm not in sh and len(l) >= 2]
        allq = sorted(self.R.all)

        def atom():
            opts = []
            for p in qps:
                opts += [["nm", p]] * 3
            for p in nps:
                if gregs:
                    pref = [g for g in gregs if self.deps.get(g, set()) & sh]
                    opts += [["qi", rng.choice(pref) if pref and rng.random() < 0.7 else rng.choice(gregs), p]] * 3
            for p in rps:
                idx = rng.choice([0, 0, 1] + nps)
                opts += [["qi", p, idx]] * 2
            fx = self.ref(rng.choice(allq), sh)
            if fx is not None:
                opts += [fx] * 3
            return rng.choice(opts) if opts else None

        def distinct(k):
            out, seen = [], set()
            for _ in range(12):
                a = atom()
                if a is not None and jkey(a) not in seen:
                    seen.add(jkey(a))
                    out.append(a)
                if len(out) == k:
                    break
            return out

        def g1(a):
            return ["gate", rng.choice(ONE), [a]]

        def count():
            c = [rng.choice([1, 2, 2, 3])] + nps * 3 + [nm for nm, v in self.R.lets.items() if nm not in sh and 0 <= v <= 3]
            return rng.choice(c)

        body = []
        if rng.random() < self.p_last * 0.5:
            at = distinct(2)
            if len(at) == 2:
                # the second atom is touched by the LAST (or FIRST) statement only
                body = [g1(at[0]), g1(at[0]), g1(at[1])]
                if rng.random() < 0.3:
                    body.reverse()
                self.hit("macro:one_atom_only_in_first_or_last_statement")
                return body
        for _ in range(rng.randint(nmin, nmax)):
            k = rng.random()
            a = atom()
            if a is None:
                continue
            if k < 0.42:
                body.append(g1(a))
            elif k < 0.50:
                at = distinct(2)
                if len(at) == 2:
                    body.append(["gate", rng.choice(TWO), at])
            elif k < 0.58:
                cl = rng.choice([["nm", p] for p in nps] * 3 + [["num", rng.choice([0, 1, 2, 3])]]
                                + [["nm", nm] for nm in self.R.lets if nm not in sh])
                body.append(["gate", "P", [a, cl]])
                self.hit("macro:classical_argument")
            elif k < 0.73:
                at = distinct(rng.choice([2, 2, 3]))
                if len(at) >= 2:
                    body.append(["par", [g1(x) for x in at]])
                    self.hit("macro:parallel_block_in_body")
            elif k < 0.88:
                c = count()
                at = distinct(2)
                if len(at) == 2 and rng.random() < self.p_direct:
                    body.append(["loop", c, ["par", [g1(x) for x in at]]])
                    self.hit("macro:loop_with_direct_parallel_body")
                else:
                    body.append(["loop", c, ["seq", [g1(x) for x in at[: rng.choice([1, 2])]] or [g1(a)]]])
                if isinstance(c, str):
                    self.hit("macro:loop_count_is_" + ("parameter" if c in sh else "let"))
            elif earlier:
                cm = rng.choice(earlier)
                args, ok = [], True
                for kd in self.mk[cm]:
                    if kd == "q":
                        x = atom()
                        ok = ok and x is not None
                        args.append(x)
                    elif kd == "n":
                        args.append(["nm", rng.choice(nps)] if nps and rng.random() < 0.7 else ["num", rng.choice([0, 1, 2])])
                    else:
                        c = [["nm", p] for p in rps] * 2 + [["nm", g] for g in gregs]
                        ok = ok and bool(c)
                        args.append(rng.choice(c) if c else None)
                if ok:
                    body.append(["call", cm, args])
                    self.hit("macro:calls_macro")
                    callee = next(m for m in self.prog["macros"] if m[0] == cm)
                    if set(callee[1]) & sh:
                        self.hit("macro:caller_and_callee_share_parameter_names")
            else:
                body.append(g1(a))
        return body

    def build_macros(self):
        rng, P = self.rng, self.prog
        names = [m for m in MACN if m not in self.global_names()]
        rng.shuffle(names)
        nm_ = rng.randint(2, 4) if self.fl in ("shadow", "mixed") else rng.randint(1, 3)
        for _ in range(nm_):
            name = names.pop()
            nk = rng.choice([1, 1, 2, 2, 2, 3])
            kinds = [rng.choice("qqqqnnnr") for _ in range(nk)]
            if self.fl in ("shadow", "mixed") and "n" not in kinds and rng.random() < 0.6:
                kinds[rng.randrange(nk)] = "n"
            params = []
            for kd in kinds:
                params.append(self.pick_param(kd, params + [name]))
            earlier = [m[0] for m in P["macros"] if m[0] not in self.special]
            twin = None
            cands = [m for m in P["macros"] if m[0] not in self.special and len(m[1]) >= 2 and m[3]]
            if cands and rng.random() < 0.35:
                # the SAME parameter names as an earlier macro, in another order, handed on crosswise
                twin = rng.choice(cands)
                pairs = list(zip(twin[1], self.mk[twin[0]]))
                rng.shuffle(pairs)
                params, kinds = [p for p, _ in pairs], [k for _, k in pairs]
            if rng.random() < self.p_empty and twin is None:
                body = []
                self.hit("macro:empty_body")
            else:
                body = self.macro_body(params, kinds, earlier)
            if twin is not None:
                args = []
                for kd in self.mk[twin[0]]:
                    args.append(["nm", rng.choice([p for p, k in zip(params, kinds) if k == kd])])
                body.insert(rng.randint(0, len(body)), ["call", twin[0], args])
                self.hit("macro:same_parameter_names_as_callee_forwarded_crosswise"
                         if [a[1] for a in args] != list(twin[1]) else "macro:same_parameter_names_as_callee_forwarded_straight")
            simple = all(s[0] == "gate" and len(s[2]) == 1 for s in body) and len({jkey(s[2]) for s in body}) == len(body)
            parb = bool(simple and rng.random() < (0.5 if self.fl in ("shape", "mixed") else 0.25))
            if parb:
                self.hit("macro:body_is_a_parallel_block")
            P["macros"].append([name, params, parb, body])
            self.mk[name] = "".join(kinds)
            self.note_shadow(name, params, body)
        self.refresh()

    def names_in(self, body, sh):
        out = set()
        for s0 in body:
            for s in walk(s0):
                if s[0] in ("gate", "call"):
                    for a in s[2]:
                        for x in a[1:]:
                            if isinstance(x, str) and x not in sh:
                                out.add(x)
                elif s[0] == "loop" and isinstance(s[1], str) and s[1] not in sh:
                    out.add(s[1])
        return out

    def note_shadow(self, name, params, body):
        sh = set(params)
        refs = self.names_in(body, sh)
        through = set()
        for r in refs:
            through |= self.deps.get(r, set())
        for p in params:
            c = self.cat(p)
            if c is None:
                if p in [m[0] for m in self.prog["macros"]]:
                    self.hit("shadow:parameter_named_like_a_macro")
                continue
            self.hit("shadow:parameter_named_like_" + c)
            if p in through:
                self.hit(f"shadow:parameter_named_like_{c}_that_the_body_uses_through_an_alias_or_the_register_size")

    # ---- statements of the main body -----------------------------------------------------------
    def foot(self, st):
        ev = []
        try:
            return self.R.used(st, {}, ev), ev
        except Invalid:
            return None

    def callable(self):
        return [m for m in self.prog["macros"] if m[0] not in self.special]

    def call(self, pool, must=None, want_p=False, only=None, allow=()):
        rng = self.rng
        pool = list(dict.fromkeys(pool))
        ms = [m for m in (self.callable() if only is None else only)]
        rng.shuffle(ms)
        for m in ms[:4]:
            kinds = self.mk[m[0]]
            if must is not None and not any(k in "qnr" for k in kinds) and not m[3]:
                continue
            for attempt in range(6):
                args = []
                same = rng.choice(pool) if want_p else None
                for j, kd in enumerate(kinds):
                    if kd == "q":
                        fq = same if same is not None else must if (must is not None and rng.random() < 0.5) else rng.choice(pool)
                        args.append(self.ref(fq))
                    elif kd == "n":
                        v = rng.randrange(0, self.R.size)
                        nm = self.let_name(v, (), 0.4)
                        args.append(["nm", nm] if isinstance(nm, str) else ["num", v])
                    else:
                        args.append(["nm", rng.choice(list(self.R.regs))])
                st = ["call", m[0], args]
                f = self.foot(st)
                if f is None:
                    continue
                u, ev = f
                if "G" in ev or (("B" in ev or "S" in ev) and not allow):
                    continue
                if ("P" in ev) != bool(want_p):
                    continue
                if not u <= set(pool) and "B" not in ev:
                    continue
                if must is not None and must not in u:
                    continue
                self.hit("call:" + ("with_internal_collision" if want_p else "ordinary"))
                return st
        return None

    def gate(self, pool, must=None):
        rng = self.rng
        pool = list(dict.fromkeys(pool))
        others = [q for q in pool if q != must]
        rng.shuffle(others)

        def pick(m):
            qs = ([must] + others[: m - 1]) if must is not None else rng.sample(pool, m)
            rng.shuffle(qs)
            return [self.ref(q) for q in qs]
        k = rng.random()
        if k < 0.07 and must is None:
            self.hit("gate:idle")
            return ["gate", "I_" + rng.choice(ONE), pick(1)]
        if k < 0.13:
            c = [nm for nm, l in self.R.regs.items() if l and set(l) <= set(pool) and (must is None or must in l)]
            if c:
                self.hit("gate:register_argument")
                return ["gate", "RG", [["nm", rng.choice(c)]]]
        if k < 0.25:
            v = rng.choice([0, 1, 2, 3])
            nm = self.let_name(v, (), 0.5)
            cl = ["nm", nm] if isinstance(nm, str) else ["num", v]
            self.hit("gate:classical_argument")
            return ["gate", "P", pick(1) + [cl]] if rng.random() < 0.6 else ["gate", "PF", [cl] + pick(1)]
        if k < 0.75 or len(pool) < 2:
            return ["gate", rng.choice(ONE), pick(1)]
        return ["gate", rng.choice(TWO), pick(2)]

    def leaf(self, pool, must=None):
        if self.callable() and self.rng.random() < 0.5:
            c = self.call(pool, must)
            if c is not None:
                return c
        return self.gate(pool, must)

    def empty(self, ctx):
        rng = self.rng
        forms = ["par", "loop_seq", "loop_par"] + (["seq"] if ctx == "top" else [])
        em = [m for m in self.callable() if not m[3] and "r" not in self.mk[m[0]]]
        if em:
            forms += ["macro"] * 2
        f = rng.choice(forms)
        self.hit("empty:" + f)
        if f == "par":
            return ["par", []]
        if f == "seq":
            return ["seq", []]
        if f == "loop_seq":
            return ["loop", rng.choice([1, 2, 3]), ["seq", []]]
        if f == "loop_par":
            return ["loop", rng.choice([1, 2, 3]), ["par", []]]
        m = rng.choice(em)
        allq = sorted(self.R.all)
        return ["call", m[0], [self.ref(rng.choice(allq)) if k == "q" else ["num", 0] for k in self.mk[m[0]]]]

    def loop(self, pool, depth, pc):
        rng = self.rng
        v = rng.choice([1, 2, 2, 3])
        c = self.let_name(v, (), 0.3)
        if len(set(pool)) >= 2 and rng.random() < self.p_direct:
            self.hit("shape:loop_whose_body_is_a_parallel_block")
            return ["loop", c, self.par(pool, depth + 1, pc, tag="direct_loop_body")]
        if len(set(pool)) >= 2 and rng.random() < 0.5:
            self.hit("shape:loop_with_braces_around_a_parallel_block")
            items = [self.par(pool, depth + 1, pc, tag="braced_loop_body")]
            if rng.random() < 0.4:
                items.insert(rng.choice([0, 1]), self.leaf(pool))
            return ["loop", c, ["seq", items]]
        return ["loop", c, ["seq", self.stmts(pool, depth + 1, 1, 2, "block", 0.1)]]

    def stmts(self, pool, depth, lo, hi, ctx, pc):
        """statements of a sequential context over pool"""
        rng = self.rng
        items = []
        for _ in range(rng.randint(lo, hi)):
            k = rng.random()
            if k < self.p_empty:
                items.append(self.empty(ctx))
            elif k < 0.5 or depth >= 3 or not pool:
                if pool:
                    items.append(self.leaf(pool))
            elif k < 0.72:
                items.append(self.loop(pool, depth, pc))
            elif len(set(pool)) >= 2:
                items.append(self.par(pool, depth + 1, pc))
            else:
                items.append(self.leaf(pool))
        return items

    def use(self, v, own):
        """a statement that uses v (and otherwise only qubits of own)"""
        rng = self.rng
        if self.callable() and rng.random() < 0.5:
            c = self.call(list(own) + [v], must=v)
            if c is not None:
                return c
        o = [q for q in own if q != v]
        return self.gate([v] + (o[:1] if o and rng.random() < 0.25 else []), must=v)

    def branch(self, pl, depth, must=None, extra=None):
        """one branch of a parallel block over pl; must: a qubit of pl it has to use; extra: a qubit of ANOTHER branch it uses"""
        rng = self.rng
        if extra is None and must is None:
            if not pl or rng.random() < self.p_empty:
                self.hit("par:empty_branch")
                return ["seq", []]
            if rng.random() < 0.45:
                return self.leaf(pl)
            return ["seq", self.stmts(pl, depth + 1, 1, 3, "block", 0.08)]
        v = extra if extra is not None else must
        u = self.use(v, pl)
        if rng.random() < 0.3:
            return u
        its = self.stmts(pl, depth + 1, 0, 2, "block", 0.05) if pl else []
        r = rng.random()
        if r < self.p_last:
            its.append(u)
            self.hit("position:colliding_use_is_last_statement_of_its_branch")
        elif r < self.p_last + 0.2:
            its.insert(0, u)
            self.hit("position:colliding_use_is_first_statement_of_its_branch")
        else:
            its.insert(rng.randint(0, len(its)), u)
        return ["seq", its]

    def par(self, pool, depth, pc, tag=None):
        rng = self.rng
        fq = list(dict.fromkeys(pool))
        rng.shuffle(fq)
        nb = rng.choice([2, 2, 2, 3, 3, 4])
        pools = [fq[b::nb] for b in range(nb)]
        rng.shuffle(pools)
        plant = None
        nonempty = [b for b in range(nb) if pools[b]]
        if nonempty and rng.random() < pc:
            j = rng.choice(nonempty)
            r = rng.random()
            if r < self.p_last * 0.6:
                i, j2 = nb - 1, j
                if j2 == i:
                    j2 = rng.choice([b for b in range(nb) if b != i])
                    if not pools[j2]:
                        pools[j2] = [rng.choice(fq)]
                i, j = i, j2
            else:
                i = rng.choice([b for b in range(nb) if b != j])
            plant = (i, j, rng.choice(pools[j]))
            self.hit("collision:planted")
            self.hit(f"collision:branches_{min(i, j)}_{max(i, j)}_of_{nb}")
            if tag:
                self.hit("collision:planted_in_" + tag)
        items = []
        for b in range(nb):
            if plant and b == plant[0]:
                items.append(self.branch(pools[b], depth, extra=plant[2]))
            elif plant and b == plant[1]:
                items.append(self.branch(pools[b], depth, must=plant[2]))
            else:
                items.append(self.branch(pools[b], depth))
        self.hit(f"par:branches_{nb}")
        return ["par", items]

    def section(self, ctx="block"):
        """the statements between prepare and measure (or of a subcircuit block)"""
        rng = self.rng
        U = sorted(self.R.all)
        items = self.stmts(U, 0, 0, 2, ctx, self.p_conf * 0.5)
        r = rng.random()
        if r < 0.5:
            main = self.par(U, 1, self.p_conf)
        elif r < 0.85:
            main = self.loop(U, 0, self.p_conf)
        elif self.callable() and len(U) >= 2:
            main = self.call(U, want_p=True) or self.par(U, 1, self.p_conf)
        else:
            main = self.par(U, 1, self.p_conf)
        if rng.random() < self.p_last:
            items.append(main)
            self.hit("position:parallel_statement_is_last_of_its_block")
        else:
            items.insert(rng.randint(0, len(items)), main)
        if rng.random() < self.p_empty * 2:
            k = next(i for i, s in enumerate(items) if s is main)
            items.insert(rng.choice([0, k]), self.empty(ctx))
            self.hit("position:empty_statement_before_the_parallel_statement")
        return items

    def section_macro(self, busy):
        """a macro whose body is a whole section: prepare … measure, or a subcircuit block, over its parameters"""
        rng, P = self.rng, self.prog
        name = rng.choice([n for n in ["sec", "blk", "whole"] if n not in self.global_names() and n not in self.mk])
        kinds = rng.choice(["qq", "qq", "qn", "q", "qqn"])
        params = []
        for kd in kinds:
            params.append(self.pick_param(kd, params + [name]))
        earlier = [m[0] for m in P["macros"] if m[0] not in self.special]
        inner = self.macro_body(params, kinds, earlier, 2, 4)
        if busy == "pm":
            body = [["gate", "prepare_all", []]] + inner + [["gate", "measure_all", []]]
        elif busy == "sub":
            body = [["sub", None, inner]]
        else:
            body = inner
        P["macros"].append([name, params, False, body])
        self.mk[name] = kinds
        self.special.add(name)
        self.note_shadow(name, params, body)
        self.refresh()
        U = sorted(self.R.all)
        m = P["macros"][-1]
        st = None
        if rng.random() < self.p_conf:
            st = self.call(U, want_p=True, only=[m], allow=("B", "S"))
        if st is None:
            st = self.call(U, only=[m], allow=("B", "S"))
        if st is None:
            P["macros"].pop()
            del self.mk[name]
            self.special.discard(name)
            self.refresh()
        return st

    def build(self):
        rng, P, kind = self.rng, self.prog, self.kind
        self.build_header()
        self.build_macros()
        U = sorted(self.R.all)
        pm = lambda items: [["gate", "prepare_all", []]] + items + [["gate", "measure_all", []]]
        body = []
        self.simple_sections = True
        if kind == "plain":
            body = self.stmts(U, 0, 0, 2, "top", self.p_conf * 0.5) + self.section("top")
            if rng.random() < 0.5:
                rng.shuffle(body)
        elif kind == "macro_only":
            st = self.section_macro(rng.choice(["pm", "sub", "none", "pm"]))
            if st is None:
                body = self.section("top")
            else:
                body = [st]
                self.simple_sections = False
                self.hit("shape:macro_call_is_the_only_statement")
        elif kind in ("pm", "dangling"):
            for _ in range(rng.choice([1, 1, 2])):
                if rng.random() < self.p_empty * 2:
                    body.append(self.empty("top"))
                r = rng.random()
                if r < 0.6:
                    body += pm(self.section())
                elif r < 0.8:
                    body.append(["loop", rng.choice([1, 2, 2]), ["seq", pm(self.section())]])
                    self.simple_sections = False
                    self.hit("shape:prepare_measure_inside_a_loop")
                else:
                    st = self.section_macro("pm")
                    if st is None:
                        body += pm(self.section())
                    else:
                        body.append(st)
                        self.simple_sections = False
                        self.hit("shape:prepare_measure_inside_a_macro")
            if kind == "dangling":
                body += [["gate", "prepare_all", []]] + self.section()
                self.hit("shape:unterminated_tail")
        elif kind == "sub":
            nested_only = True
            for _ in range(rng.choice([1, 1, 2])):
                if rng.random() < self.p_empty * 2:
                    body.append(self.empty("top"))
                cnt = rng.choice([None, None, 1, 2])
                r = rng.random()
                if r < 0.25:
                    body.append(["sub", cnt, self.section()])
                    nested_only = False
                    self.simple_sections = self.simple_sections and cnt is None
                elif r < 0.5:
                    body.append(["loop", rng.choice([1, 2, 2]), ["seq", [["sub", cnt, self.section()]]]])
                    self.simple_sections = False
                    self.hit("shape:subcircuit_inside_a_loop")
                elif r < 0.75:
                    inner = [["sub", cnt, self.section()]]
                    if rng.random() < 0.3:
                        inner.append(["sub", None, self.section()])
                    body.append(["seq", inner])
                    self.simple_sections = False
                    self.hit("shape:subcircuit_inside_a_top_level_block")
                else:
                    st = self.section_macro("sub")
                    if st is None:
                        body.append(["sub", cnt, self.section()])
                        nested_only = False
                    else:
                        body.append(st)
                        self.simple_sections = False
                        self.hit("shape:subcircuit_inside_a_macro")
            if nested_only:
                self.hit("shape:subcircuits_occur_only_nested")
        P["body"] = body
        self.refresh()
        return self


# ------------------------------------------------------------------------------------------------
# programs, expectations, plans

WORDS = ["", "M", "L", "S", "ML", "LM", "MS", "SM", "LS", "SL", "MLS", "MSL", "LMS", "LSM", "SML", "SLM"]


def named_count(prog):
    def w(items):
        for s0 in items:
            for s in walk(s0):
                if s[0] in ("loop", "sub") and isinstance(s[1], str):
                    return True
        return False
    return w(prog["body"]) or any(w(m[3]) for m in prog["macros"])


def raw_discover_ok(prog, special):
    """DiscoverSubcircuits on the UNEXPANDED circuit is only meaningful when no loop count is a name, there is no subcircuit
    block, and every macro call sits between a literal prepare_all and measure_all"""
    if named_count(prog):
        return False
    state = {"open": False, "ok": True}

    def scan(items):
        for s in items:
            t = s[0]
            if t == "gate":
                if s[1] == "prepare_all":
                    state["open"] = True
                elif s[1] == "measure_all":
                    state["open"] = False
            elif t == "call":
                if s[1] in special or not state["open"]:
                    state["ok"] = False
            elif t == "sub":
                state["ok"] = False
            else:
                scan(children(s))
    scan(prog["body"])
    return state["ok"]


def expectation(prog, override=None):
    R = Ref(prog, override)
    R.check_static()
    u, ev = R.whole()
    if "G" in ev:
        raise Invalid("gate with a repeated qubit")
    c = sum(R.cost(s, {}, 1) for s in prog["body"])
    return R, {"used": as_used(u), "all": as_used(R.all), "conflict": "P" in ev, "cost": c}, ev


def make_program(rng, flavour, kind, thorough=False):
    for attempt in range(60):
        g = Gen(random.Random(rng.random()), flavour, kind, thorough).build()
        try:
            R, base, ev = expectation(g.prog)
        except Invalid:
            continue
        break
    else:
        raise RuntimeError("generator: no valid program in 60 attempts")
    prog = g.prog
    busy, has_sub = "B" in ev, "S" in ev
    # an override_dict for fill_in_let: names that macro parameters shadow / that alias bounds use come first
    ov, ovexp = None, None
    params = {p for m in prog["macros"] for p in m[1]}
    depended = set().union(*g.deps.values()) if g.deps else set()
    lets = [l[0] for l in prog["lets"]]
    if lets and rng.random() < (0.6 if flavour in ("shadow", "mixed") else 0.3):
        for _ in range(8):
            hot = [l for l in lets if l in params] * 3 + [l for l in lets if l in depended] * 2 + lets
            names = set(rng.sample(hot, min(len(hot), rng.choice([1, 1, 2]))))
            cand = {nm: rng.choice([v for v in [0, 1, 2, 3, R.size] if v != R.lets[nm]]) for nm in names}
            if rng.random() < 0.2:
                cand["unused_name"] = 7  # an entry that names no let
            try:
                R2, e2, ev2 = expectation(prog, cand)
            except Invalid:
                continue
            ov, ovexp = cand, e2
            g.hit("override:given")
            if names & params:
                g.hit("override:of_a_name_that_a_macro_parameter_shadows")
            if names & depended:
                g.hit("override:of_a_let_used_by_an_alias_bound_or_the_register_size")
            if e2["used"] != base["used"] or e2["conflict"] != base["conflict"]:
                g.hit("override:changes_used_set_or_collision")
            break
    # sub-statements and macro bodies in the context of a call
    stmts, ctxs = [], []
    for path, s in addresses(prog["body"]):
        e = []
        try:
            u = R.used(s, {}, e)
        except Invalid:
            continue
        if "B" in e or "S" in e:
            continue
        pri = 0 if (s[0] == "loop" and s[2][0] == "par") else 1 if s[0] in ("par", "call") else 2
        stmts.append({"path": path, "used": as_used(u), "kind": s[0], "pri": pri})
        if s[0] == "call":
            m = R.macros[s[1]]
            env2 = {p: R.arg(a, {}) for p, a in zip(m[1], s[2])}
            for k in [-1] + list(range(len(m[3]))):
                e3 = []
                u3 = R.block("par" if m[2] else "seq", m[3], env2, e3) if k < 0 else R.used(m[3][k], env2, e3)
                ctxs.append({"path": path, "k": k, "used": as_used(u3), "macro": s[1]})
    rng.shuffle(stmts)
    stmts.sort(key=lambda d: d["pri"])
    rng.shuffle(ctxs)
    prng = random.Random(rng.random())
    pm = [[n, ps, pb, permute(["par" if pb else "seq", b], prng)[1]] for (n, ps, pb, b) in prog["macros"]]
    pbody = [permute(x, prng) for x in prog["body"]]
    dangling = kind == "dangling"
    sections = sum(1 for s in prog["body"] if s[0] == "sub" or (s[0] == "gate" and s[1] == "measure_all"))
    P = {
        "flavour": flavour, "kind": kind, "reg": R.rname, "size": R.size,
        "text": render(prog), "perm_text": render(prog, pm, pbody),
        "sexpr": sexpr(prog), "perm_sexpr": sexpr(prog, pm, pbody),
        "override": ov, "exp": {"base": base, "ov": ovexp},
        "busy": busy, "has_sub": has_sub, "dangling": dangling, "emulable": bool(busy or has_sub),
        "raw_discover": bool(busy and raw_discover_ok(prog, g.special)),
        "readouts": sections if (g.simple_sections and not dangling and (busy or has_sub)) else None,
        "stmts": stmts[: (7 if thorough else 4)], "ctxs": ctxs[: (5 if thorough else 3)],
    }
    P["ops"] = plan(rng, P, thorough)
    g.hit("prog:collision" if base["conflict"] else "prog:no_collision")
    g.hit("prog:kind:" + kind)
    return P, g.feat


def usable(P, w):
    """get_used_qubit_indices of the whole circuit is judged after the passes w"""
    return P["busy"] or not P["has_sub"] or "S" in w


def plan(rng, P, thorough):
    b = rng.choice(["text", "sexpr"])
    o = "sexpr" if b == "text" else "text"
    ops = []

    def add(op, built=b, perm=False, passes="", ov=False, k=None):
        ops.append({"op": op, "built": built, "perm": perm, "passes": passes, "ov": bool(ov), "k": k})
    has_ov = P["override"] is not None
    words = [w for w in WORDS if usable(P, w)]
    chosen = ([""] if "" in words else []) + rng.sample([w for w in words if w], min(len(words) - ("" in words), 5 if thorough else 3))
    if has_ov and not any("L" in w for w in chosen):
        chosen.append(rng.choice([w for w in words if "L" in w]))
    for j, w in enumerate(chosen):
        add("used", built=(b if j % 2 == 0 else o), passes=w, ov=(has_ov and "L" in w and rng.random() < 0.7))
    if usable(P, "M") and rng.random() < 0.5:
        add("used", built="text+M")
    if usable(P, "L") and rng.random() < 0.5:
        add("used", built="text+L")
    for k in range(len(P["stmts"])):
        add("used_stmt", built=(b if k % 2 == 0 else o), k=k)
    for k in range(len(P["ctxs"])):
        add("used_ctx", built=(o if k % 2 == 0 else b), k=k)
    add("vp")
    w = rng.choice(WORDS[1:])
    add("vp", built=o, passes=w, ov=(has_ov and "L" in w and rng.random() < 0.5))
    if P["emulable"] and P["exp"]["base"]["cost"] <= RUN_COST_MAX:
        full = [w for w in WORDS if "L" in w and "M" in w and ("S" in w or not P["has_sub"])]
        w = rng.choice(full)
        add("discover", built=o, passes=w, ov=(has_ov and rng.random() < 0.4))
        if P["raw_discover"]:
            add("discover")
        add("run")
        if rng.random() < 0.5:
            add("run", built=o)
        if rng.random() < 0.3:
            add("run", built=rng.choice(["text+M", "text+L"]))
        if has_ov and P["exp"]["ov"]["cost"] <= RUN_COST_MAX:
            add("run", built=o, passes="L", ov=True)
        if P["readouts"] is not None:
            add("outparse")
    if P["perm_text"] != P["text"]:
        w = rng.choice(words)
        add("used", perm=True, passes=w)
        add("vp", built=o, perm=True)
        if P["emulable"] and P["exp"]["base"]["cost"] <= RUN_COST_MAX:
            add("run", perm=True)
    return ops


def make_case(seed, idx, thorough=False):
    rng = random.Random(f"c13combo:{seed}:{idx}:{int(bool(thorough))}")
    flavour = FLAVOURS[idx % len(FLAVOURS)]
    nprog = rng.choice([2, 2, 3]) + (1 if thorough and rng.random() < 0.4 else 0)
    progs, feats = [], {}
    for i in range(nprog):
        kind = KINDS[(idx + i * 3 + rng.randrange(2)) % len(KINDS)]
        P, f = make_program(rng, flavour, kind, thorough)
        progs.append(P)
        for k, v in f.items():
            feats[k] = feats.get(k, 0) + v
    return {"id": idx, "seed": seed, "thorough": bool(thorough), "flavour": flavour, "programs": progs,
            "again": min(6, len(progs[0]["ops"]))}, feats


# real code ---------------------------------------------------------------------------------------

def tup(x):
    return tuple(tup(y) for y in x) if isinstance(x, list) else x


def make_circuit(P, built, perm):
    L = lib()
    if built == "sexpr":
        return L["build"](tup(P["perm_sexpr" if perm else "sexpr"]), inject_pulses=L["G"])
    kw = {"text+M": {"expand_macro": True}, "text+L": {"expand_let": True}}.get(built, {})
    return L["parse_jaqal_string"](P["perm_text" if perm else "text"], inject_pulses=L["G"], autoload_pulses=False, **kw)


def navigate(c, path):
    L = lib()
    s = c.body
    for i in path:
        while isinstance(s, L["LoopStatement"]):
            s = s.statements
        s = s.statements[i]
    return s


def norm_used(d):
    return {k: sorted(int(x) for x in v) for k, v in d.items() if len(v)}


def apply_passes(c, w, ov):
    L = lib()
    for ch in w:
        if ch == "M":
            c = L["expand_macros"](c)
        elif ch == "L":
            c = L["fill_in_let"](c, dict(ov)) if ov else L["fill_in_let"](c)
        elif ch == "S":
            c = L["expand_subcircuits"](c)
    return c


def do_call(c, op, P):
    L = lib()
    o = op["op"]
    ov = P["override"] if op["ov"] else None
    w = op["passes"]
    if o == "used":
        f = lambda: norm_used(L["get_used_qubit_indices"](apply_passes(c, w, ov)))
    elif o == "used_stmt":
        f = lambda: norm_used(L["get_used_qubit_indices"](navigate(c, P["stmts"][op["k"]]["path"])))
    elif o == "used_ctx":
        cx = P["ctxs"][op["k"]]

        def f():
            cs = navigate(c, cx["path"])
            body = cs.gate_def.body
            target = body if cx["k"] < 0 else body.statements[cx["k"]]
            return norm_used(L["get_used_qubit_indices"](target, context=dict(cs.parameters)))
    elif o == "vp":
        def f():
            L["VP"]().visit(apply_passes(c, w, ov))
            return "accepted"
    elif o == "discover":
        def f():
            L["DiscoverSubcircuits"]().visit(apply_passes(c, w, ov))
            return "accepted"
    elif o == "run":
        def f():
            res = L["run_jaqal_circuit"](apply_passes(c, w, ov))
            return {"accepted": True, "sv": [[[float(complex(z).real), float(complex(z).imag)] for z in sc.state_vector]
                                            for sc in res.subcircuits]}
    elif o == "outparse":
        def f():
            L["parse_jaqal_output_list"](c, [0] * P["readouts"])
            return "accepted"
    else:
        raise ValueError(o)
    r = guarded(f)
    if r[0] == "ok":
        return {"ok": r[1]}
    return {"err": r[1], "msg": r[2]}


def brief(out):
    if "ok" in out and isinstance(out["ok"], dict) and "sv" in out["ok"]:
        return {"ok": {"accepted": True, "subcircuits": len(out["ok"]["sv"])}}
    return out


def tag_of(op):
    b = {"sexpr": "built from S-expressions", "text": "parsed from text", "text+M": "parsed with expand_macro=True",
         "text+L": "parsed with expand_let=True"}[op["built"]]
    names = {"M": "expand_macros", "L": "fill_in_let", "S": "expand_subcircuits"}
    p = (" after " + " -> ".join(names[ch] for ch in op["passes"])) if op["passes"] else ""
    return f"{op['op']}{p} on the circuit {b}{' (branches permuted)' if op['perm'] else ''}"


def judge(P, op, out, where):
    """-> [(oracle, detail)] for one call"""
    o = op["op"]
    env = P["exp"]["ov"] if op["ov"] else P["exp"]["base"]
    ovs = f" [override_dict {json.dumps(P['override'])}]" if op["ov"] else ""
    show = f"{where}program:\n{P['perm_text'] if op['perm'] else P['text']}"
    tag = tag_of(op) + ovs
    if o.startswith("used"):
        if o == "used":
            w = op["passes"] + {"text+M": "M", "text+L": "L"}.get(op["built"], "")
            exp = env["all"] if (P["busy"] or (P["has_sub"] and "S" in w)) else env["used"]
            what = ""
        elif o == "used_stmt":
            st = P["stmts"][op["k"]]
            exp, what = st["used"], f" of the {st['kind']} statement at {st['path']}"
        else:
            cx = P["ctxs"][op["k"]]
            exp = cx["used"]
            what = f" of {'the body' if cx['k'] < 0 else 'statement ' + str(cx['k'])} of macro {cx['macro']} in the context of the call at {cx['path']}"
        if out != {"ok": exp}:
            return [("used_exact_combo", f"{tag}{what} returned {json.dumps(out)[:300]}; the gates reachable act on exactly "
                                         f"{json.dumps(exp)}; {show}")]
        return []
    accepted, rejected = "ok" in out, out.get("err") == "JaqalError"
    if env["conflict"] and not rejected:
        return [("reject_iff_combo", f"{tag}: two branches of a parallel block share a qubit but the outcome is "
                                     f"{json.dumps(brief(out))} (JaqalError expected); {show}")]
    if not env["conflict"] and not accepted:
        if P["dangling"] and rejected and o in ("discover", "run", "outparse"):
            return []
        return [("reject_iff_combo", f"{tag}: no two branches of a parallel block share a qubit (program otherwise valid) "
                                     f"but the outcome is {json.dumps(out)}; {show}")]
    return []


def run_program(P, ops, where, counts, outs_log):
    fails = []
    circuits, first = {}, {}
    for op in ops:
        key = (op["built"], op["perm"])
        if key not in circuits:
            circuits[key] = guarded(lambda: make_circuit(P, op["built"], op["perm"]))
        cr = circuits[key]
        name = "used_exact_combo" if op["op"].startswith("used") else "reject_iff_combo"
        counts[name] += 1
        if cr[0] != "ok":
            outs_log.append({"op": op, "out": {"err": "build:" + cr[1], "msg": cr[2]}})
            fails.append((name, f"{tag_of(op)}: the generated program could not be built: {cr[1]} {cr[2][:200]}; "
                                f"{where}program:\n{P['perm_text'] if op['perm'] else P['text']}"))
            continue
        out = do_call(cr[1], op, P)
        outs_log.append({"op": op, "out": brief(out)})
        fails += judge(P, op, out, where)
        if op["op"] in ("used", "vp", "run") and not op["ov"]:
            okey = (op["op"], op["passes"] if op["op"] == "used" else "")
            if not op["perm"]:
                first.setdefault(okey, out)
            else:
                base = first.get(okey) or first.get((op["op"], ""))
                if base is not None and (op["op"] != "used" or okey in first or not P["has_sub"]):
                    counts["order_combo"] += 1
                    same = (base == out) or (base.get("err") == out.get("err") == "JaqalError")
                    if op["op"] == "used" and okey not in first:
                        same = True if (P["busy"] or P["has_sub"]) else same
                    if not same:
                        fails.append(("order_combo", f"{op['op']}: the program as written gave {json.dumps(brief(base))[:300]}, "
                                                     f"with permuted branches {json.dumps(brief(out))[:300]}"
                                                     f"{' (state vectors differ)' if brief(base) == brief(out) else ''}; "
                                                     f"{where}program:\n{P['text']}\npermuted:\n{P['perm_text']}"))
    circuits.clear()
    return fails


def run_case(case):
    """-> (outcomes, [(oracle, detail)], counts)"""
    counts = {k: 0 for k in ORACLES}
    outs, fails = [], []
    n = len(case["programs"])
    for i, P in enumerate(case["programs"]):
        where = f"program {i + 1} of {n} of the history; " if n > 1 else ""
        fails += run_program(P, P["ops"], where, counts, outs)
        gc.collect()
    if n > 1 and case.get("again"):
        P = case["programs"][0]
        fails += run_program(P, P["ops"][: case["again"]], f"program 1 of {n} AGAIN after the others; ", counts, outs)
    return outs, fails, counts


def _bump(d, k, n=1):
    d[k] = d.get(k, 0) + n


def run(seed: int, n: int, driver: str = DEFAULT_DRIVER, thorough: bool = False) -> dict:
    lib()
    orc = {k: {"cases": 0, "failures": []} for k in ORACLES}
    dist, samples, distinct = {}, [], set()
    for idx in range(max(n, 1)):
        case, feats = make_case(seed, idx, thorough)
        for k, v in feats.items():
            _bump(dist, "gen:" + k, v)
        _bump(dist, "flavour:" + case["flavour"])
        _bump(dist, f"history:programs_{len(case['programs'])}")
        outs, fails, counts = run_case(case)
        for k, v in counts.items():
            orc[k]["cases"] += v
        for o in outs:
            op = o["op"]
            _bump(dist, "op:" + op["op"])
            _bump(dist, "built:" + op["built"])
            if op["op"] in ("used", "vp", "discover"):
                _bump(dist, f"passes:{op['passes'] or 'none'}")
            if op["ov"]:
                _bump(dist, "call:with_override_dict")
            if op["perm"]:
                _bump(dist, "call:on_permuted_program")
            _bump(dist, "outcome:" + ("ok" if "ok" in o["out"] else o["out"]["err"]) + ":" + ("used" if op["op"].startswith("used") else op["op"]))
        reported = set()
        for name, detail in fails:
            if name in reported or len(orc[name]["failures"]) >= 20:
                orc[name]["more_failures"] = orc[name].get("more_failures", 0) + 1
                continue
            reported.add(name)
            orc[name]["failures"].append({"case": case, "detail": detail})
        for P in case["programs"]:
            distinct.add(P["text"])
        if len(samples) < 4 and case["flavour"] not in {s["flavour"] for s in samples}:
            samples.append(case)
    return {"corr": {}, "oracle": orc, "distribution": dist, "samples": samples, "nontrivial": len(distinct)}


def replay(case: dict, driver: str = DEFAULT_DRIVER) -> dict:
    lib()
    outs, fails, counts = run_case(case)
    return {"oracle_ok": not fails,
            "detail": "; ".join(f"{a}: {b}" for a, b in fails) or "no oracle failure",
            "outcomes": outs}


def main():
    ap = argparse.ArgumentParser()
    ap.add_argument("--driver", default=DEFAULT_DRIVER)
    ap.add_argument("--seed", type=int, default=0)
    ap.add_argument("--n", type=int, default=100)
    ap.add_argument("--thorough", action="store_true")
    ap.add_argument("--verbose", action="store_true")
    a = ap.parse_args()
    res = run(a.seed, a.n, a.driver, a.thorough)
    bad = 0
    for k, v in res["oracle"].items():
        nf = len(v["failures"]) + v.get("more_failures", 0)
        bad += nf
        print(f"oracle {k:18s} cases {v['cases']:6d} failures {nf}")
        for f in v["failures"][: (20 if a.verbose else 1)]:
            print("    " + f["detail"][:3000].replace("\n", "\n      "))
    print("distribution", json.dumps(res["distribution"], sort_keys=True))
    print("nontrivial", res["nontrivial"])
    sys.exit(1 if bad else 0)


if __name__ == "__main__":
    main()
